"""C06 — array-syntax and intrinsic lowering preserve semantics.

Contracts on the real bodies of two legality decisions:
  ArrayMixin.same_range
      True only if the effective lower bounds of the two ranges (the declared
      lower bound OF THE COMPARED DIMENSION of each array when the range
      starts at the array's lower bound, the explicit start otherwise) are
      symbolically equal, the steps are equal, and the stops are equal unless
      both accesses are in the same assignment / the same array with the
      same number of preceding ranges - or both ranges are the full-from-
      lower-bound ranges of the same array
  Matmul2CodeTrans.validate
      returns normally only if the result array is neither of the two
      argument arrays (the generated loop nest overwrites the result while
      it still reads the arguments)
"""
import z3
from pyvc.interp import Contract, LoopSpec
from pyvc.values import (VRef, VFunc, VBool, VStr, VInt, VTuple, VClass, NONE,
                         VTerm, Ref, STR, EnumDesc, VExc)
from pyvc.state import fresh, PyRaise

ID = "C06"
LEVEL = "proof"
AM = "psyir/nodes/array_mixin.py"
MM = "psyir/transformations/intrinsics/matmul2code_trans.py"
NULLC = z3.Const("null", Ref)
BOOL = z3.BoolSort()
INT = z3.IntSort()


def build(uni):
    uni.exact_fstrings = False
    uni.merge_boolops = True
    uni.fields.update({
        "_children": "list[Range]", "_symbol": "DataSymbol",
        "_parent": "Assignment",
    })
    AL0 = z3.Const("H0_$alloc", z3.ArraySort(Ref, BOOL))
    x, y = z3.Const("ax", Ref), z3.Const("ay", Ref)
    k1 = z3.Int("ak")

    def total(f, *vs):
        uni.axioms.append(z3.ForAll(list(vs), z3.And(
            f(*vs) != NULLC, z3.Select(AL0, f(*vs))), patterns=[f(*vs)]))

    def field_hook(attr):
        def h(it, selfv, args, kw, st, fr):
            return it.getattr(VRef(selfv.e, "Obj"), attr, st, fr)
        return h

    # ------------------------------------------------------------ same_range
    ISLB = z3.Function("is_lower_bound", Ref, INT, BOOL)
    ISUB = z3.Function("is_upper_bound", Ref, INT, BOOL)
    SAME = z3.Function("is_same_array", Ref, Ref, BOOL)
    ANC = z3.Function("enclosing_assignment", Ref, Ref)      # may be null
    ATYPE = z3.Function("array_type_of", Ref, Ref)           # may be null
    EXT = z3.Function("extent_kind", Ref, INT, INT)  # 0 bounds 1 DEF 2 ATTR
    LOW = z3.Function("declared_lower", Ref, INT, Ref)
    UPP = z3.Function("declared_upper", Ref, INT, Ref)
    RNG = z3.Function("range_part", Ref, INT, Ref)   # 0 start 1 stop 2 step
    EQ = z3.Function("symbolically_equal", Ref, Ref, BOOL)
    NRANGES = z3.Function("ranges_before", Ref, INT, INT)
    ONE = z3.Const("literal_one", Ref)
    DTYPE = z3.Function("datatype_of", Ref, Ref)
    total(DTYPE, x)
    total(LOW, x, k1)
    total(UPP, x, k1)
    total(RNG, x, k1)
    uni.axioms.append(z3.And(ONE != NULLC, z3.Select(AL0, ONE)))
    # an ArrayType exists exactly for Reference accessors of DataSymbols of
    # array type: abstracted as a nullable function of the accessor
    a1 = z3.Const("a1", Ref)
    uni.axioms.append(z3.ForAll([a1], z3.Select(AL0, ATYPE(a1)),
                                patterns=[ATYPE(a1)]))
    uni.axioms.append(z3.ForAll([a1], z3.Select(AL0, ANC(a1)),
                                patterns=[ANC(a1)]))

    def h_shape_item(it, selfv, args, kw, st, fr):
        # ArrayType.shape[k]: an Extent member or an ArrayBounds record
        return VRef(selfv.e, "ShapeOf")

    def h_shapeof_getitem(it, selfv, args, kw, st, fr):
        return VTerm("dim", [selfv.e, it.as_int(args[0])])

    def term_attr(it, obj, attr, st, fr):
        if obj.ctor == "dim":
            t, k = obj.args
            if attr == "lower":
                st.assume(LOW(t, k) != NULLC)
                return VRef(LOW(t, k), "Node")
            if attr == "upper":
                st.assume(UPP(t, k) != NULLC)
                return VRef(UPP(t, k), "Node")
        if obj.ctor == "ns":
            path = tuple(obj.args) + (attr,)
            if path == ("ArrayType", "Extent", "DEFERRED"):
                return VTerm("extent", [1])
            if path == ("ArrayType", "Extent", "ATTRIBUTE"):
                return VTerm("extent", [2])
            return VTerm("ns", list(path))
        raise AttributeError(attr)
    uni.term_attr = term_attr

    def compare_hook(it, op, a, b, st, fr):
        if isinstance(a, VTerm) and a.ctor == "dim" and \
                isinstance(b, VTerm) and b.ctor == "extent" and \
                op in ("Eq", "NotEq"):
            e = EXT(a.args[0], a.args[1]) == b.args[0]
            return e if op == "Eq" else z3.Not(e)
        return None
    uni.compare_hook = compare_hook
    uni.consts["INTEGER_TYPE"] = VTerm("ns", ["INTEGER_TYPE"])
    uni.class_attr = lambda it, cname, attr, st, fr: (
        VTerm("ns", ["ArrayType", "Extent"])
        if (cname, attr) == ("ArrayType", "Extent") else None)

    def construct_hook(it, cname, args, kw, st, fr):
        if cname == "Literal":
            st.assume(ONE != NULLC)
            return VRef(ONE, "Literal")
        return None
    uni.construct_hook = construct_hook

    def h_indices(it, selfv, args, kw, st, fr):
        return it.getattr(VRef(selfv.e, "Obj"), "_children", st, fr)

    def nn(st, e):
        st.assume(z3.And(e != NULLC, z3.Select(AL0, e)))
        return e

    def h_range_part(k):
        return lambda it, s, a, kw, st, fr: VRef(
            nn(st, RNG(s.e, z3.IntVal(k))), "Node")
    uni.method_hooks.update({
        "ArrayMixin.indices": h_indices,
        "ArrayMixin.is_lower_bound": lambda it, s, a, k, st, fr: VBool(
            ISLB(s.e, it.as_int(a[0]))),
        "ArrayMixin.is_upper_bound": lambda it, s, a, k, st, fr: VBool(
            ISUB(s.e, it.as_int(a[0]))),
        "ArrayMixin.is_same_array": lambda it, s, a, k, st, fr: VBool(
            SAME(s.e, a[0].e)),
        "ArrayMixin.ancestor": lambda it, s, a, k, st, fr: VRef(
            ANC(s.e), "Assignment"),
        "Node.ancestor": lambda it, s, a, k, st, fr: VRef(
            ANC(s.e), "Assignment"),
        "Range.start": h_range_part(0), "Range.stop": h_range_part(1),
        "Range.step": h_range_part(2),
        "SymbolicMaths.get": lambda it, s, a, k, st, fr: VRef(
            nn(st, z3.Const("the_symbolic_maths", Ref)), "SymbolicMaths"),
        "SymbolicMaths.equal": lambda it, s, a, k, st, fr: VBool(
            EQ(a[0].e, a[1].e)),
    })
    uni.axioms.append(z3.Const("the_symbolic_maths", Ref) != NULLC)
    uni.note_assumption(
        "SymbolicMaths.equal, is_lower_bound, is_upper_bound, is_same_array "
        "and ancestor(Assignment) are used through their answers "
        "(uninterpreted functions); SymbolicMaths.equal has its own "
        "contract in C17")
    cs = []
    # same_range's own body reads self.symbol.datatype / shape: done through
    # the frame-local abstraction below (see SAME_RANGE_SRC)
    uni.consts.update({
        "ISLB": VFunc("hook", fn=lambda it, a, k, st, fr: VBool(
            ISLB(a[0].e, it.as_int(a[1])))),
        "ISUB": VFunc("hook", fn=lambda it, a, k, st, fr: VBool(
            ISUB(a[0].e, it.as_int(a[1])))),
        "SAME": VFunc("hook", fn=lambda it, a, k, st, fr: VBool(
            SAME(a[0].e, a[1].e))),
        "EQ": VFunc("hook", fn=lambda it, a, k, st, fr: VBool(
            EQ(a[0].e, a[1].e))),
        "DT": VFunc("hook", fn=lambda it, a, k, st, fr: VRef(
            DTYPE(st.read("_symbol", a[0].e, "ref")), "ArrayType")),
        "EXTENT": VFunc("hook", fn=lambda it, a, k, st, fr: VInt(
            EXT(DTYPE(st.read("_symbol", a[0].e, "ref")),
                it.as_int(a[1])))),
        "LOWER": VFunc("hook", fn=lambda it, a, k, st, fr: VRef(
            LOW(DTYPE(st.read("_symbol", a[0].e, "ref")), it.as_int(a[1])),
            "Node")),
        "UPPER": VFunc("hook", fn=lambda it, a, k, st, fr: VRef(
            UPP(DTYPE(st.read("_symbol", a[0].e, "ref")), it.as_int(a[1])),
            "Node")),
        "PART": VFunc("hook", fn=lambda it, a, k, st, fr: VRef(
            RNG(a[0].e, it.as_int(a[1])), "Node")),
        "ONE": VFunc("hook", fn=lambda it, a, k, st, fr: VRef(
            ONE, "Literal")),
        "SAME_STMT": VFunc("hook", fn=lambda it, a, k, st, fr: VBool(
            ANC(a[0].e) == ANC(a[1].e))),
    })
    uni.preds.update({
        # the lower bound the range a.indices[i] effectively starts at
        "START_OK": (["a", "i", "b", "j"], """
            EQ(ite(ISLB(a, i),
                   ite(EXTENT(a, i) == 2, ONE(), LOWER(a, i)),
                   PART(at(a._children, i), 0)),
               ite(ISLB(b, j),
                   ite(EXTENT(b, j) == 2, ONE(), LOWER(b, j)),
                   PART(at(b._children, j), 0)))
            """),
        "STOP_OK": (["a", "i", "b", "j"], """
            EQ(ite(ISUB(a, i), UPPER(a, i), PART(at(a._children, i), 1)),
               ite(ISUB(b, j), UPPER(b, j), PART(at(b._children, j), 1)))
            """),
    })
    uni.method_hooks.update({
        "ArrayType.shape": lambda it, s, a, k, st, fr: VRef(s.e, "ShapeOf"),
        "ShapeOf.__getitem__": h_shapeof_getitem,
    })
    c = Contract(
        f"{AM}:ArrayMixin.same_range",
        params={"self": "ArrayReference", "index": "int",
                "array2": "ArrayReference", "index2": "int"},
        requires=[("args", "array2 is not None and self._children is not "
                   "None and array2._children is not None and "
                   "self._symbol is not None and array2._symbol is not None "
                   "and forall(lambda q: implies(0 <= q and "
                   "q < len(self._children), at(self._children, q) "
                   "is not None)) and forall(lambda q: implies(0 <= q and "
                   "q < len(array2._children), at(array2._children, q) "
                   "is not None))"),
                  ("positions", "0 <= index and index < len(self._children) "
                   "and 0 <= index2 and index2 < len(array2._children)"),
                  ("declared_arrays", "isinstance(DT(self), ArrayType) and "
                   "isinstance(DT(array2), ArrayType)")],
        returns="bool",
        ensures=[
            ("same_range_only_for_equal_effective_bounds_and_steps",
             "implies(result, (SAME(self, array2) and ISLB(self, index) and "
             "ISLB(array2, index2)) or (START_OK(self, index, array2, index2)"
             " and EQ(PART(at(self._children, index), 2), "
             "PART(at(array2._children, index2), 2)) and "
             "(STOP_OK(self, index, array2, index2) or "
             "SAME_STMT(self, array2) or SAME(self, array2))))"),
        ],
        raises={"TypeError": None, "IndexError": None,
                "AttributeError": None},
        modifies=["$len", "$items.ref"],
        covers=[("yes", "result"), ("no", "not result")])
    c.keep_guards = []
    uni.contracts["ArrayMixin.same_range:top"] = c
    cs.append(c)
    return cs + build_matmul(uni, total, field_hook)


def build_matmul(uni, total, field_hook):
    AL0 = z3.Const("H0_$alloc", z3.ArraySort(Ref, BOOL))
    x = z3.Const("ax", Ref)
    ARGS = z3.Function("arguments_of", Ref, Ref)
    LHS = z3.Function("lhs_of", Ref, Ref)
    DTYPE = z3.Function("datatype_of", Ref, Ref)
    SHAPE = z3.Function("shape_of", Ref, Ref)
    FULL = z3.Function("is_full_range", Ref, INT, BOOL)
    total(ARGS, x)
    total(LHS, x)
    total(DTYPE, x)
    total(SHAPE, x)

    def h_args(it, selfv, args, kw, st, fr):
        lst = VRef(ARGS(selfv.e), "list", "Reference")
        items = it.list_items(lst, st)
        st.assume(it.length(lst, st) >= 2)
        for k in (0, 1):
            st.assume(z3.And(z3.Select(items, k) != NULLC,
                             z3.Select(AL0, z3.Select(items, k))))
        return lst
    uni.method_hooks.update({
        "Intrinsic2CodeTrans.validate": lambda it, s, a, k, st, fr: NONE,
        "IntrinsicCall.arguments": h_args,
        "Call.arguments": h_args,
        "Node.parent": field_hook("_parent"),
        "IntrinsicCall.parent": field_hook("_parent"),
        "Assignment.lhs": lambda it, s, a, k, st, fr: VRef(LHS(s.e),
                                                           "Reference"),
        "Reference.symbol": field_hook("_symbol"),
        "Symbol.datatype": lambda it, s, a, k, st, fr: VRef(DTYPE(s.e),
                                                            "ArrayType"),
        "Symbol.shape": lambda it, s, a, k, st, fr: VRef(SHAPE(s.e), "list",
                                                         "Node"),
        "Reference.children": field_hook("_children"),
        "Reference.is_full_range": lambda it, s, a, k, st, fr: VBool(
            FULL(s.e, it.as_int(a[0]))),
    })
    for sub in uni.repo.subclasses("Reference"):
        for a in ("symbol", "children", "is_full_range"):
            uni.method_hooks.setdefault(
                f"{sub}.{a}", uni.method_hooks[f"Reference.{a}"])
    for sub in uni.repo.subclasses("Symbol"):
        for a in ("datatype", "shape"):
            uni.method_hooks.setdefault(
                f"{sub}.{a}", uni.method_hooks[f"Symbol.{a}"])
    uni.consts.update({
        "ARG": VFunc("hook", fn=lambda it, a, k, st, fr: it.getitem(
            VRef(ARGS(a[0].e), "list", "Reference"), a[1], st, fr)),
        "SHAPEOF": VFunc("hook", fn=lambda it, a, k, st, fr: VRef(
            SHAPE(a[0].e), "list", "Node")),
        "RESULT": VFunc("hook", fn=lambda it, a, k, st, fr: VRef(
            LHS(st.read("_parent", a[0].e, "ref")), "Reference")),
    })
    c = Contract(
        f"{MM}:Matmul2CodeTrans.validate",
        params={"self": "Matmul2CodeTrans", "node": "IntrinsicCall",
                "options": "Obj"},
        requires=[("node", "node is not None and node._parent is not None "
                   "and forall(lambda r, q: implies(isinstance(r, Reference) "
                   "and r._children is not None and 0 <= q and "
                   "q < len(r._children), at(r._children, q) is not None), "
                   "('Node', 'int')) and forall(lambda r: implies(isinstance(r, "
                   "Reference), r._symbol is not None), 'Node')"),
                  ("rank", "forall(lambda r: implies(isinstance(r, "
                   "Reference) and r._children is not None and "
                   "len(r._children) > 0, len(r._children) == "
                   "len(SHAPEOF(r._symbol))), 'Node')")],
        ensures=[
            ("result_is_not_an_argument_array",
             "RESULT(node)._symbol is not ARG(node, 0)._symbol and "
             "RESULT(node)._symbol is not ARG(node, 1)._symbol"),
        ],
        raises={"TransformationError": None}, modifies=["$len", "$items.ref"],
        covers=[("accepts", "True")])
    c.keep_guards = ["result.symbol in"]
    uni.contracts["Matmul2CodeTrans.validate:top"] = c
    inv = [("t", "True")]
    uni.loopspecs["Matmul2CodeTrans.validate"] = {
        k: LoopSpec(invariants=list(inv), modifies=[]) for k in range(4)}
    uni.note_assumption(
        "Matmul2CodeTrans.validate: Intrinsic2CodeTrans.validate, "
        "is_full_range, symbol.shape / datatype are used through "
        "uninterpreted answers; only the aliasing clause is claimed")
    return [c]


TRUSTED = [
    "pyvc VC generator and z3",
    "that equal effective bounds and steps (same_range) / non-aliased result "
    "(MATMUL) make the generated loops compute the array-syntax semantics "
    "(not mechanised)",
    "NOT under contract: ArrayAssignment2LoopsTrans, "
    "Reference2ArrayRangeTrans, ArrayAccess2LoopTrans, ABS/SIGN/MIN/MAX/"
    "DOT_PRODUCT to code, the reduction-to-loop transformations, the apply() "
    "bodies",
]
EXPLANATION = (
    "same_range answers True only for ranges with symbolically equal "
    "effective lower bounds (of the compared dimensions), steps and - "
    "unless the accesses are conformable by construction - upper bounds; "
    "Matmul2CodeTrans.validate refuses a result array that is one of the "
    "argument arrays.")


def extra(uni, tier, seed):
    """BOUNDED stand-in (never counted as proved) for the lowering
    transformations that are not under contract: the original module and
    the module written after the transformation are compiled with gfortran,
    linked with one driver (3 inputs) and their outputs compared"""
    from pyvc.runner import Extra
    from realise import C06 as R
    out, n_ok = [], 0
    for cid, verdict, detail, src in R.lowering_cases():
        if verdict == "norun":
            out.append(Extra(f"bounded#lowering[{cid}]", False, detail,
                             undecided=True, bounded=True))
        elif verdict == "differs":
            out.append(Extra(
                f"bounded#lowering[{cid}]", False, detail[:300],
                bounded=True, kind="bounded run-time contract: compiled "
                "original vs lowered module",
                replay={"confirmed": True, "case": cid,
                        "input": {"module": src},
                        "observed": detail[:1500]}))
        else:
            n_ok += 1
    out.append(Extra("bounded#lowering-compiled-equivalence", True,
                     f"{n_ok} lowerings equal or refused",
                     kind="bounded run-time contract: gfortran-compiled "
                          "original vs lowered module, 13 statements, "
                          "3 inputs each", count=n_ok, bounded=True))
    return out


def replay(name, ob, model, uni):
    from realise import C06 as R
    return R.run(name)


def replay_known(k, uni):
    from realise import C06 as R
    return R.known(k["id"])
