"""Realiser for C07: the real InlineTrans on small caller/callee pairs; the
original module and the module written after inlining are both compiled
with gfortran, linked with the same driver and their outputs compared.
Scratch files live in a temporary directory that is removed afterwards."""
import os
import shutil
import subprocess
import tempfile

DRIVER = '''\
program main
  use test_mod, only: run_it
  implicit none
  integer :: a(4,10), i, j, seed
  do seed = 1, 3
    do j = 1, 10
      do i = 1, 4
        a(i,j) = seed*(i + 4*(j-1)) - 3*seed*seed
      end do
    end do
    call run_it(a)
    write(*,'(40(i0,1x))') a
  end do
end program main
'''

HEAD = "module test_mod\n  implicit none\ncontains\n"
TAIL = "end module test_mod\n"

# (id, caller body + callee): every case is a complete pair
CASES = {
    "section-of-rank2": '''\
  subroutine run_it(a)
    integer, intent(inout) :: a(4,10)
    call sub(a(1,3:7))
  end subroutine run_it
  subroutine sub(x)
    integer, intent(inout) :: x(5)
    integer :: j
    do j = 1, 5
      x(j) = x(j) + 100*j
    end do
  end subroutine sub
''',
    "section-second-dim-shifted": '''\
  subroutine run_it(a)
    integer, intent(inout) :: a(4,10)
    call sub(a(2:4,2))
  end subroutine run_it
  subroutine sub(x)
    integer, intent(inout) :: x(0:2)
    integer :: j
    do j = 0, 2
      x(j) = x(j) + 100*j
    end do
  end subroutine sub
''',
    "whole-array-shifted-bounds": '''\
  subroutine run_it(a)
    integer, intent(inout) :: a(4,10)
    call sub(a)
  end subroutine run_it
  subroutine sub(x)
    integer, intent(inout) :: x(0:3,2:11)
    integer :: j
    do j = 2, 11
      x(0,j) = x(3,j) + j
    end do
  end subroutine sub
''',
    "element-and-its-index": '''\
  subroutine run_it(a)
    integer, intent(inout) :: a(4,10)
    integer :: i
    i = 2
    call sub(a(i,3), i)
    a(1,1) = i
  end subroutine run_it
  subroutine sub(x, k)
    integer, intent(inout) :: x
    integer, intent(inout) :: k
    k = k + 1
    x = x + 1000
  end subroutine sub
''',
    "expression-argument": '''\
  subroutine run_it(a)
    integer, intent(inout) :: a(4,10)
    integer :: i
    i = 2
    call sub(a(1,1), i + 1, i)
  end subroutine run_it
  subroutine sub(x, v, k)
    integer, intent(inout) :: x
    integer, intent(in) :: v
    integer, intent(inout) :: k
    k = k + 5
    x = x + v
  end subroutine sub
''',
    "name-clash-local": '''\
  subroutine run_it(a)
    integer, intent(inout) :: a(4,10)
    integer :: j
    j = 3
    call sub(a(1,:))
    a(2,1) = j
  end subroutine run_it
  subroutine sub(x)
    integer, intent(inout) :: x(10)
    integer :: j
    do j = 1, 10
      x(j) = x(j) + j
    end do
  end subroutine sub
''',
}


MORE_CASES = {
    "section-2d": '''\
  subroutine run_it(a)
    integer, intent(inout) :: a(4,10)
    call sub(a(2:3,4:6))
  end subroutine run_it
  subroutine sub(x)
    integer, intent(inout) :: x(2,3)
    integer :: i, j
    do j = 1, 3
      do i = 1, 2
        x(i,j) = x(i,j) + 10*i + j
      end do
    end do
  end subroutine sub
''',
    "element-expression-index": '''\
  subroutine run_it(a)
    integer, intent(inout) :: a(4,10)
    integer :: i
    i = 1
    call sub(a(i+1,3), 7)
  end subroutine run_it
  subroutine sub(x, v)
    integer, intent(inout) :: x
    integer, intent(in) :: v
    x = x + v
  end subroutine sub
''',
    "two-calls-same-routine": '''\
  subroutine run_it(a)
    integer, intent(inout) :: a(4,10)
    call sub(a(:,1), 2)
    call sub(a(:,2), 3)
  end subroutine run_it
  subroutine sub(x, v)
    integer, intent(inout) :: x(4)
    integer, intent(in) :: v
    integer :: tmp, j
    tmp = v*v
    do j = 1, 4
      x(j) = x(j) + tmp
    end do
  end subroutine sub
''',
    "local-array-and-clash": '''\
  subroutine run_it(a)
    integer, intent(inout) :: a(4,10)
    integer :: work(4)
    work = 5
    call sub(a(:,3))
    a(:,4) = work
  end subroutine run_it
  subroutine sub(x)
    integer, intent(inout) :: x(4)
    integer :: work(4)
    integer :: j
    do j = 1, 4
      work(j) = j
      x(j) = x(j) + work(j)
    end do
  end subroutine sub
''',
    "same-named-bound": '''\
  subroutine run_it(a)
    integer, intent(inout) :: a(4,10)
    call mid(a(:,1), 2)
  end subroutine run_it
  subroutine mid(w, lo)
    integer, intent(in) :: lo
    integer, intent(inout) :: w(lo:lo+3)
    call sub(w, 5)
  end subroutine mid
  subroutine sub(x, lo)
    integer, intent(in) :: lo
    integer, intent(inout) :: x(lo:)
    x(lo) = x(lo) + 1
    x(lo + 3) = x(lo + 3) + 7
  end subroutine sub
''',
    "negative-stride-section": '''\
  subroutine run_it(a)
    integer, intent(inout) :: a(4,10)
    call sub(a(1,2:8:2))
  end subroutine run_it
  subroutine sub(x)
    integer, intent(inout) :: x(4)
    integer :: j
    do j = 1, 4
      x(j) = x(j) + 100*j
    end do
  end subroutine sub
''',
}


def _build_run(src, workdir, tag):
    os.mkdir(os.path.join(workdir, tag))
    f90 = os.path.join(workdir, f"{tag}.f90")
    exe = os.path.join(workdir, f"{tag}.exe")
    with open(f90, "w", encoding="utf-8") as fout:
        fout.write(src + "\n" + DRIVER)
    r = subprocess.run(["gfortran", "-O0", "-J", os.path.join(workdir, tag),
                        "-o", exe, f90], cwd=workdir, capture_output=True,
                       text=True)
    if r.returncode:
        return None, r.stderr[-600:]
    r = subprocess.run([exe], capture_output=True, text=True, cwd=workdir,
                       timeout=60)
    return r.stdout, r.stderr[-300:]


def case(cid):
    """(verdict, detail, source): verdict in refused / equal / differs /
    norun"""
    from psyclone.psyir.backend.fortran import FortranWriter
    from psyclone.psyir.frontend.fortran import FortranReader
    from psyclone.psyir.nodes import Call, IntrinsicCall, Routine
    from psyclone.psyir.transformations import (InlineTrans,
                                                TransformationError)
    if not shutil.which("gfortran"):
        return "norun", "gfortran not found", ""
    module = HEAD + (CASES.get(cid) or MORE_CASES[cid]) + TAIL
    psyir = FortranReader().psyir_from_source(module)
    names = [rt.name for rt in psyir.walk(Routine)]
    caller = [rt for rt in psyir.walk(Routine)
              if rt.name == ("mid" if "mid" in names else "run_it")][0]
    for call in caller.walk(Call):
        if isinstance(call, IntrinsicCall):
            continue
        try:
            InlineTrans().apply(call)
        except TransformationError as err:
            return "refused", str(err.value)[-200:], module
    inlined = FortranWriter()(psyir)
    workdir = tempfile.mkdtemp(prefix="c07_")
    try:
        want, err0 = _build_run(module, workdir, "orig")
        if want is None:
            return "norun", "original does not compile: " + err0, module
        got, err1 = _build_run(inlined, workdir, "inl")
    finally:
        shutil.rmtree(workdir, ignore_errors=True)
    if got is None:
        return "differs", "the inlined module does not compile: " + err1 + \
            "\n" + inlined, module
    if got != want:
        return "differs", "outputs differ after inlining:\n" + inlined, module
    return "equal", "", module


def bounded_cases(thorough=False):
    ids = list(CASES) + (list(MORE_CASES) if thorough else [])
    return [(cid,) + case(cid) for cid in ids]


def clash_cases():
    """real SymbolTable._handle_symbol_clash on two tables whose symbols
    share a name, for every combination resolved / unresolved"""
    from psyclone.psyir.symbols import (SymbolTable, DataSymbol, Symbol,
                                        INTEGER_TYPE, ContainerSymbol,
                                        UnresolvedInterface)
    for mine_unres, theirs_unres in ((True, False), (False, True),
                                     (False, False)):
        mine, theirs = SymbolTable(), SymbolTable()
        mine.add(ContainerSymbol("data_mod", wildcard_import=True))
        theirs.add(ContainerSymbol("other_mod", wildcard_import=True))

        def mk(unres):
            if unres:
                return Symbol("work", interface=UnresolvedInterface())
            return DataSymbol("work", INTEGER_TYPE)
        m, t = mk(mine_unres), mk(theirs_unres)
        mine.add(m)
        theirs.add(t)
        try:
            mine._handle_symbol_clash(t, theirs)
        except Exception:      # noqa: a refusal is not a capture
            continue
        names = [sym.name for sym in mine.symbols]
        if t not in mine.symbols or m.name.lower() == t.name.lower():
            return {"confirmed": True,
                    "input": {"this_table": "work (" + ("unresolved"
                              if mine_unres else "local") + ")",
                              "incoming": "work (" + ("unresolved"
                              if theirs_unres else "local") + ")"},
                    "observed": "after _handle_symbol_clash the incoming "
                    f"symbol is {'not ' if t not in mine.symbols else ''}in "
                    f"the table and the names are '{m.name}' / '{t.name}' "
                    f"(table: {names}): references to the incoming symbol "
                    "are captured by the existing one"}
    return {"confirmed": False}


KNOWN_CASES = ("element-and-its-index", "expression-argument")


def run(name=""):
    if "_handle_symbol_clash" in name:
        return clash_cases()
    for cid in CASES:
        if cid in KNOWN_CASES:
            continue
        verdict, detail, src = case(cid)
        if verdict == "differs":
            return {"confirmed": True, "case": cid,
                    "input": {"module": src}, "observed": detail[:1500]}
    return {"confirmed": False}


def known(kid):
    return case(kid)[0] == "differs"
