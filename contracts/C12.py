"""C12 — extraction regions record every input and output they need.

Contracts on the real bodies of CallTreeUtils.get_input_parameters and
get_output_parameters (with SingleVariableAccessInfo.is_written_first /
is_written and VariablesAccessInfo.is_written inlined), stated over an
abstract access view: each access record has its real access type plus two
ghost attributes the property speaks about -- whether the access covers the
whole variable and whether it is executed unconditionally.
"""
import z3
from pyvc.interp import Contract, LoopSpec
from pyvc.values import VRef, VFunc, VBool, NONE, Ref, EnumDesc

ID = "C12"
LEVEL = "proof"
CT = "psyir/tools/call_tree_utils.py"
NULLC = z3.Const("null", Ref)


def build(uni):
    info = uni.repo.cls("AccessType", "core/access_type.py")
    uni.enums["AccessType"] = EnumDesc("AccessType", list(info.consts))
    uni.fields.update({
        "_accesses": "list[AccessInfo]", "_access_type": "enum:AccessType",
        # ghost attributes of an access record (not stored by the code)
        "$full": "bool", "$uncond": "bool",
    })
    uni.heap_extra = {"$readset": "set[ref]", "$writeset": "set[ref]"}
    SIGS = z3.Function("all_signatures_of", Ref, Ref)
    SVAI = z3.Function("var_info_of", Ref, Ref, Ref)
    AL0 = z3.Const("H0_$alloc", z3.ArraySort(Ref, z3.BoolSort()))

    def h_sigs(it, selfv, args, kw, st, fr):
        st.assume(z3.Select(AL0, SIGS(selfv.e)))
        return VRef(SIGS(selfv.e), "list", "Signature")

    def h_getitem(it, selfv, args, kw, st, fr):
        return VRef(SVAI(selfv.e, args[0].e), "SingleVariableAccessInfo")

    def h_access_type(it, selfv, args, kw, st, fr):
        return it.getattr(VRef(selfv.e, "AccessObj"), "_access_type", st, fr)

    def adder(field):
        def h(it, selfv, args, kw, st, fr):
            cur = st.read(field, selfv.e, "set[ref]")
            st.write(field, selfv.e, z3.Store(cur, args[0].e, True),
                     "set[ref]")
            return NONE
        return h
    uni.method_hooks.update({
        "VariablesAccessInfo.all_signatures": h_sigs,
        "VariablesAccessInfo.__getitem__": h_getitem,
        "AccessInfo.access_type": h_access_type,
        "ReadWriteInfo.add_read": adder("$readset"),
        "ReadWriteInfo.add_write": adder("$writeset"),
    })
    uni.note_assumption(
        "assumed models (engine hooks): VariablesAccessInfo.all_signatures "
        "is a list that is a function of the object, variables_info[sig] a "
        "function of (object, signature); ReadWriteInfo.add_read/add_write "
        "insert the signature into the ghost read/write sets (container "
        "names and ordering dropped); AccessInfo.access_type returns the "
        "stored attribute")
    uni.note_assumption(
        "link assumed from C11: the access records are what "
        "reference_accesses returns for the region; the ghost attributes "
        "'covers the whole variable' and 'unconditional' are arbitrary")
    uni.consts["SIGS"] = VFunc("hook", fn=lambda it, a, k, st, fr: (
        st.assume(z3.Select(AL0, SIGS(a[0].e))),
        VRef(SIGS(a[0].e), "list", "Signature"))[1])
    uni.consts["ACC"] = VFunc("hook", fn=lambda it, a, k, st, fr: it.getattr(
        VRef(SVAI(a[0].e, a[1].e), "SVAIObj"), "_accesses", st, fr))
    uni.consts["inreads"] = VFunc("hook", fn=lambda it, a, k, st, fr: VBool(
        z3.Select(st.read("$readset", a[0].e, "set[ref]"), a[1].e)))
    uni.consts["inwrites"] = VFunc("hook", fn=lambda it, a, k, st, fr: VBool(
        z3.Select(st.read("$writeset", a[0].e, "set[ref]"), a[1].e)))
    uni.preds.update({
        # definitions from the property text / Fortran semantics
        "READS": (["a"], "a._access_type == AccessType.READ or "
                         "a._access_type == AccessType.READWRITE or "
                         "a._access_type == AccessType.INC or "
                         "a._access_type == AccessType.READINC or "
                         "a._access_type == AccessType.SUM"),
        "WRITES": (["a"], "a._access_type == AccessType.WRITE or "
                          "a._access_type == AccessType.READWRITE or "
                          "a._access_type == AccessType.INC or "
                          "a._access_type == AccessType.READINC or "
                          "a._access_type == AccessType.SUM"),
        "KILLS": (["a"], "a._access_type == AccessType.WRITE and "
                         "getattr(a, '$full') and getattr(a, '$uncond')"),
        # the incoming value of the variable can be read in the region
        "EXPOSED": (["vi", "s"], """
            exists(lambda i: 0 <= i and i < len(ACC(vi, s)) and
                READS(at(ACC(vi, s), i)) and
                forall(lambda j: implies(0 <= j and j < i,
                                         not KILLS(at(ACC(vi, s), j)))))
            """),
        "MODIFIED": (["vi", "s"], "exists(lambda i: 0 <= i and "
                                  "i < len(ACC(vi, s)) and "
                                  "WRITES(at(ACC(vi, s), i)))"),
        # recorded known finding: first access is a partial or conditional
        # write (the code takes any first WRITE as killing the input)
        "KFCLASS": (["vi", "s"], "len(ACC(vi, s)) > 0 and "
                    "at(ACC(vi, s), 0)._access_type == AccessType.WRITE and "
                    "not KILLS(at(ACC(vi, s), 0))"),
        "VWF": (["vi"], """
            vi is not None and SIGS(vi) is not None and len(SIGS(vi)) >= 0
            and forall(lambda p: implies(0 <= p and p < len(SIGS(vi)),
                at(SIGS(vi), p) is not None and
                var_info(vi, at(SIGS(vi), p)) is not None and
                ACC(vi, at(SIGS(vi), p)) is not None and
                len(ACC(vi, at(SIGS(vi), p))) >= 0 and
                forall(lambda q: implies(0 <= q and
                    q < len(ACC(vi, at(SIGS(vi), p))),
                    at(ACC(vi, at(SIGS(vi), p)), q) is not None))))
            """),
    })
    uni.consts["var_info"] = VFunc("hook", fn=lambda it, a, k, st, fr: VRef(
        SVAI(a[0].e, a[1].e), "SingleVariableAccessInfo"))
    uni.consts["getattr"] = VFunc("hook", fn=lambda it, a, k, st, fr: (
        it.from_field(it.concrete(a[1]), st.read(
            it.concrete(a[1]), a[0].e, uni.field_tag(it.concrete(a[1]))))))
    cs = []
    common = dict(
        params={"self": "CallTreeUtils", "read_write_info": "ReadWriteInfo",
                "node_list": "none",
                "variables_info": "VariablesAccessInfo", "options": "none"},
        requires=[("wf", "VWF(variables_info) and "
                         "read_write_info is not None")])
    c = Contract(
        f"{CT}:CallTreeUtils.get_input_parameters", **common,
        ensures=[
            ("inputs_complete_outside_known_class",
             "forall(lambda p: implies(0 <= p and "
             "p < len(SIGS(variables_info)) and "
             "EXPOSED(variables_info, at(SIGS(variables_info), p)) and "
             "not KFCLASS(variables_info, at(SIGS(variables_info), p)), "
             "inreads(read_write_info, at(SIGS(variables_info), p))))"),
            ("inputs_complete",
             "forall(lambda p: implies(0 <= p and "
             "p < len(SIGS(variables_info)) and "
             "EXPOSED(variables_info, at(SIGS(variables_info), p)), "
             "inreads(read_write_info, at(SIGS(variables_info), p))))"),
            ("monotone", "forall(lambda x: implies(old(inreads("
                         "read_write_info, x)), inreads(read_write_info, x)),"
                         " 'ref')"),
            ("outputs_untouched", "unchanged('$writeset')"),
        ],
        raises={}, modifies=["$readset"],
        covers=[("adds", "exists(lambda p: 0 <= p and "
                         "p < len(SIGS(variables_info)) and "
                         "inreads(read_write_info, "
                         "at(SIGS(variables_info), p)) and not old(inreads("
                         "read_write_info, at(SIGS(variables_info), p))))"),
                ("skips", "exists(lambda p: 0 <= p and "
                          "p < len(SIGS(variables_info)) and "
                          "not inreads(read_write_info, "
                          "at(SIGS(variables_info), p)))")])
    uni.contracts["CallTreeUtils.get_input_parameters"] = c
    uni.loopspecs["CallTreeUtils.get_input_parameters"] = {0: LoopSpec(
        invariants=[
            ("done", "forall(lambda p: implies(0 <= p and p < _k and "
                     "EXPOSED(variables_info, at(_iter, p)) and "
                     "not KFCLASS(variables_info, at(_iter, p)), "
                     "inreads(read_write_info, at(_iter, p))))"),
            ("done_strict", "forall(lambda p: implies(0 <= p and p < _k and "
                            "EXPOSED(variables_info, at(_iter, p)), "
                            "inreads(read_write_info, at(_iter, p))))"),
            ("monotone", "forall(lambda x: implies(old(inreads("
                         "read_write_info, x)), inreads(read_write_info, x)),"
                         " 'ref')"),
            ("iter", "_iter is SIGS(variables_info)"),
            ("writes", "unchanged('$writeset')")],
        modifies=["$readset"])}
    cs.append(c)

    c = Contract(
        f"{CT}:CallTreeUtils.get_output_parameters", **common,
        ensures=[
            ("outputs_complete",
             "forall(lambda p: implies(0 <= p and "
             "p < len(SIGS(variables_info)) and "
             "MODIFIED(variables_info, at(SIGS(variables_info), p)), "
             "inwrites(read_write_info, at(SIGS(variables_info), p))))"),
            ("monotone", "forall(lambda x: implies(old(inwrites("
                         "read_write_info, x)), inwrites(read_write_info, x))"
                         ", 'ref')"),
            ("inputs_untouched", "unchanged('$readset')"),
        ],
        raises={}, modifies=["$writeset"],
        covers=[("adds", "exists(lambda p: 0 <= p and "
                         "p < len(SIGS(variables_info)) and "
                         "inwrites(read_write_info, "
                         "at(SIGS(variables_info), p)) and not old(inwrites("
                         "read_write_info, at(SIGS(variables_info), p))))")])
    uni.contracts["CallTreeUtils.get_output_parameters"] = c
    uni.loopspecs["CallTreeUtils.get_output_parameters"] = {0: LoopSpec(
        invariants=[
            ("done", "forall(lambda p: implies(0 <= p and p < _k and "
                     "MODIFIED(variables_info, at(_iter, p)), "
                     "inwrites(read_write_info, at(_iter, p))))"),
            ("monotone", "forall(lambda x: implies(old(inwrites("
                         "read_write_info, x)), inwrites(read_write_info, x))"
                         ", 'ref')"),
            ("iter", "_iter is SIGS(variables_info)"),
            ("reads", "unchanged('$readset')")],
        modifies=["$writeset"])}
    cs.append(c)
    cs.append(resolve_contract(uni))
    return cs


def resolve_contract(uni):
    """CallTreeUtils._resolve_calls_and_unknowns: the work-list loop over
    the non-local accesses found in the call tree (statement range from
    `done = set()` to the end of the while loop).  Work-list entries are
    records (type, module, signature, access info); the module manager, the
    module's container, its routines and symbol table are opaque objects
    (uninterpreted functions of their arguments, any of the refusals the
    code handles may happen)."""
    from pyvc.values import VTuple, VStr, STR
    from pyvc.state import fresh
    from pyvc.interp import PyRaise, VExc
    BOOL = z3.BoolSort()
    AL0 = z3.Const("H0_$alloc", z3.ArraySort(Ref, BOOL))
    P1 = z3.Function("info_type", Ref, STR)
    P2 = z3.Function("info_module", Ref, STR)
    P3 = z3.Function("info_signature", Ref, Ref)
    P4 = z3.Function("info_access", Ref, Ref)
    uni.records["NLInfo"] = [(P1, "str"), (P2, "str"), (P3, "SigX"),
                             (P4, "AccX")]
    sort_of_tag = {"str": STR, "ref": Ref, "int": z3.IntSort(),
                   "bool": BOOL}
    made = {}

    def tuple_encoder(it, tup):
        """a tuple as a value: TUP<sorts>(fields); the projections are
        axiomatised, so equal tuples are equal values and tuples that differ
        in a field differ; the arity is a field of the value as well"""
        vals = [it.to_z3(x) for x in tup.items]
        sorts = [v.sort() for v in vals]
        key = ",".join(str(x) for x in sorts)
        if key not in made:
            if len(vals) == 4 and [str(x) for x in sorts] == [
                    "String", "String", "Ref", "Ref"]:
                mk = z3.Function("mk_info", *sorts, Ref)
                projs = [P1, P2, P3, P4]
            else:
                mk = z3.Function(f"mk_tuple_{len(made)}", *sorts, Ref)
                projs = [z3.Function(f"proj_{len(made)}_{k}", Ref, so)
                         for k, so in enumerate(sorts)]
            xs = [z3.Const(f"tf{k}", so) for k, so in enumerate(sorts)]
            ar = z3.Function("tuple_arity", Ref, z3.IntSort())
            uni.axioms.append(z3.ForAll(xs, z3.And(
                mk(*xs) != NULLC, z3.Select(AL0, mk(*xs)),
                ar(mk(*xs)) == len(xs),
                *[pr(mk(*xs)) == x for pr, x in zip(projs, xs)]),
                patterns=[mk(*xs)]))
            made[key] = mk
        return made[key](*vals)
    uni.tuple_encoder = tuple_encoder

    IGN = z3.Function("ignored_modules", Ref, Ref)
    MI = z3.Function("module_info", Ref, STR, Ref)
    CNTR = z3.Function("container_of", Ref, Ref)
    RR = z3.Function("resolved_routines", Ref, STR, Ref)
    RP = z3.Function("routine_psyir", Ref, STR, Ref)
    TAB = z3.Function("table_of", Ref, Ref)
    SYM = z3.Function("looked_up", Ref, STR, Ref)
    CONST = z3.Function("is_constant_symbol", Ref, BOOL)
    W = z3.Function("acc_is_written", Ref, BOOL)
    WF = z3.Function("acc_is_written_first", Ref, BOOL)
    S0 = z3.Function("signature_first_name", Ref, STR)

    def nonnull(st, e):
        st.assume(z3.And(e != NULLC, z3.Select(AL0, e)))
        return e

    def h_ignores(it, selfv, args, kw, st, fr):
        return VRef(nonnull(st, IGN(selfv.e)), "set", "str")

    def h_modinfo(it, selfv, args, kw, st, fr):
        found = fresh("module_found", BOOL)
        if not it.dec.branch(st, found):
            raise PyRaise(VExc("FileNotFoundError"))
        return VRef(nonnull(st, MI(selfv.e, args[0].e)), "ModInfoX")

    def h_psyir(it, selfv, args, kw, st, fr):
        e = CNTR(selfv.e)
        st.assume(z3.Select(AL0, e))
        return VRef(e, "CntrX")

    def h_resolve(it, selfv, args, kw, st, fr):
        lst = VRef(nonnull(st, RR(selfv.e, args[0].e)), "list", "str")
        st.assume(st.read("$len", lst.e, "int") >= 0)
        # a list of names is not the work list of records
        work = fr.env.get("outstanding_nonlocals")
        if isinstance(work, VRef):
            st.assume(lst.e != work.e)
        return lst

    def h_routine(it, selfv, args, kw, st, fr):
        e = RP(selfv.e, args[0].e)
        st.assume(z3.Select(AL0, e))
        return VRef(e, "RoutineX")

    def h_table(it, selfv, args, kw, st, fr):
        return VRef(nonnull(st, TAB(selfv.e)), "TabX")

    def h_lookup(it, selfv, args, kw, st, fr):
        found = fresh("symbol_found", BOOL)
        if not it.dec.branch(st, found):
            raise PyRaise(VExc("KeyError"))
        return VRef(nonnull(st, SYM(selfv.e, args[0].e)), "SymX")

    def h_nonlocals(it, selfv, args, kw, st, fr):
        # an arbitrary new list of well-formed records
        lst = it.alloc(st, "list", "NLInfo", "nonlocals")
        n = fresh("n_nonlocals", z3.IntSort())
        arr = fresh("nonlocals", z3.ArraySort(z3.IntSort(), Ref))
        st.assume(n >= 0)
        q = z3.Int("qn")
        st.assume(z3.ForAll([q], z3.Implies(z3.And(0 <= q, q < n), z3.And(
            P3(arr[q]) != NULLC, P4(arr[q]) != NULLC,
            z3.Select(AL0, arr[q]), arr[q] != NULLC))))
        it.set_list(lst, st, arr, n)
        return lst
    uni.method_hooks.update({
        "ModMgrX.ignores": h_ignores,
        "ModMgrX.get_module_info": h_modinfo,
        "ModInfoX.get_psyir": h_psyir,
        "CntrX.resolve_routine": h_resolve,
        "CntrX.get_routine_psyir": h_routine,
        "TabX.lookup": h_lookup,
        "AccX.is_written": lambda it, selfv, a, k, st, fr: VBool(W(selfv.e)),
        "AccX.is_written_first": lambda it, selfv, a, k, st, fr: VBool(
            WF(selfv.e)),
        "SigX.__getitem__": lambda it, selfv, a, k, st, fr: VStr(
            S0(selfv.e)),
        "CallTreeUtils.get_non_local_symbols": h_nonlocals,
    })
    uni.prop_hooks.update({
        "CntrX.symbol_table": h_table,
        "SymX.is_constant": lambda it, selfv, a, k, st, fr: VBool(
            CONST(selfv.e)),
    })

    def field(k):
        def h(it, a, kw, st, fr):
            t = a[0]
            if isinstance(t, VTuple):
                return t.items[k]
            proj, tag = uni.records["NLInfo"][k]
            return it.mkval(proj(t.e), tag)
        return h
    uni.consts.update({
        "I_TYPE": VFunc("hook", fn=field(0)),
        "I_MOD": VFunc("hook", fn=field(1)),
        "I_SIG": VFunc("hook", fn=field(2)),
        "I_ACC": VFunc("hook", fn=field(3)),
        # the record as an object (for identity) and back
        "REF": VFunc("hook", fn=lambda it, a, k, st, fr: VRef(
            it.to_z3(a[0]), "Obj")),
        "IS_W": VFunc("hook", fn=lambda it, a, k, st, fr: VBool(W(a[0].e))),
        "IS_WF": VFunc("hook", fn=lambda it, a, k, st, fr: VBool(
            WF(a[0].e))),
        "IGNORED": VFunc("hook", fn=lambda it, a, k, st, fr: VBool(
            z3.Select(st.read("$set.str", IGN(a[0].e), "set[str]"),
                      a[1].e))),
        # (module, signature) is in the given set of pairs
        "HAS": VFunc("hook", fn=lambda it, a, k, st, fr: VBool(z3.Select(
            st.read("$set.ref", a[0].e, "set[ref]"),
            it.to_z3(VTuple([a[1], a[2]]))))),
        "INDONE": VFunc("hook", fn=lambda it, a, k, st, fr: VBool(z3.Select(
            st.read("$set.ref", a[0].e, "set[ref]"), a[1].e))),
    })
    uni.preds.update({
        # what the property needs of a plain variable access t found in the
        # call tree (module not ignored): written -> an output; its incoming
        # value possibly read -> an input
        "HANDLED": (["t"], """
            implies(I_TYPE(t) == 'reference' and
                    not IGNORED(mod_manager, I_MOD(t)),
                implies(IS_W(I_ACC(t)),
                        HAS(out_vars, I_MOD(t), I_SIG(t))) and
                implies(not IS_WF(I_ACC(t)),
                        HAS(in_vars, I_MOD(t), I_SIG(t))))
            """),
        "NLWF": (["l"], """
            l is not None and len(l) >= 0 and
            forall(lambda q: implies(0 <= q and q < len(l),
                REF(at(l, q)) is not None and I_SIG(at(l, q)) is not None
                and I_ACC(at(l, q)) is not None))
            """),
    })
    c = Contract(
        f"{CT}:CallTreeUtils._resolve_calls_and_unknowns",
        params={"self": "CallTreeUtils",
                "outstanding_nonlocals": "list[NLInfo]",
                "read_write_info": "ReadWriteInfo"},
        ghost={"mod_manager": "ModMgrX"},
        requires=[("worklist", "NLWF(outstanding_nonlocals) and "
                               "mod_manager is not None")],
        ensures=[
            ("every_variable_access_of_the_call_tree_is_recorded",
             "forall(lambda q: implies(0 <= q and "
             "q < old(len(outstanding_nonlocals)), "
             "HANDLED(old(at(outstanding_nonlocals, q)))))"),
        ],
        raises={}, modifies=["$len", "$items.ref", "$set.ref", "$card"],
        covers=[("records_one", "exists(lambda q: 0 <= q and "
                 "q < old(len(outstanding_nonlocals)) and "
                 "I_TYPE(old(at(outstanding_nonlocals, q))) == 'reference' "
                 "and IS_W(I_ACC(old(at(outstanding_nonlocals, q)))) and "
                 "not IGNORED(mod_manager, "
                 "I_MOD(old(at(outstanding_nonlocals, q)))))")])
    c.stmt_range = ("done = set()", "for module_name, signature in in_vars")
    c.range_frame = ()
    uni.contracts["CallTreeUtils._resolve_calls_and_unknowns:top"] = c
    import ast
    from pyvc.stmts import loop_ordinals
    fn, _ = uni.repo.function(c.func)
    ords = loop_ordinals(fn)
    whiles = [n for n in ast.walk(fn) if isinstance(n, ast.While)]
    WL = ords[id(whiles[0])]
    MAIN = ("forall(lambda q: implies(0 <= q and "
            "q < old(len(outstanding_nonlocals)), "
            "(q < {L} and REF(at(outstanding_nonlocals, q)) is "
            "old(REF(at(outstanding_nonlocals, q)))) or "
            "HANDLED(old(at(outstanding_nonlocals, q)))))")
    DONE_OK = ("forall(lambda x: implies(INDONE(done, x), HANDLED(x)), "
               "'NLInfo')")
    SETS = ("done is not None and in_vars is not None and "
            "out_vars is not None and done is not in_vars and "
            "done is not out_vars and in_vars is not out_vars")
    uni.loopspecs["CallTreeUtils._resolve_calls_and_unknowns"] = {
        WL: LoopSpec(invariants=[
            ("worklist", "NLWF(outstanding_nonlocals)"),
            ("sets", SETS),
            ("main", MAIN.format(L="len(outstanding_nonlocals)")),
            ("done_ok", DONE_OK)],
            modifies=["$len", "$items.ref", "$set.ref", "$card"]),
        WL + 1: LoopSpec(invariants=[
            ("worklist", "NLWF(outstanding_nonlocals)"),
            ("prefix", "len(outstanding_nonlocals) >= "
                       "entry(len(outstanding_nonlocals)) and "
                       "forall(lambda q: implies(0 <= q and "
                       "q < entry(len(outstanding_nonlocals)), "
                       "REF(at(outstanding_nonlocals, q)) is "
                       "entry(REF(at(outstanding_nonlocals, q)))))"),
            ("names", "_iter is not None and "
                      "_iter is not outstanding_nonlocals and "
                      "len(_iter) == entry(len(_iter))")],
            modifies=["$len", "$items.ref"]),
    }
    uni.local_types["CallTreeUtils._resolve_calls_and_unknowns"] = {
        "done": "set[Obj]", "in_vars": "set[Obj]", "out_vars": "set[Obj]"}
    uni.note_assumption(
        "_resolve_calls_and_unknowns: verified on the statement range from "
        "`done = set()` to the end of the work-list loop; ModuleManager, "
        "ModuleInfo, the module's Container (resolve_routine, "
        "get_routine_psyir, symbol_table.lookup, is_constant), "
        "get_non_local_symbols (returns an arbitrary new list of records), "
        "Signature[0]/str and SingleVariableAccessInfo.is_written / "
        "is_written_first are uninterpreted; get_module_info and lookup may "
        "fail; module names are strings (the None case of an unknown "
        "routine's module is not modelled); tuples are values (constructor "
        "with axiomatised projections and arity)")
    return c


TRUSTED = [
    "pyvc VC generator and z3",
    "the abstract access view (C11 link assumed); accessor hooks",
    "NOT under contract: get_non_local_symbols / "
    "get_non_local_read_write_info (which records the call tree yields), "
    "the two final loops of _resolve_calls_and_unknowns that copy the sets "
    "into the ReadWriteInfo, the module manager and everything it parses, "
    "termination of the work-list loop, ExtractNode / ExtractTrans plumbing",
]
EXPLANATION = (
    "For every list of signatures and every access sequence per signature "
    "(any access types, any whole/partial and conditional/unconditional "
    "ghost attributes): get_input_parameters records every variable whose "
    "incoming value can be read (a read not preceded by an unconditional "
    "whole-variable write) -- outside the recorded known class 'first "
    "access is a partial or conditional write' -- and get_output_parameters "
    "records every variable with a writing access; neither removes entries "
    "nor touches the other list.  For every work list of non-local accesses "
    "(and whatever the call tree adds to it), the work-list loop of "
    "_resolve_calls_and_unknowns puts every plain variable access whose "
    "module is not ignored among the outputs if it is written and among the "
    "inputs unless it is written first.")


def replay(name, ob, model, uni):
    from realise import C12 as R
    if "_resolve_calls_and_unknowns" in name:
        return R.run_resolve()
    # inputs of the recorded known class only count for its own obligation
    if name.endswith("done_strict") or name.endswith(":inputs_complete"):
        return R.run()
    return R.run("other")


def replay_known(k, uni):
    from realise import C12 as R
    kid = k.get("id", "")
    if kid == "partial-first-write":
        return R.partial_first_write()
    if kid.startswith("replay-"):
        from realise import extract_model as E
        return E.run_case(kid[len("replay-"):])[0] == "differs"
    return None


def extra(uni, tier, seed):
    """BOUNDED stand-in (never counted as proved): for seven regions the
    real CallTreeUtils reports inputs and outputs; the region is executed
    on the full state and on a state in which only the reported inputs are
    defined (realise/extract_model.py): every reported output must agree
    and every modified variable must be a reported output"""
    from pyvc.runner import Extra
    from realise import extract_model as E
    out, n_ok = [], 0
    for cid, verdict, detail, src in E.cases():
        if verdict == "differs":
            out.append(Extra(
                f"bounded#replay-from-inputs[{cid}]", False, detail[:300],
                bounded=True, kind="bounded run-time contract: region "
                "replayed from the reported inputs",
                replay={"confirmed": True, "case": cid,
                        "input": {"source": src}, "observed": detail}))
        else:
            n_ok += 1
    out.append(Extra("bounded#replay-from-inputs", True,
                     f"{n_ok} regions reproduce their outputs from the "
                     "reported inputs", kind="bounded run-time contract: 7 "
                     "regions on the serial evaluator", count=n_ok,
                     bounded=True))
    out += access_chain(uni)
    return out


def access_chain(uni):
    """the inputs and outputs are computed from the accesses that
    Assignment.reference_accesses collects (with the caller's options): that
    contract (of C11) is part of the chain; its VCs are generated from the
    current source and discharged here as well"""
    import hashlib
    from pyvc.runner import Extra
    from pyvc.extract import Repo
    from pyvc.interp import Universe
    from pyvc.verify import verify_function
    from pyvc.smt import _solve
    from contracts import C11
    u2 = Universe(Repo())
    u2.kf_classes = {}
    c = [c for c in C11.build(u2)
         if c.name.endswith("Assignment.reference_accesses")][0]
    rep = verify_function(u2, c)
    out, n_ok = [], 0
    for ob in rep.obligations:
        text = ob.smt2()
        _, r, _, _ = _solve((hashlib.sha256(text.encode()).hexdigest(),
                             text, 20000, True))
        if r == "unsat":
            n_ok += 1
            continue
        try:
            rp = C11.replay(ob.name, ob, None, u2) or {"confirmed": False}
        except Exception as err:       # noqa
            rp = {"confirmed": False, "replay_error": repr(err)}
        rp.update({"obligation": ob.name, "solver": r})
        out.append(Extra(
            f"C11:{ob.name}", False, f"solver: {r}",
            kind="VC of Assignment.reference_accesses (contract of C11)",
            undecided=(r != "sat" and not rp.get("confirmed")), replay=rp))
    for k, v in u2.repo.used.items():
        uni.repo.used[k] = v
    out.append(Extra(
        "C11:Assignment.reference_accesses#all",
        bool(out) or (n_ok > 0 and not rep.unsupported),
        f"{n_ok} obligations discharged",
        kind="VCs of the Assignment.reference_accesses contract (shared "
             "with C11)", count=n_ok, undecided=bool(rep.unsupported)))
    return out


def bounded(uni, tier, seed):
    """fallback when an obligation is undecided: the work lists of
    realise/C12.resolve_cases on the real function, then the regions"""
    from realise import C12 as R
    rp = R.run_resolve()
    if rp.get("confirmed"):
        return rp
    return R.run("other")
