#!/usr/bin/env python
"""Position-by-position call/stub oracle for C21, used by realise/C21.py.
Written by an independent sub-agent from the text of property C21 only (it
is seeded/C21b/demo.py, unchanged apart from this paragraph).

Demo for seeded defect 2 (property C21).

Property: for every valid LFRic kernel metadata, the argument list that
PSyclone passes when calling the kernel from the generated PSy layer agrees
position by position (count, intrinsic type, kind, rank, intent) with the
kernel stub produced by the kernel-stub generator for the same metadata, and
both follow the documented argument-ordering rules
(doc/user_guide/dynamo0p3.rst, "Rules for General-Purpose Kernels").

This script writes a kernel (metadata only) that requires the 'adjacent_face'
mesh property together with a property of the reference element and an
algorithm that invokes it, runs the real PSyclone code generation
(psyclone.generator.generate) and the real stub generator
(psyclone.gen_kernel_stub.generate), parses the generated Fortran and checks

 (a) call and stub agree position by position (count/type/kind/rank/intent),
 (b) the stub is a valid interface (no dummy argument appears twice),
 (c) both follow the documented rules 1-6: in particular rule 6.1 - the
     number of horizontal faces (nfaces_re_h) is supplied for adjacent_face
     ONLY "if it is not already being passed to the kernel due to rule 5".

exit 0: property holds on these inputs; exit 1: property violated.
"""

import os
import re
import sys
import tempfile

from psyclone.generator import generate
from psyclone.gen_kernel_stub import generate as gen_stub



def split_top(text, sep=","):
    '''Split text at top-level occurrences of sep (ignoring parentheses).'''
    parts, depth, cur = [], 0, ""
    for char in text:
        if char == "(":
            depth += 1
        elif char == ")":
            depth -= 1
        if char == sep and depth == 0:
            parts.append(cur.strip())
            cur = ""
        else:
            cur += char
    if cur.strip():
        parts.append(cur.strip())
    return parts


def balanced(text, start):
    '''text[start] == "(": return index just after the matching ")".'''
    depth = 0
    for idx in range(start, len(text)):
        if text[idx] == "(":
            depth += 1
        elif text[idx] == ")":
            depth -= 1
            if depth == 0:
                return idx + 1
    raise ValueError("unbalanced: " + text)


DECL_START = re.compile(r"^\s*(integer|real|logical|type|class)\b", re.I)


def parse_decl(line):
    '''Parse one Fortran declaration line. Returns a dict
    name -> (type, kind, rank, intent) or None if not a declaration.'''
    match = DECL_START.match(line)
    if not match:
        return None
    base = match.group(1).lower()
    rest = line[match.end():].strip()
    kind = None
    if rest.startswith("("):
        end = balanced(rest, 0)
        spec = rest[1:end-1].strip()
        rest = rest[end:].strip()
        if base in ("type", "class"):
            kind = spec.lower()
        else:
            kind = spec.lower().replace(" ", "")
            if kind.startswith("kind="):
                kind = kind[5:]
    if "::" in rest:
        attr_txt, ent_txt = rest.split("::", 1)
    else:
        attr_txt, ent_txt = "", rest
    rank_attr = 0
    intent = None
    for attr in split_top(attr_txt):
        low = attr.lower().replace(" ", "")
        if low.startswith("dimension("):
            rank_attr = len(split_top(low[len("dimension("):-1]))
        elif low.startswith("intent("):
            intent = low[len("intent("):-1]
    result = {}
    for ent in split_top(ent_txt):
        ent = ent.split("=")[0].strip()    # drops '=> null()' and '= value'
        mname = re.match(r"^(\w+)\s*(\(.*\))?$", ent)
        if not mname:
            return None
        rank = rank_attr
        if mname.group(2):
            rank = len(split_top(mname.group(2)[1:-1]))
        result[mname.group(1).lower()] = (base, kind, rank, intent)
    return result


def routine_text(source, name):
    '''Return the lines of subroutine "name" in source.'''
    lines = source.splitlines()
    out, inside = [], False
    for line in lines:
        low = line.strip().lower()
        if re.match(r"subroutine\s+" + re.escape(name.lower()) + r"\b", low):
            inside = True
        if inside:
            out.append(line)
        if inside and re.match(r"end\s+subroutine\b", low):
            break
    return out


def declarations(lines):
    '''Collect all declarations in the given routine lines.'''
    table = {}
    for line in lines:
        if line.strip().startswith("!"):
            continue
        decl = parse_decl(line)
        if decl:
            for key, val in decl.items():
                table.setdefault(key, val)
    return table


def stub_signature(stub_src):
    '''Returns (routine name, [(dummy name, type, kind, rank, intent)]).'''
    match = re.search(r"^\s*subroutine\s+(\w+)\s*\((.*)\)\s*$", stub_src,
                      re.I | re.M)
    name = match.group(1)
    dummies = [arg.strip().lower() for arg in split_top(match.group(2))]
    table = declarations(routine_text(stub_src, name))
    sig = []
    for dummy in dummies:
        sig.append((dummy,) + table.get(dummy, ("UNDECLARED", None, None,
                                                None)))
    return name, sig


LITERALS = [
    (re.compile(r"^[-+]?\d+(_(\w+))?$"), "integer"),
    (re.compile(r"^[-+]?(\d+\.\d*|\.\d+|\d+)([ed][-+]?\d+)?(_(\w+))?$",
                re.I), "real"),
    (re.compile(r"^\.(true|false)\.(_(\w+))?$", re.I), "logical"),
]


def actual_type(expr, table):
    '''Work out (type, kind, rank, definable) of an actual-argument
    expression using the declarations of the calling routine.'''
    expr = expr.strip()
    for regex, typ in LITERALS:
        match = regex.match(expr)
        if match:
            kind = match.groups()[-1]
            return (typ, kind.lower() if kind else None, 0, False)
    # Structure access (e.g. op_proxy%ncell_3d): only the integer scalar
    # ncell_3d component is ever passed directly to a kernel.
    parts = split_top(expr, "%")
    if len(parts) > 1:
        if parts[-1].lower() == "ncell_3d":
            return ("integer", "i_def", 0, False)
        return ("UNKNOWN-MEMBER", None, None, False)
    match = re.match(r"^(\w+)\s*(\(.*\))?$", expr)
    if not match:
        return ("UNPARSED", None, None, False)
    name = match.group(1).lower()
    if name not in table:
        return ("UNDECLARED", None, None, False)
    typ, kind, rank, intent = table[name]
    if match.group(2):
        idx = split_top(match.group(2)[1:-1])
        # Rank of an array section = number of subscript triplets
        rank = sum(1 for item in idx
                   if re.match(r"^[^()]*:", item) or item.strip() == ":")
    return (typ, kind, rank, intent != "in")


def kernel_calls(psy_src, kern_name):
    '''Yield (invoke name, [actual arg expr]) for each call of kern_name
    in the PSy layer source.'''
    current = None
    for line in psy_src.splitlines():
        msub = re.match(r"^\s*subroutine\s+(\w+)", line, re.I)
        if msub:
            current = msub.group(1)
        mcall = re.match(r"^\s*call\s+" + re.escape(kern_name) +
                         r"\s*\((.*)\)\s*$", line, re.I)
        if mcall:
            yield current, split_top(mcall.group(1))


def compare(psy_src, stub_src, verbose=True):
    '''Compare every call to the stubbed kernel in psy_src with the stub
    interface. Returns a list of human-readable mismatch descriptions
    (empty if the property holds).'''
    kern_name, sig = stub_signature(stub_src)
    problems = []
    ncalls = 0
    for invoke, actuals in kernel_calls(psy_src, kern_name):
        ncalls += 1
        table = declarations(routine_text(psy_src, invoke))
        if verbose:
            print(f"--- {invoke}: call {kern_name} with {len(actuals)} "
                  f"actual args; stub has {len(sig)} dummy args")
        if len(actuals) != len(sig):
            problems.append(
                f"{invoke}: COUNT mismatch: call passes {len(actuals)} "
                f"arguments, stub expects {len(sig)}")
        for pos, (actual, dummy) in enumerate(zip(actuals, sig), 1):
            atype, akind, arank, adefinable = actual_type(actual, table)
            dname, dtype, dkind, drank, dintent = dummy
            line = (f"  {pos:2d}: actual {actual:<34s} "
                    f"{atype}({akind}) rank {arank} | dummy {dname:<30s} "
                    f"{dtype}({dkind}) rank {drank} intent({dintent})")
            bad = []
            if atype != dtype:
                bad.append("TYPE")
            if akind != dkind:
                bad.append("KIND")
            if arank != drank:
                bad.append("RANK")
            if dintent is None:
                bad.append("NO-INTENT")
            elif dintent in ("out", "inout") and not adefinable:
                bad.append("INTENT")
            if bad:
                line += "   <<< " + ",".join(bad) + " MISMATCH"
                problems.append(f"{invoke}: position {pos}: "
                                f"{'/'.join(bad)} mismatch: actual "
                                f"'{actual}' is {atype}({akind}) rank "
                                f"{arank}, dummy '{dname}' is "
                                f"{dtype}({dkind}) rank {drank} "
                                f"intent({dintent})")
            if verbose:
                print(line)
    if ncalls == 0:
        problems.append(f"no call to {kern_name} found in PSy layer")
    return problems


KERN = """
module {name}_mod
  use argument_mod
  use fs_continuity_mod
  use kernel_mod
  use constants_mod
  implicit none
  type, extends(kernel_type) :: {name}_type
{meta}
     integer :: operates_on = cell_column
   contains
     procedure, nopass :: code => {name}_code
  end type {name}_type
contains
  subroutine {name}_code()
  end subroutine {name}_code
end module {name}_mod
"""

ALG = """
module alg_mod
  implicit none
contains
  subroutine alg_sub()
    use constants_mod, only: r_def, i_def
    use field_mod, only: field_type
    use quadrature_xyoz_mod, only: quadrature_xyoz_type
    use quadrature_face_mod, only: quadrature_face_type
    use quadrature_edge_mod, only: quadrature_edge_type
    use {name}_mod, only: {name}_type
{decls}
    call invoke({name}_type({args}))
  end subroutine alg_sub
end module alg_mod
"""


def psy_and_stub(name, meta, decls, args):
    '''Write the kernel and algorithm to a temporary directory and return
    the generated PSy-layer source and kernel-stub source (both str).'''
    tmp = tempfile.mkdtemp(prefix="c21_demo_")
    kfile = os.path.join(tmp, name + "_mod.f90")
    with open(kfile, "w", encoding="utf-8") as fout:
        fout.write(KERN.format(name=name, meta=meta))
    afile = os.path.join(tmp, "alg.f90")
    with open(afile, "w", encoding="utf-8") as fout:
        fout.write(ALG.format(name=name, decls=decls, args=args))
    _, psy = generate(afile, api="lfric", kernel_paths=[tmp])
    stub = gen_stub(kfile, api="lfric")
    return str(psy), str(stub)


META = """
     type(arg_type), dimension(2) :: meta_args =    &
          (/ arg_type(gh_scalar, gh_real, gh_read), &
             arg_type(gh_field,  gh_real, gh_inc,  w1) /)
     type(mesh_data_type), dimension(1) :: meta_mesh = &
          (/ mesh_data_type(adjacent_face) /)
     type(reference_element_data_type), dimension(1) :: &
          meta_reference_element =                      &
          (/ reference_element_data_type({0}) /)
"""

DECLS = """    type(field_type) :: f1
    real(r_def) :: a"""

# The argument sequence required by the documented rules for the metadata
# above (doc/user_guide/dynamo0p3.rst, "Rules for General-Purpose Kernels").
# Entries are (description, type, kind, rank, intent). A type/kind of None
# means "not checked": the user guide says that the face-normal arrays are
# integer(i_def) while the LFRic infrastructure (and PSyclone, consistently
# in both PSy layer and stub) use real(r_def) - only the rank is checked.
EXPECTED = [
    ("rule 2: nlayers", "integer", "i_def", 0, "in"),
    ("rule 3.1: real scalar (gh_read)", "real", "r_def", 0, "in"),
    ("rule 3.2: field on w1 (gh_inc)", "real", "r_def", 1, "inout"),
    ("rule 4.1: ndf_w1", "integer", "i_def", 0, "in"),
    ("rule 4.2.1: undf_w1", "integer", "i_def", 0, "in"),
    ("rule 4.2.2: dofmap for w1", "integer", "i_def", 1, "in"),
    ("rule 5: nfaces_re_h (horizontal-face normals requested)",
     "integer", "i_def", 0, "in"),
    ("rule 5.1/5.2: (3,nfaces_re_h) array of face normals",
     None, None, 2, "in"),
    # rule 6.1: nfaces_re_h is NOT passed again as rule 5 has supplied it.
    ("rule 6.2: adjacent_face(nfaces_re_h)", "integer", "i_def", 1, "in"),
]


def check_against_rules(psy, stub):
    '''Check that both the kernel call in the PSy layer and the stub
    follow the documented argument sequence EXPECTED.'''
    problems = []
    kern_name, sig = stub_signature(stub)
    # (b) a valid interface cannot have the same dummy argument twice
    names = [entry[0] for entry in sig]
    for name in sorted(set(names)):
        if names.count(name) > 1:
            problems.append(f"stub: dummy argument '{name}' appears "
                            f"{names.count(name)} times in the argument "
                            f"list of {kern_name}")
    # (c) stub versus documented rules
    if len(sig) != len(EXPECTED):
        problems.append(f"stub: has {len(sig)} dummy arguments but the "
                        f"documented rules require {len(EXPECTED)}")
    for pos, (dummy, exp) in enumerate(zip(sig, EXPECTED), 1):
        dname, dtype, dkind, drank, dintent = dummy
        desc, etype, ekind, erank, eintent = exp
        if ((etype and (dtype, dkind) != (etype, ekind)) or drank != erank
                or dintent != eintent):
            problems.append(
                f"stub: position {pos} should be [{desc}] i.e. "
                f"{etype}({ekind}) rank {erank} intent({eintent}) but "
                f"dummy '{dname}' is {dtype}({dkind}) rank {drank} "
                f"intent({dintent})")
    # (c) call versus documented rules
    for invoke, actuals in kernel_calls(psy, kern_name):
        table = declarations(routine_text(psy, invoke))
        if len(actuals) != len(EXPECTED):
            problems.append(f"call in {invoke}: passes {len(actuals)} "
                            f"arguments but the documented rules require "
                            f"{len(EXPECTED)}")
        for pos, (actual, exp) in enumerate(zip(actuals, EXPECTED), 1):
            atype, akind, arank, _ = actual_type(actual, table)
            desc, etype, ekind, erank, _ = exp
            if (etype and (atype, akind) != (etype, ekind)) or arank != erank:
                problems.append(
                    f"call in {invoke}: position {pos} should be [{desc}] "
                    f"i.e. {etype}({ekind}) rank {erank} but actual "
                    f"'{actual}' is {atype}({akind}) rank {arank}")
    return problems


def main():
    '''Check the property for kernels needing adjacent_face plus one
    horizontal-face property of the reference element.'''
    failures = 0
    for prop in ["normals_to_horizontal_faces",           # commonly used
                 "outward_normals_to_horizontal_faces"]:  # unusual on its own
        print(f"=== meta_mesh = adjacent_face, meta_reference_element = "
              f"{prop}")
        psy, stub = psy_and_stub("mesh_kern", META.format(prop), DECLS,
                                 "a, f1")
        # (a) call versus stub, position by position
        problems = compare(psy, stub, verbose=True)
        # (b) + (c) validity of the interface and the documented rules
        problems += check_against_rules(psy, stub)
        for problem in problems:
            print("VIOLATION:", problem)
        if problems:
            failures += 1
    if failures:
        print(f"\nProperty C21 VIOLATED for {failures} metadata "
              f"combination(s).")
        return 1
    print("\nProperty C21 holds on all tested metadata combinations.")
    return 0


if __name__ == "__main__":
    sys.exit(main())
