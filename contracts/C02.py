"""C02 — written expressions keep the operation order of the PSyIR tree.

Contracts on the real bodies of FortranWriter.binaryoperation_node and
unaryoperation_node (with `precedence` and `get_operator` used through the
tables they really compute), for EVERY operator of the node, every kind /
operator of the parent, either child position, every grandparent -- all
symbolic.  The postcondition comes from the Fortran 2008 expression grammar
(R702-R722): an operand must be parenthesised when the loosest operator it
exposes binds less tightly than the position demands.
"""
import z3
from pyvc.interp import Contract
from pyvc.values import (VRef, VFunc, VBool, VStr, VInt, VEnum, NONE, Ref,
                         STR, EnumDesc, VExc)
from pyvc.state import fresh, PyRaise, Unsupported
from pyvc.common import TYPE_OF

ID = "C02"
LEVEL = "proof"
FW = "psyir/backend/fortran.py"
NULLC = z3.Const("null", Ref)

# ---- the standard (hand-transcribed, F2008 7.1.2.x) ------------------------
# level of the loosest operator exposed by an unparenthesised operation
LEVEL_B = {"EQV": 1, "NEQV": 1, "OR": 2, "AND": 3,
           "EQ": 5, "NE": 5, "GT": 5, "LT": 5, "GE": 5, "LE": 5,
           "ADD": 7, "SUB": 7, "MUL": 8, "DIV": 8, "POW": 9}
LEVEL_U = {"NOT": 4, "MINUS": 7, "PLUS": 7}
REL = ("EQ", "NE", "GT", "LT", "GE", "LE")


def need_left(op):
    """minimum level of the left operand of binary `op`"""
    if op in REL:
        return 6            # level-3 expr on both sides, not associative
    if op == "POW":
        return 10           # level-1 (primary): ** is right associative
    return LEVEL_B[op]      # left-associative: the same non-terminal


def need_right(op):
    if op in REL:
        return 6
    if op == "POW":
        return 9            # mult-operand: a ** b ** c groups to the right
    return LEVEL_B[op] + 1  # the next tighter non-terminal


NEED_U = {"NOT": 5, "MINUS": 8, "PLUS": 8}   # level-4 / add-operand


def real_tables():
    """the tables the real writer computes (closed code: executed)"""
    from psyclone.psyir.backend.fortran import FortranWriter, precedence
    from psyclone.psyir.nodes import BinaryOperation, UnaryOperation
    w = FortranWriter()
    bmap, umap, prec = {}, {}, {}
    for m in BinaryOperation.Operator:
        try:
            bmap[m.name] = w.get_operator(m)
        except KeyError:
            pass
    for m in UnaryOperation.Operator:
        try:
            umap[m.name] = w.get_operator(m)
        except KeyError:
            pass
    for s in set(bmap.values()) | set(umap.values()):
        try:
            prec[s] = precedence(s)
        except KeyError:
            pass
    return ([m.name for m in BinaryOperation.Operator],
            [m.name for m in UnaryOperation.Operator], bmap, umap, prec)


def build(uni):
    uni.exact_fstrings = True
    BN, UN, bmap, umap, prec = real_tables()
    bdesc, udesc = EnumDesc("BinOp", BN), EnumDesc("UnOp", UN)
    uni.enums["BinOp"], uni.enums["UnOp"] = bdesc, udesc
    uni.fields.update({
        "_parent": "Operation", "_children": "list[Operation]",
        "_operator_b": "enum:BinOp", "_operator_u": "enum:UnOp",
    })
    uni.note_assumption(
        "closed code executed, not symbolically run: FortranWriter.__init__ "
        "(reverse operator map) and precedence() are evaluated on every "
        "operator and their results used as tables "
        f"(operators: {bmap} {umap}; precedence: {prec})")
    VISIT = z3.Function("visit_text", Ref, STR)

    def is_cls(ref, cname):
        return z3.And(ref != NULLC, uni.isinstance_expr(ref, cname))

    def h_visit(it, selfv, args, kw, st, fr):
        t = VISIT(args[0].e)
        # tagging assumption: operand texts are opaque and are taken not to
        # begin with '(' so that "this node added parentheses" is visible
        st.assume(z3.Not(z3.PrefixOf(z3.StringVal("("), t)))
        return VStr(t)

    def h_operator(it, selfv, args, kw, st, fr):
        if it.dec.branch(st, uni.isinstance_expr(selfv.e, "UnaryOperation")):
            e = st.read("_operator_u", selfv.e, "int")
            st.assume(z3.And(0 <= e, e < len(UN)))
            return VEnum(udesc, e)
        e = st.read("_operator_b", selfv.e, "int")
        st.assume(z3.And(0 <= e, e < len(BN)))
        return VEnum(bdesc, e)

    def h_get_operator(it, selfv, args, kw, st, fr):
        op = args[0]
        names, table = (BN, bmap) if op.enum.name == "BinOp" else (UN, umap)
        known = z3.Or([op.e == names.index(n) for n in table])
        if not it.dec.branch(st, known):
            raise PyRaise(VExc("KeyError"))
        r = z3.StringVal("?")
        for n, s in table.items():
            r = z3.If(op.e == names.index(n), z3.StringVal(s), r)
        return VStr(r)

    def h_precedence(it, selfv, args, kw, st, fr):
        s = args[0].e
        known = z3.Or([s == z3.StringVal(k) for k in prec])
        if not it.dec.branch(st, known):
            raise PyRaise(VExc("KeyError"))
        r = z3.IntVal(-1)
        for k, v in prec.items():
            r = z3.If(s == z3.StringVal(k), z3.IntVal(v), r)
        return VInt(r)

    def field_hook(attr):
        def h(it, selfv, args, kw, st, fr):
            return it.getattr(VRef(selfv.e, "Obj"), attr, st, fr)
        return h
    uni.method_hooks.update({
        "PSyIRVisitor._visit": h_visit,
        "Operation.operator": h_operator,
        "FortranWriter.get_operator": h_get_operator,
        "precedence": h_precedence,
        "Node.children": field_hook("_children"),
        "Node.parent": field_hook("_parent"),
    })
    uni.note_assumption(
        "assumed models (engine hooks): Node.children / Node.parent / "
        "Operation.operator return the stored attributes; _visit(child) is "
        "an opaque text that does not start with '(' (tagging assumption); "
        "fparser2 implements the standard grammar; array/structure "
        "accesses, intrinsic calls and non-negative literals are primaries")

    # ---- spec as z3 terms over the entry state ---------------------------
    def chain(idx, names, fn, default=0):
        """If-chain over the members `names` of the enum of idx"""
        full = BN if names and names[0] in BN else UN
        r = z3.IntVal(default)
        for n in names:
            r = z3.If(idx == full.index(n), z3.IntVal(fn(n)), r)
        return r

    def spec_need(it, st, node):
        """level the position of `node` demands (0 = none)"""
        parent = st.read("_parent", node, "ref")
        ch = st.read("_children", parent, "ref")
        items = st.read("$items.ref", ch, "arr[ref]")
        pu = st.read("_operator_u", parent, "int")
        pb = st.read("_operator_b", parent, "int")
        left = z3.Select(items, 0) == node
        known_b = [n for n in BN if n in LEVEL_B]
        need_b = z3.If(left, chain(pb, known_b, need_left),
                       chain(pb, known_b, need_right))
        return z3.If(is_cls(parent, "UnaryOperation"),
                     chain(pu, UN, lambda n: NEED_U[n]),
                     z3.If(is_cls(parent, "BinaryOperation"), need_b, 0))

    def h_needs_paren(it, a, k, st, fr):
        node = a[0].e
        lvl = z3.If(uni.isinstance_expr(node, "UnaryOperation"),
                    chain(st.read("_operator_u", node, "int"), UN,
                          lambda n: LEVEL_U[n], 10),
                    chain(st.read("_operator_b", node, "int"),
                          [n for n in BN if n in LEVEL_B],
                          lambda n: LEVEL_B[n], 10))
        return VBool(lvl < spec_need(it, st, node))
    uni.consts["needs_paren"] = VFunc("hook", fn=h_needs_paren)
    uni.consts["has_paren"] = VFunc("hook", fn=lambda it, a, k, st, fr: VBool(
        z3.PrefixOf(z3.StringVal("("), a[0].e)))

    def opis(kind, names):
        def h(it, a, k, st, fr):
            idx = st.read("_operator_" + kind, a[0].e, "int")
            lst = BN if kind == "b" else UN
            return VBool(z3.Or([idx == lst.index(n) for n in names]))
        return h
    uni.consts["is_pow"] = VFunc("hook", fn=opis("b", ["POW"]))
    uni.consts["is_rel"] = VFunc("hook", fn=opis("b", list(REL)))
    uni.consts["is_muldiv"] = VFunc("hook", fn=opis("b", ["MUL", "DIV"]))
    uni.consts["is_arith"] = VFunc("hook", fn=opis(
        "b", ["ADD", "SUB", "MUL", "DIV", "POW"] + list(REL)))
    uni.consts["is_sign"] = VFunc("hook", fn=opis("u", ["MINUS", "PLUS"]))
    uni.consts["is_plus"] = VFunc("hook", fn=opis("u", ["PLUS"]))
    uni.consts["is_not"] = VFunc("hook", fn=opis("u", ["NOT"]))
    uni.consts["mapped"] = VFunc("hook", fn=lambda it, a, k, st, fr: VBool(
        z3.If(uni.isinstance_expr(a[0].e, "UnaryOperation"),
              z3.Or([st.read("_operator_u", a[0].e, "int") == UN.index(n)
                     for n in umap]),
              z3.Or([st.read("_operator_b", a[0].e, "int") == BN.index(n)
                     for n in bmap]))))
    uni.preds.update({
        # the node sits in a well-formed tree (C14): listed once by its
        # parent, which has the arity of its class
        "WFPOS": (["n"], """
            n._children is not None and
            implies(n._parent is not None,
                n._parent._children is not None and
                implies(isinstance(n._parent, UnaryOperation),
                    len(n._parent._children) == 1 and
                    at(n._parent._children, 0) is n) and
                implies(isinstance(n._parent, BinaryOperation),
                    len(n._parent._children) == 2 and
                    (at(n._parent._children, 0) is n) !=
                    (at(n._parent._children, 1) is n)) and
                implies(n._parent._parent is not None and
                        isinstance(n._parent._parent, BinaryOperation),
                    n._parent._parent._children is not None and
                    len(n._parent._parent._children) == 2))
            """),
        "LEFT_OF_BIN": (["n"], "n._parent is not None and "
                        "isinstance(n._parent, BinaryOperation) and "
                        "at(n._parent._children, 0) is n"),
        # known classes (recorded findings), each with its own obligation
        "K_POW_LEFT": (["n"], "is_pow(n) and LEFT_OF_BIN(n) and "
                              "is_pow(n._parent)"),
        "K_REL_LEFT": (["n"], "is_rel(n) and LEFT_OF_BIN(n) and "
                              "is_rel(n._parent)"),
        "K_SIGN_LEFT_MUL": (["n"], "is_sign(n) and LEFT_OF_BIN(n) and "
                                   "is_muldiv(n._parent)"),
        "K_PLUS_LEFT_POW": (["n"], "is_plus(n) and LEFT_OF_BIN(n) and "
                                   "is_pow(n._parent)"),
        "K_NOT_LEFT_ARITH": (["n"], "is_not(n) and LEFT_OF_BIN(n) and "
                                    "is_arith(n._parent)"),
    })
    cs = []
    c = Contract(
        f"{FW}:FortranWriter.binaryoperation_node",
        params={"self": "FortranWriter", "node": "BinaryOperation"},
        requires=[("node", "isinstance(node, BinaryOperation) and "
                           "len(node._children) == 2 and WFPOS(node)")],
        returns="str",
        ensures=[
            ("paren_when_grammar_demands",
             "implies(needs_paren(node) and not K_POW_LEFT(node) and "
             "not K_REL_LEFT(node), has_paren(result))"),
            ("pow_is_right_associative",
             "implies(K_POW_LEFT(node), has_paren(result))"),
            ("relational_not_associative",
             "implies(K_REL_LEFT(node), has_paren(result))"),
        ],
        raises={"VisitorError": "not mapped(node) or "
                "(node._parent is not None and "
                "isinstance(node._parent, Operation) and "
                "not mapped(node._parent))"},
        modifies=[],
        covers=[("paren", "has_paren(result)"),
                ("noparen", "not has_paren(result)")])
    uni.contracts["FortranWriter.binaryoperation_node"] = c
    cs.append(c)
    c = Contract(
        f"{FW}:FortranWriter.unaryoperation_node",
        params={"self": "FortranWriter", "node": "UnaryOperation"},
        requires=[("node", "isinstance(node, UnaryOperation) and "
                           "len(node._children) == 1 and WFPOS(node)")],
        returns="str",
        ensures=[
            ("paren_when_grammar_demands",
             "implies(needs_paren(node) and not K_SIGN_LEFT_MUL(node) and "
             "not K_PLUS_LEFT_POW(node) and not K_NOT_LEFT_ARITH(node), "
             "has_paren(result))"),
            ("sign_left_of_mul", "implies(K_SIGN_LEFT_MUL(node), "
                                 "has_paren(result))"),
            ("plus_left_of_pow", "implies(K_PLUS_LEFT_POW(node), "
                                 "has_paren(result))"),
            ("not_left_of_arith", "implies(K_NOT_LEFT_ARITH(node) and "
                                  "needs_paren(node), has_paren(result))"),
        ],
        raises={"VisitorError": "not mapped(node) or "
                "(node._parent is not None and "
                "isinstance(node._parent, BinaryOperation) and "
                "(not mapped(node._parent) or (node._parent._parent is not "
                "None and isinstance(node._parent._parent, BinaryOperation) "
                "and not mapped(node._parent._parent))))"},
        modifies=[],
        covers=[("paren", "has_paren(result)"),
                ("noparen", "not has_paren(result)")])
    uni.contracts["FortranWriter.unaryoperation_node"] = c
    cs.append(c)
    return cs


TRUSTED = [
    "pyvc VC generator and z3",
    "the level table of the Fortran 2008 expression grammar (hand-"
    "transcribed, R702-R722) and the operand rules derived from it",
    "FortranWriter.__init__ / precedence() executed as closed code",
    "fparser2 implements the standard grammar (reading back is not part of "
    "the deductive check; a bounded round-trip run-time contract through "
    "the real reader is run as a stand-in, labelled bounded)",
    "NOT under contract: literal_node (signed literals, kinds), "
    "intrinsic/array/structure writers",
]
EXPLANATION = (
    "For every operator of the node, every parent kind and operator, either "
    "child position and every grandparent: whenever the Fortran grammar "
    "demands parentheses around the operation in its position the real "
    "writer emits them -- outside five recorded known classes, each of "
    "which is its own obligation (recorded findings).")


def extra(uni, tier, seed):
    from pyvc.runner import Extra
    from realise import C02 as R
    rp = R.roundtrip(tier, skip_known=True)
    return [Extra("bounded#writer-reader-roundtrip", not rp["confirmed"],
                  detail=str(rp)[:300],
                  kind="bounded run-time contract: all operator trees of "
                       "depth <= 2 written by the real FortranWriter and "
                       "read back by the real FortranReader, outside the "
                       "recorded known classes",
                  replay=rp, count=rp.get("cases", 1), bounded=True,
                  samples=rp.get("samples", []))]


def replay(name, ob, model, uni):
    from realise import C02 as R
    return R.roundtrip("thorough", skip_known=False,
                       only=name.split(":")[-1])


def replay_known(k, uni):
    from realise import C02 as R
    return R.known(k.get("id"))
