#!/usr/bin/env python3
"""tools/keep_seed.py <PROP> <k> <seed-id> '<needs>' '<check result>' [tests...]:
confirm (demo passes without / fails with the change, in the scratch worktree
/tmp/wt_<PROP>) and copy an independently produced breaking change into
/verif/seeded/<seed-id>."""
import json, os, shutil, subprocess, sys
prop, k, sid, needs, caught = sys.argv[1:6]
tests = sys.argv[6:]
wt = f"/tmp/wt_{prop}"
src = f"{wt}/_seed/{k}"
env = dict(os.environ, PYTHONPATH=f"{wt}/src", PSYCLONE_CONFIG=f"{wt}/config/psyclone.cfg")
def run(*a):
    return subprocess.run(["/venv/bin/python", *a], cwd=wt, env=env, capture_output=True, text=True)
subprocess.run(["git", "checkout", "-q", "--", "src"], cwd=wt)
r0 = run(f"{src}/demo.py").returncode
subprocess.run(["git", "apply", f"{src}/patch.diff"], cwd=wt, check=True)
r1 = run(f"{src}/demo.py").returncode
tline = "not re-run (agent's full-suite run in notes.md)"
if tests:
    t = run("-m", "pytest", "-q", "-p", "no:cacheprovider", "-n", "6", *tests)
    tline = (t.stdout.strip().splitlines() or ["?"])[-1]
subprocess.run(["git", "checkout", "-q", "--", "src"], cwd=wt)
print("demo without:", r0, " with:", r1, " tests:", tline)
if r0 != 0 or r1 == 0:
    sys.exit("NOT CONFIRMED")
dst = f"/verif/seeded/{sid}"
os.makedirs(dst, exist_ok=True)
for f in ("patch.diff", "demo.py", "notes.md"):
    if os.path.exists(f"{src}/{f}"):
        shutil.copy(f"{src}/{f}", f"{dst}/{f}")
meta = {"property": prop, "seed": sid, "needs_to_manifest": needs,
        "produced_by": "independent sub-agent given only the property text and a scratch worktree",
        "confirmed": {"demo_without_change": f"exit {r0}", "demo_with_change": f"exit {r1}",
                      "tests_with_change": tline},
        "ran": ["tools/keep_seed.py (demo with/without the change in the scratch worktree)",
                f"tools/try_seed.sh {prop} seeded/{sid}/patch.diff"],
        "check_result": caught}
json.dump(meta, open(f"{dst}/meta.json", "w"), indent=1)
print("kept", dst)
