"""Python `re` patterns (subset) -> z3 regular expressions.

Supported: literals, '.', character classes and the categories \\s \\d \\w,
alternation, groups, * + ? {m,n}, '^' only at the very start.  re.IGNORECASE
is applied to ASCII letters.  Anything else raises Unsupported.
"""
import re
import z3
try:
    import re._parser as sre_parse
    import re._constants as sre_c
except ImportError:          # pragma: no cover
    import sre_parse
    import sre_constants as sre_c
from .state import Unsupported

WS = " \t\n\r\x0b\x0c"


def _chr_re(code, icase):
    ch = chr(code)
    if icase and ch.isalpha() and ch.lower() != ch.upper():
        return z3.Union(z3.Re(z3.StringVal(ch.lower())),
                        z3.Re(z3.StringVal(ch.upper())))
    return z3.Re(z3.StringVal(ch))


def _category(cat):
    if cat == sre_c.CATEGORY_SPACE:
        return z3.Union(*[z3.Re(z3.StringVal(c)) for c in WS])
    if cat == sre_c.CATEGORY_DIGIT:
        return z3.Range("0", "9")
    if cat == sre_c.CATEGORY_WORD:
        return z3.Union(z3.Range("a", "z"), z3.Range("A", "Z"),
                        z3.Range("0", "9"), z3.Re(z3.StringVal("_")))
    raise Unsupported(f"regex category {cat}")


def _seq(items, icase):
    parts = []
    for op, arg in items:
        if op == sre_c.LITERAL:
            parts.append(_chr_re(arg, icase))
        elif op == sre_c.ANY:
            parts.append(z3.AllChar(z3.ReSort(z3.StringSort())))
        elif op == sre_c.IN:
            alts, negate = [], False
            for o2, a2 in arg:
                if o2 == sre_c.NEGATE:
                    negate = True
                elif o2 == sre_c.LITERAL:
                    alts.append(_chr_re(a2, icase))
                elif o2 == sre_c.RANGE:
                    alts.append(z3.Range(chr(a2[0]), chr(a2[1])))
                elif o2 == sre_c.CATEGORY:
                    alts.append(_category(a2))
                else:
                    raise Unsupported(f"regex class item {o2}")
            u = alts[0] if len(alts) == 1 else z3.Union(*alts)
            if negate:
                u = z3.Intersect(z3.AllChar(z3.ReSort(z3.StringSort())),
                                 z3.Complement(u))
            parts.append(u)
        elif op == sre_c.BRANCH:
            alts = [_seq(list(b), icase) for b in arg[1]]
            parts.append(alts[0] if len(alts) == 1 else z3.Union(*alts))
        elif op == sre_c.SUBPATTERN:
            parts.append(_seq(list(arg[3]), icase))
        elif op in (sre_c.MAX_REPEAT, sre_c.MIN_REPEAT):
            lo, hi, sub = arg
            inner = _seq(list(sub), icase)
            if hi == sre_c.MAXREPEAT:
                r = z3.Star(inner) if lo == 0 else \
                    z3.Concat(z3.Loop(inner, lo, lo), z3.Star(inner)) \
                    if lo > 1 else z3.Plus(inner)
            else:
                r = z3.Loop(inner, lo, hi)
            parts.append(r)
        else:
            raise Unsupported(f"regex construct {op}")
    if not parts:
        return z3.Re(z3.StringVal(""))
    return parts[0] if len(parts) == 1 else z3.Concat(*parts)


def match_prefix(pattern, flags, s):
    """z3 Bool: re.compile(pattern, flags).match(s) is not None"""
    try:
        parsed = list(sre_parse.parse(pattern, flags))
    except Exception as err:      # noqa
        raise Unsupported(f"regex {pattern!r}: {err}")
    if parsed and parsed[0][0] == sre_c.AT and \
            parsed[0][1] in (sre_c.AT_BEGINNING, sre_c.AT_BEGINNING_STRING):
        parsed = parsed[1:]
    for op, arg in parsed:
        if op == sre_c.AT:
            raise Unsupported("regex anchor inside pattern")
    icase = bool(flags & re.I)
    body = _seq(parsed, icase)
    full = z3.Concat(body, z3.Full(z3.ReSort(z3.StringSort())))
    return z3.InRe(s, full)
