"""Realiser for C23: real LFRic invokes with GH_INC / GH_READINC kernels on
continuous spaces; the real has_inc_arg and the real LFRic OpenMP validators
are run under the run-time version of the contract."""
import os


def _invoke(fname, idx=0, dm=False):
    from psyclone.parse.algorithm import parse
    from psyclone.psyGen import PSyFactory
    from psyclone.configuration import Config
    import psyclone
    base = os.path.join(os.path.dirname(psyclone.__file__), "tests",
                        "test_files", "dynamo0p3")
    Config.get().api = "lfric"
    _, info = parse(os.path.join(base, fname), api="lfric")
    psy = PSyFactory("lfric", distributed_memory=dm).create(info)
    return psy.invokes.invoke_list[idx].schedule


def run():
    from psyclone.core import AccessType
    from psyclone.domain.lfric import LFRicLoop, LFRicConstants
    from psyclone.transformations import (DynamoOMPParallelLoopTrans,
                                          Dynamo0p3OMPLoopTrans,
                                          TransformationError)
    from psyclone.configuration import Config
    Config.get()
    const = LFRicConstants()
    for fname in ("14.15_halo_readinc.f90", "1_single_invoke.f90",
                  "1.13_single_invoke_any_space.f90"):
        for dm in (False, True):
            try:
                sched = _invoke(fname, 0, dm)
            except Exception:      # noqa
                continue
            for loop in sched.walk(LFRicLoop):
                spec = any(arg.access in (AccessType.INC, AccessType.READINC)
                           for k in loop.coded_kernels()
                           for arg in k.arguments.args)
                got = loop.has_inc_arg()
                if got != spec:
                    return {"confirmed": True,
                            "input": {"algorithm": fname, "dm": dm,
                                      "loop": str(loop).split("\n")[0]},
                            "observed": f"has_inc_arg() = {got}, the loop's "
                            f"kernels have an increment/read-then-increment "
                            f"argument: {spec}"}
                cont = loop.field_space.orig_name not in \
                    const.VALID_DISCONTINUOUS_NAMES
                for trans in (DynamoOMPParallelLoopTrans(),
                              Dynamo0p3OMPLoopTrans()):
                    try:
                        trans.validate(loop)
                        ok = True
                    except TransformationError:
                        ok = False
                    if ok and spec and cont and loop.loop_type != "colour":
                        return {"confirmed": True,
                                "input": {"algorithm": fname, "dm": dm},
                                "observed": f"{trans.name} accepts an "
                                "uncoloured loop that increments a field on "
                                "a continuous space"}
    return {"confirmed": False}


def colour_inside_acc():
    """Dynamo0p3ColourTrans accepts a loop that already sits inside an
    OpenACC parallel region: the loop over colours ends up inside it."""
    from psyclone.configuration import Config
    Config.get()
    from psyclone.transformations import (ACCParallelTrans,
                                          Dynamo0p3ColourTrans,
                                          TransformationError)
    from psyclone.domain.lfric import LFRicLoop
    from psyclone.psyir.nodes import ACCParallelDirective
    sched = _invoke("1_single_invoke.f90", 0, False)
    loop = sched.walk(LFRicLoop)[0]
    ACCParallelTrans().apply(loop)
    try:
        Dynamo0p3ColourTrans().apply(loop)
    except TransformationError:
        return False
    return any(lp.loop_type == "colours" and
               lp.ancestor(ACCParallelDirective) is not None
               for lp in sched.walk(LFRicLoop))
