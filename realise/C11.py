"""Realiser for C11: real VariablesAccessInfo on small statements with a
hand-stated list of names that must be reported as read."""


def run(name=""):
    from psyclone.psyir.frontend.fortran import FortranReader
    from psyclone.core import VariablesAccessInfo
    from psyclone.psyir.nodes import Routine
    cases = [
        ("n = len_trim(names(lens(k)))",
         "character(len=8) :: names(4)\n integer :: lens(4), k, n",
         {"names", "lens", "k"}),
        ("call relax(grid(ib)%tile(jt)%dat, n)",
         "use types_mod\n type(grid_type) :: grid(4)\n integer :: ib, jt, n",
         {"ib", "jt", "n"}),
        ("a(i) = b(j) + c", "real :: a(4), b(4), c\n integer :: i, j",
         {"b", "j", "c", "i"}),
    ]
    for stmt, decls, must_read in cases:
        code = f"subroutine s()\n {decls}\n {stmt}\nend subroutine s\n"
        rt = FortranReader().psyir_from_source(code).walk(Routine)[0]
        vai = VariablesAccessInfo(rt.children)
        read = {str(s).split("%")[0] for s in vai.all_signatures
                if vai[s].is_read()}
        missing = must_read - read
        if missing:
            return {"confirmed": True, "input": {"statement": stmt},
                    "observed": f"{sorted(missing)} are read by the "
                    f"statement but not reported as read ({sorted(read)})"}
    return {"confirmed": False}
