#!/bin/sh
# Build the overlay venv (offline). One interpreter generates VCs (z3/cvc5)
# and imports the editable PSyclone install that points at /repo.
set -e
cd "$(dirname "$0")"
if [ ! -x .venv/bin/python ] || ! .venv/bin/python -c "import z3, cvc5, jsonschema, psyclone" 2>/dev/null; then
  rm -rf .venv
  /root/.pyenv/versions/3.12.1/bin/python -m venv .venv
  PIP_NO_INDEX=1 .venv/bin/pip install -q --no-index --find-links /opt/veriftools/wheels z3-solver cvc5 icontract jsonschema
  echo "import site; site.addsitedir('/venv/lib/python3.12/site-packages')" > .venv/lib/python3.12/site-packages/psyclone_overlay.pth
fi
.venv/bin/python -c "import z3, cvc5, jsonschema, psyclone; print('setup ok', z3.get_version_string())"
