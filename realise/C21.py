"""C21 bounded family: for each kernel metadata of the family the real PSy
generator (psyclone.generator.generate) and the real kernel-stub generator
(psyclone.gen_kernel_stub.generate) are run and the kernel call is compared
with the stub interface position by position - count, intrinsic type, kind,
rank, intent (oracle: realise/call_stub_oracle.py) - and the stub must not
list a dummy argument twice.  Bounded: the metadata below."""
import shutil

QR_META = """
     type(arg_type), dimension(2) :: meta_args =     &
          (/ arg_type(gh_field, gh_real, gh_inc,  w1), &
             arg_type(gh_field, gh_real, gh_read, w3) /)
     type(func_type), dimension(2) :: meta_funcs =   &
          (/ func_type(w1, gh_basis),                &
             func_type(w3, gh_basis, gh_diff_basis) /)
     integer :: gh_shape({n}) = (/ {shapes} /)
"""
QR_DECLS = """    type(field_type) :: f1, f2
    type(quadrature_xyoz_type) :: qr_xyoz
    type(quadrature_face_type) :: qr_face
    type(quadrature_edge_type) :: qr_edge"""

MESH_META = """
     type(arg_type), dimension(2) :: meta_args =    &
          (/ arg_type(gh_scalar, gh_real, gh_read), &
             arg_type(gh_field,  gh_real, gh_inc,  w1) /)
     type(mesh_data_type), dimension(1) :: meta_mesh = &
          (/ mesh_data_type(adjacent_face) /)
     type(reference_element_data_type), dimension({n}) :: &
          meta_reference_element =                      &
          (/ {props} /)
"""
MESH_DECLS = """    type(field_type) :: f1
    real(r_def) :: a"""

STENCIL_META = """
     type(arg_type), dimension(3) :: meta_args =    &
          (/ arg_type(gh_field, gh_real, gh_inc,  w1), &
             arg_type(gh_field, gh_real, gh_read, w2, stencil({s1})), &
             arg_type(gh_field, gh_real, gh_read, w3, stencil({s2})) /)
"""
STENCIL_DECLS = """    type(field_type) :: f1, f2, f3
    integer(i_def) :: e1, e2
    integer(i_def) :: d1, d2"""

ARGS_META = """
     type(arg_type), dimension(5) :: meta_args =    &
          (/ arg_type(gh_scalar, gh_real,    gh_read), &
             arg_type(gh_field*3, gh_real,   gh_inc,  w1), &
             arg_type(gh_field,  gh_real,    gh_read, w2), &
             arg_type(gh_operator, gh_real,  gh_read, w2, w2), &
             arg_type(gh_scalar, gh_integer, gh_read) /)
"""
ARGS_DECLS = """    type(field_type) :: f1(3), f2
    type(operator_type) :: op
    real(r_def) :: a
    integer(i_def) :: n"""


FS_META = """
     type(arg_type), dimension(3) :: meta_args =     &
          (/ arg_type(gh_field, gh_real, gh_inc,  {fs1}), &
             arg_type(gh_field, gh_real, gh_read, {fs2}), &
             arg_type(gh_field*2, gh_real, gh_read, {fs3}) /)
     type(func_type), dimension(2) :: meta_funcs =   &
          (/ func_type({fs1}, gh_basis),                &
             func_type({fs2}, gh_diff_basis) /)
     integer :: gh_shape = {shape}
"""
FS_DECLS = """    type(field_type) :: f1, f2, f3(2)
    type(quadrature_xyoz_type) :: qr_xyoz
    type(quadrature_face_type) :: qr_face
    type(quadrature_edge_type) :: qr_edge"""

RE_META = """
     type(arg_type), dimension(2) :: meta_args =    &
          (/ arg_type(gh_scalar, gh_real, gh_read), &
             arg_type(gh_field,  gh_real, gh_inc,  w1) /)
     type(reference_element_data_type), dimension({n}) :: &
          meta_reference_element =                      &
          (/ {props} /)
"""


def more_cases():
    """thorough tier: function-space mixes with one shape, reference-element
    property sets without a mesh property, further stencil mixes"""
    out = []
    for fs1, fs2, fs3 in (("w1", "w2", "w3"), ("w0", "w1", "w2"),
                          ("w2", "w3", "wtheta"), ("w2h", "w2v", "w0"),
                          ("any_space_1", "w1", "any_space_2")):
        for shape, arg in (("gh_quadrature_xyoz", ", qr_xyoz"),
                           ("gh_quadrature_face", ", qr_face"),
                           ("gh_quadrature_edge", ", qr_edge"),
                           ("gh_evaluator", "")):
            out.append((f"spaces[{fs1},{fs2},{fs3};{shape}]", "fs_kern",
                        FS_META.format(fs1=fs1, fs2=fs2, fs3=fs3,
                                       shape=shape), FS_DECLS,
                        "f1, f2, f3" + arg))
    props = ["normals_to_horizontal_faces", "normals_to_vertical_faces",
             "normals_to_faces", "outward_normals_to_horizontal_faces",
             "outward_normals_to_vertical_faces", "outward_normals_to_faces"]
    import itertools
    for pair in itertools.permutations(props, 2):
        meta = RE_META.format(n=2, props=", ".join(
            f"reference_element_data_type({p})" for p in pair))
        out.append(("reference_element[" + ",".join(pair) + "]", "re_kern",
                    meta, MESH_DECLS, "a, f1"))
    stencil_args = {"cross": "{f}, {e}", "region": "{f}, {e}",
                    "x1d": "{f}, {e}", "y1d": "{f}, {e}",
                    "xory1d": "{f}, {e}, {d}", "cross2d": "{f}, {e}"}
    for s1, s2 in itertools.product(stencil_args, repeat=2):
        a1 = stencil_args[s1].format(f="f2", e="e1", d="d1")
        a2 = stencil_args[s2].format(f="f3", e="e2", d="d2")
        out.append((f"stencil[{s1},{s2}]", "st_kern",
                    STENCIL_META.format(s1=s1, s2=s2), STENCIL_DECLS,
                    f"f1, {a1}, {a2}"))
    return out


def cases():
    """[(id, kernel name, metadata, declarations, invoke arguments)]"""
    out = []
    for shapes in (("xyoz", "face"), ("xyoz", "edge"), ("face", "edge"),
                   ("face", "xyoz"), ("edge", "xyoz"), ("edge", "face"),
                   ("xyoz",), ("face",), ("edge",)):
        meta = QR_META.format(n=len(shapes), shapes=", ".join(
            "gh_quadrature_" + s for s in shapes))
        out.append(("quadrature[" + ",".join(shapes) + "]", "qr_kern", meta,
                    QR_DECLS, "f1, f2, " + ", ".join(
                        "qr_" + s for s in shapes)))
    for shapes in (("gh_quadrature_xyoz", "gh_evaluator"),
                   ("gh_evaluator", "gh_quadrature_xyoz")):
        meta = QR_META.format(n=2, shapes=", ".join(shapes))
        out.append(("evaluator[" + ",".join(shapes) + "]", "ev_kern", meta,
                    QR_DECLS, "f1, f2, qr_xyoz"))
    for props in (("normals_to_horizontal_faces",),
                  ("outward_normals_to_horizontal_faces",),
                  ("normals_to_vertical_faces",),
                  ("normals_to_faces",),
                  ("normals_to_horizontal_faces",
                   "outward_normals_to_vertical_faces")):
        meta = MESH_META.format(n=len(props), props=", ".join(
            f"reference_element_data_type({p})" for p in props))
        out.append(("adjacent_face[" + ",".join(props) + "]", "mesh_kern",
                    meta, MESH_DECLS, "a, f1"))
    stencil_args = {"cross": ("{f}, {e}", 1), "region": ("{f}, {e}", 1),
                    "x1d": ("{f}, {e}", 1), "xory1d": ("{f}, {e}, {d}", 2),
                    "cross2d": ("{f}, {e}", 1)}
    for s1, s2 in (("cross", "region"), ("cross", "cross"),
                   ("xory1d", "cross"), ("cross2d", "cross2d"),
                   ("cross2d", "cross"), ("cross", "cross2d")):
        a1 = stencil_args[s1][0].format(f="f2", e="e1", d="d1")
        a2 = stencil_args[s2][0].format(f="f3", e="e2", d="d2")
        out.append((f"stencil[{s1},{s2}]", "st_kern",
                    STENCIL_META.format(s1=s1, s2=s2), STENCIL_DECLS,
                    f"f1, {a1}, {a2}"))
    out.append(("arguments[scalar,vector,field,operator,int]", "arg_kern",
                ARGS_META, ARGS_DECLS, "a, f1, f2, op, n"))
    return out


def check_case(name, meta, decls, args):
    """(verdict, problems): verdict in ok / violated / refused"""
    import glob
    import os
    import tempfile
    from realise import call_stub_oracle as O
    before = set(glob.glob(os.path.join(tempfile.gettempdir(), "c21_demo_*")))
    try:
        try:
            psy, stub = O.psy_and_stub(name, meta, decls, args)
        except Exception as err:       # noqa: PSyclone refuses the metadata
            return "refused", [f"{type(err).__name__}: {err}"[:200]]
        problems = O.compare(psy, stub, verbose=False)
        _, sig = O.stub_signature(stub)
        names = [entry[0] for entry in sig]
        for nm in sorted(set(names)):
            if names.count(nm) > 1:
                problems.append(f"stub: dummy argument '{nm}' appears "
                                f"{names.count(nm)} times")
        return ("violated" if problems else "ok"), problems
    finally:
        after = set(glob.glob(os.path.join(tempfile.gettempdir(),
                                           "c21_demo_*")))
        for d in after - before:
            shutil.rmtree(d, ignore_errors=True)


def family(thorough=False):
    out = []
    todo = cases()
    if thorough:
        have = {c[0] for c in todo}
        todo += [c for c in more_cases() if c[0] not in have]
    for cid, name, meta, decls, args in todo:
        verdict, probs = check_case(name, meta, decls, args)
        out.append((cid, verdict, probs, meta))
    return out
