"""Symbolic state, path enumeration and obligations."""
import itertools
import z3
from .values import Ref, NULL, INT, BOOL, STR, sort_of

_counter = [0]


def reset_names():
    _counter[0] = 0
    from . import models
    models._n[0] = 0
    del models.AXIOMS[:]


def fresh_name(base):
    _counter[0] += 1
    return f"{base}!{_counter[0]}"


def fresh(base, sort):
    return z3.Const(fresh_name(base), sort)


class Unsupported(Exception):
    """A construct outside the supported subset was met."""


class PathEnd(Exception):
    """The current symbolic path stops here (infeasible / loop body done)."""


class PyRaise(Exception):
    """The subject program raises."""

    def __init__(self, exc):
        super().__init__(exc.cls)
        self.exc = exc


class Obligation:
    def __init__(self, func, kind, label, pc, goal, path, note=""):
        self.func = func
        self.kind = kind
        self.label = label
        self.pc = list(pc)
        self.goal = goal
        self.path = tuple(path)
        self.note = note

    @property
    def name(self):
        return f"{self.func}#{self.kind}:{self.label}"

    def smt2(self):
        s = z3.Solver()
        for c in self.pc:
            s.add(c)
        s.add(z3.Not(self.goal))
        return s.to_smt2()


class State:
    """env + heap + path condition. Heap = dict field -> z3 array
    (Ref -> sort). Copy-on-fork is not needed: one path at a time."""

    def __init__(self):
        self.env = {}
        self.heap = {}
        self.heap_sorts = {}
        self.pc = []
        self.ghost = {}

    def snapshot(self):
        snap = State()
        snap.env = dict(self.env)
        snap.heap = dict(self.heap)
        snap.heap_sorts = self.heap_sorts
        snap.pc = self.pc
        snap.ghost = dict(self.ghost)
        return snap

    # heap ----------------------------------------------------------------
    def field(self, name, tag=None):
        if name not in self.heap:
            if tag is None:
                tag = self.heap_sorts.get(name)
            if tag is None:
                raise Unsupported(f"undeclared field '{name}'")
            self.heap_sorts.setdefault(name, tag)
            self.heap[name] = z3.Const(f"H0_{name}",
                                       z3.ArraySort(Ref, sort_of(tag)))
        return self.heap[name]

    def read(self, name, ref, tag=None):
        return z3.Select(self.field(name, tag), ref)

    def write(self, name, ref, val, tag=None):
        self.heap[name] = z3.Store(self.field(name, tag), ref, val)

    def havoc(self, name):
        tag = self.heap_sorts.get(name)
        if tag is None:
            return
        self.heap[name] = fresh(f"H_{name}", z3.ArraySort(Ref, sort_of(tag)))

    def assume(self, cond):
        self.pc.append(cond)


_sym_cache = {}


def _symbols(e):
    """names of the uninterpreted constants/functions of a formula"""
    k = e.get_id()
    if k in _sym_cache:
        return _sym_cache[k]
    out = set()
    stack, seen = [e], set()
    while stack:
        x = stack.pop()
        if x.get_id() in seen:
            continue
        seen.add(x.get_id())
        if z3.is_quantifier(x):
            stack.append(x.body())
        elif z3.is_app(x):
            if x.decl().kind() == z3.Z3_OP_UNINTERPRETED:
                out.add(x.decl().name())
            stack.extend(x.children())
    if len(_sym_cache) > 20000:
        _sym_cache.clear()
    _sym_cache[k] = out
    return out


_q_cache = {}


def _has_quant(e):
    k = e.get_id()
    if k not in _q_cache:
        if len(_q_cache) > 20000:
            _q_cache.clear()
        r = False
        stack, seen = [e], set()
        while stack and not r:
            x = stack.pop()
            if x.get_id() in seen:
                continue
            seen.add(x.get_id())
            if z3.is_quantifier(x):
                r = True
            elif z3.is_app(x):
                stack.extend(x.children())
        _q_cache[k] = r
    return _q_cache[k]


class NeedBranch(Exception):
    """a speculative (trial) evaluation reached a genuine two-way split"""


class Decider:
    """Depth-first enumeration of the decision tree, one path per run."""

    def __init__(self, timeout_ms=400):
        self.prefix = []
        self.todo = []
        self.trace = []
        self.timeout_ms = timeout_ms
        self.rlimit = 400000
        self.npaths = 0
        self.solver_calls = 0

    def start_path(self, prefix):
        self.prefix = list(prefix)
        self.trace = []
        reset_names()
        self.npaths += 1

    def quick_unsat(self, pc, c):
        """stage 1: only the path-condition conjuncts that share a symbol
        with the condition (unsat of a subset implies unsat of the whole);
        decides the common null / range / type tests fast."""
        syms = _symbols(c)
        sub = [p for p in pc if _symbols(p) & syms and not _has_quant(p)]
        if not sub:
            return False
        s = z3.Solver()
        s.set("rlimit", 100000)
        for p in sub:
            s.add(p)
        s.add(c)
        self.solver_calls += 1
        return s.check() == z3.unsat

    def feasible(self, pc, cond):
        c = z3.simplify(cond)
        if z3.is_true(c):
            return True
        if z3.is_false(c):
            return False
        s = z3.Solver()
        # deterministic resource limit: the soft timeout alone is not always
        # honoured on quantified goals (a stuck check would hang the run);
        # 'unknown' keeps the branch, which is sound.  No wall-clock timeout
        # here, so the set of explored paths does not depend on machine load.
        s.set("rlimit", self.rlimit)
        for p in pc:
            s.add(p)
        s.add(c)
        self.solver_calls += 1
        return s.check() != z3.unsat

    def branch(self, st, cond):
        """Returns the Python bool chosen on this path and extends pc."""
        c = z3.simplify(cond)
        if z3.is_true(c):
            return True
        if z3.is_false(c):
            return False
        pos = len(self.trace)
        if getattr(self, "trial", False):
            # speculative evaluation of a pure expression: only decisions
            # that are forced by the path condition are taken
            nc = z3.Not(c)
            if self.quick_unsat(st.pc, c) or not self.feasible(st.pc, c):
                choice = False
            elif self.quick_unsat(st.pc, nc) or \
                    not self.feasible(st.pc, nc):
                choice = True
            else:
                raise NeedBranch()
            self.trace.append(choice)
            st.pc.append(c if choice else nc)
            return choice
        if pos < len(self.prefix):
            choice = self.prefix[pos]
        else:
            # the current path condition is taken to be satisfiable, so a
            # side that is refuted leaves the other one as the only choice
            nc = z3.Not(c)
            if self.quick_unsat(st.pc, c):
                choice = False
            elif self.quick_unsat(st.pc, nc):
                choice = True
            elif not self.feasible(st.pc, c):
                if not self.feasible(st.pc, nc):
                    # the path condition itself is contradictory
                    raise PathEnd()
                choice = False
            elif not self.feasible(st.pc, nc):
                choice = True
            else:
                choice = True
                self.todo.append(self.trace + [False])
        self.trace.append(choice)
        st.pc.append(c if choice else z3.Not(c))
        return choice

    def choose(self, st, n, label=""):
        """n-way nondeterministic choice (used for dispatch over finite
        sets). Encoded as a sequence of binary decisions without pc."""
        for i in range(n - 1):
            pos = len(self.trace)
            if pos < len(self.prefix):
                choice = self.prefix[pos]
            else:
                choice = True
                self.todo.append(self.trace + [False])
            self.trace.append(choice)
            if choice:
                return i
        return n - 1
