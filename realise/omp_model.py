#!/usr/bin/env python
'''OpenMP execution model used by realise/C09.py. Written by an independent
sub-agent from the text of property C09 only (it is seeded/C09a/demo.py,
unchanged apart from this paragraph, the QUIET switch and the value of a
DO variable after its loop, marked '(added in /verif)').

Demo for property C09 (OpenMP-parallelised loops compute the serial result
on any schedule).

For a handful of small Fortran loops it asks PSyclone (OMPParallelLoopTrans,
no "force" option) to parallelise the loop. Whenever PSyclone accepts, the
generated program (PSyIR tree + the private/firstprivate clauses printed in
the generated Fortran) is executed by a small OpenMP model for 1..8 threads,
static/dynamic/guided work distributions and many thread interleavings
(lock-step, thread-reversed and random) and every shared variable is compared
with the result of the serial program.

exit code 0: property holds on these inputs, 1: property violated.
'''
import sys
QUIET = False
_print = print


def print(*a, **k):
    if not QUIET:
        _print(*a, **k)

# ---------------------------------------------------------------------------
# A tiny reference interpreter for the PSyIR subset used in this demo plus an
# OpenMP execution model. It is deliberately independent of PSyclone's own
# analysis: it only *reads* the tree that PSyclone produced and the clauses
# that PSyclone printed into the generated Fortran.
# ---------------------------------------------------------------------------
import itertools
import random
import re

from psyclone.psyir.backend.fortran import FortranWriter
from psyclone.psyir.frontend.fortran import FortranReader
from psyclone.psyir.nodes import (
    Assignment, BinaryOperation, IfBlock, IntrinsicCall, Literal, Loop,
    OMPDoDirective, OMPParallelDirective, OMPParallelDoDirective, Reference,
    ArrayReference, Routine, UnaryOperation)
from psyclone.psyir.symbols import ScalarType
from psyclone.transformations import (OMPParallelLoopTrans,
                                      TransformationError)


class _Undef:
    '''Poison value: the content of an uninitialised private copy.'''
    def __repr__(self):
        return "<undef>"


UNDEF = _Undef()


class Env:
    '''Variable store of one thread: private copies shadow shared storage.'''
    def __init__(self, shared, private=None):
        self.shared = shared
        self.private = private if private is not None else {}

    def _store(self, name):
        return self.private if name in self.private else self.shared

    def get(self, name, idx=None):
        val = self._store(name)[name]
        return val if idx is None else val.get(idx, UNDEF)

    def put(self, name, value, idx=None):
        store = self._store(name)
        if idx is None:
            store[name] = value
        else:
            store[name][idx] = value


_BIN = BinaryOperation.Operator
_UN = UnaryOperation.Operator


def _tdiv(lhs, rhs):
    if isinstance(lhs, int) and isinstance(rhs, int):
        quot = abs(lhs) // abs(rhs)
        return quot if (lhs >= 0) == (rhs >= 0) else -quot
    return lhs / rhs


_BINOPS = {
    _BIN.ADD: lambda a, b: a + b, _BIN.SUB: lambda a, b: a - b,
    _BIN.MUL: lambda a, b: a * b, _BIN.DIV: _tdiv,
    _BIN.POW: lambda a, b: a ** b,
    _BIN.EQ: lambda a, b: a == b, _BIN.NE: lambda a, b: a != b,
    _BIN.GT: lambda a, b: a > b, _BIN.GE: lambda a, b: a >= b,
    _BIN.LT: lambda a, b: a < b, _BIN.LE: lambda a, b: a <= b,
    _BIN.AND: lambda a, b: a and b, _BIN.OR: lambda a, b: a or b}


def evaluate(node, env):
    '''Evaluate a PSyIR expression; UNDEF propagates through everything.'''
    if isinstance(node, Literal):
        if node.datatype.intrinsic == ScalarType.Intrinsic.INTEGER:
            return int(node.value)
        if node.datatype.intrinsic == ScalarType.Intrinsic.BOOLEAN:
            return node.value.lower() == "true"
        return float(node.value.lower().replace("d", "e"))
    if isinstance(node, ArrayReference):
        idx = tuple(evaluate(i, env) for i in node.indices)
        if any(i is UNDEF for i in idx):
            return UNDEF
        return env.get(node.symbol.name, idx)
    if isinstance(node, Reference):
        return env.get(node.symbol.name)
    if isinstance(node, BinaryOperation):
        lhs = evaluate(node.children[0], env)
        rhs = evaluate(node.children[1], env)
        if lhs is UNDEF or rhs is UNDEF:
            return UNDEF
        return _BINOPS[node.operator](lhs, rhs)
    if isinstance(node, UnaryOperation):
        val = evaluate(node.children[0], env)
        if val is UNDEF:
            return UNDEF
        if node.operator == _UN.MINUS:
            return -val
        if node.operator == _UN.PLUS:
            return val
        return not val
    if isinstance(node, IntrinsicCall):
        # (added in /verif) .arguments: the first child is the routine name
        args = [evaluate(arg, env) for arg in node.arguments]
        if any(arg is UNDEF for arg in args):
            return UNDEF
        name = node.routine.name.upper()
        if name == "ABS":
            return abs(args[0])
        if name == "MAX":
            return max(args)
        if name == "MIN":
            return min(args)
        if name == "MOD":
            return args[0] - _tdiv(args[0], args[1]) * args[1]
        if name == "REAL":
            return float(args[0])
    raise NotImplementedError(f"expression {type(node).__name__}")


def loop_values(loop, env):
    start = evaluate(loop.start_expr, env)
    stop = evaluate(loop.stop_expr, env)
    step = evaluate(loop.step_expr, env)
    if UNDEF in (start, stop, step):
        raise RuntimeError("undefined loop bound")
    return list(range(start, stop + (1 if step > 0 else -1), step))


class Thread:
    def __init__(self, tid, env, plan):
        self.tid = tid
        self.env = env
        # plan: maps id(OMP worksharing loop) -> {tid: [iteration values]}
        self.plan = plan


def run(node, thread):
    '''Generator executing `node` on `thread`. It yields after every atomic
    step (one assignment / one condition evaluation) so that a scheduler can
    interleave threads, and yields "barrier" at the end of worksharing loops.
    '''
    env = thread.env
    if isinstance(node, Assignment):
        value = evaluate(node.rhs, env)
        lhs = node.lhs
        if isinstance(lhs, ArrayReference):
            idx = tuple(evaluate(i, env) for i in lhs.indices)
            if any(i is UNDEF for i in idx):
                raise RuntimeError("store through undefined index")
            env.put(lhs.symbol.name, value, idx)
        else:
            env.put(lhs.symbol.name, value)
        yield "step"
    elif isinstance(node, IfBlock):
        cond = evaluate(node.condition, env)
        yield "step"
        if cond is UNDEF:
            raise RuntimeError("branch on undefined value")
        body = node.if_body if cond else node.else_body
        if body is not None:
            for child in body.children:
                yield from run(child, thread)
    elif isinstance(node, Loop):
        vals = loop_values(node, env)
        for val in vals:
            env.put(node.variable.name, val)
            yield "step"
            for child in node.loop_body.children:
                yield from run(child, thread)
        # (added in /verif) Fortran 2008 8.1.6.6.4: after completion the DO
        # variable holds start + trip_count * step
        env.put(node.variable.name,
                evaluate(node.start_expr, env) if not vals
                else vals[-1] + evaluate(node.step_expr, env))
    elif isinstance(node, OMPDoDirective):   # includes "parallel do"
        loop = node.dir_body.children[0]
        if thread.plan is None:      # serial execution: ignore directive
            yield from run(loop, thread)
        else:
            for val in thread.plan[id(node)][thread.tid]:
                env.put(loop.variable.name, val)
                yield "step"
                for child in loop.loop_body.children:
                    yield from run(child, thread)
            yield "barrier"
    elif isinstance(node, OMPParallelDirective):
        # Only reached in serial mode: ignore the directive
        for child in node.dir_body.children:
            yield from run(child, thread)
    else:
        raise NotImplementedError(f"statement {type(node).__name__}")


def drain(gen):
    for _ in gen:
        pass


# ---------------------------------------------------------------------------
# Work distribution (which thread gets which iterations, in which order) for
# the three OpenMP schedule kinds.
# ---------------------------------------------------------------------------
def distribute(iters, nthreads, kind, rng):
    parts = {tid: [] for tid in range(nthreads)}
    n = len(iters)
    if kind == "static":
        chunk = -(-n // nthreads) if n else 0
        for tid in range(nthreads):
            parts[tid] = iters[tid * chunk:(tid + 1) * chunk]
    elif kind == "dynamic":
        # chunk size 1, chunks grabbed by whichever thread is free
        for val in iters:
            parts[rng.randrange(nthreads)].append(val)
    else:  # guided: shrinking chunks grabbed by arbitrary threads
        pos = 0
        while pos < n:
            chunk = max(1, (n - pos) // nthreads)
            parts[rng.randrange(nthreads)].extend(iters[pos:pos + chunk])
            pos += chunk
    return parts


def clauses_from_fortran(text):
    '''Extract (private, firstprivate) name lists of every "omp parallel"
    directive, in order of appearance, from the generated Fortran.'''
    result = []
    for line in text.splitlines():
        line = line.strip().lower()
        if not line.startswith("!$omp parallel"):
            continue
        priv = re.search(r"[ ,]private\(([^)]*)\)", line)
        fpriv = re.search(r"firstprivate\(([^)]*)\)", line)
        result.append((
            [x.strip() for x in priv.group(1).split(",")] if priv else [],
            [x.strip() for x in fpriv.group(1).split(",")] if fpriv else []))
    return result


def run_serial(routine, inputs):
    shared = {k: (dict(v) if isinstance(v, dict) else v)
              for k, v in inputs.items()}
    thread = Thread(0, Env(shared), None)
    for child in routine.children:
        drain(run(child, thread))
    return shared


def run_parallel(routine, inputs, clauses, nthreads, kind, policy, rng):
    '''Execute the routine with OpenMP semantics. `policy` selects how the
    threads of a team are interleaved: "lockstep" (round robin, one atomic
    step each), "reverse" (thread T-1 runs to the next barrier first, then
    T-2, ...) or "random".'''
    shared = {k: (dict(v) if isinstance(v, dict) else v)
              for k, v in inputs.items()}
    master = Thread(0, Env(shared), None)
    regions = iter(clauses)
    for child in routine.children:
        if not isinstance(child, OMPParallelDirective):
            drain(run(child, master))
            continue
        private, fprivate = next(regions)
        # Predetermined private: iteration variables of every loop inside the
        # parallel construct (OpenMP 5.x, 2.21.1.1, Fortran).
        loopvars = [lp.variable.name for lp in child.walk(Loop)]
        if isinstance(child, OMPParallelDoDirective):
            body = [child]          # it *is* the worksharing loop
        else:
            body = child.dir_body.children
        plan = {}
        threads = []
        for tid in range(nthreads):
            priv = {}
            for name in set(private) | set(loopvars):
                priv[name] = UNDEF
            for name in fprivate:
                val = shared[name]
                priv[name] = dict(val) if isinstance(val, dict) else val
            threads.append(Thread(tid, Env(shared, priv), plan))
        # Pre-compute the work distribution of every worksharing loop. (The
        # loop bounds are evaluated with the master's view of the data.)
        for wsl in child.walk(OMPDoDirective):
            loop = wsl.dir_body.children[0]
            iters = loop_values(loop, Env(shared))
            plan[id(wsl)] = distribute(iters, nthreads, kind, rng)

        def team_member(thread):
            for stmt in body:
                yield from run(stmt, thread)
        gens = {t.tid: team_member(t) for t in threads}
        waiting = set()
        alive = set(gens)
        while alive:
            runnable = sorted(alive - waiting)
            if not runnable:
                waiting.clear()     # everybody reached the barrier
                continue
            if policy == "lockstep":
                order = runnable
            elif policy == "reverse":
                order = itertools.repeat(runnable[-1])
            else:
                order = [rng.choice(runnable)]
            for tid in order:
                try:
                    what = next(gens[tid])
                except StopIteration:
                    alive.discard(tid)
                    if policy == "reverse":
                        break
                    continue
                if what == "barrier":
                    waiting.add(tid)
                    if policy == "reverse":
                        break
    return shared


def check(psyir, inputs, label="", trials=25, verbose=True):
    '''Compare the serial result with the OpenMP result for thread counts
    1..8, the three schedule kinds and several interleavings. Returns a list
    of violations (empty = property holds on this input).'''
    routine = psyir.walk(Routine)[0]
    text = FortranWriter()(psyir)
    clauses = clauses_from_fortran(text)
    if verbose:
        print(text)
    excluded = set()
    for priv, fpriv in clauses:
        excluded.update(priv)
        excluded.update(fpriv)
    excluded.update(lp.variable.name for lp in routine.walk(Loop))
    reference = run_serial(routine, inputs)
    violations = []
    rng = random.Random(12345)
    for nthreads, kind in itertools.product(range(1, 9),
                                            ("static", "dynamic", "guided")):
        policies = ["lockstep", "reverse"] + ["random"] * trials
        for policy in policies:
            try:
                result = run_parallel(routine, inputs, clauses, nthreads,
                                      kind, policy, rng)
            except RuntimeError as err:
                violations.append((nthreads, kind, policy, str(err)))
                break
            bad = [name for name in reference
                   if name not in excluded and result[name] != reference[name]]
            if bad:
                violations.append((nthreads, kind, policy,
                                   f"shared {sorted(bad)} differ from the "
                                   f"serial result"))
                break
    if verbose:
        if violations:
            print(f"{label}: {len(violations)} (threads, schedule) "
                  f"combinations give a non-serial result, e.g.:")
            for item in violations[:4]:
                print("   ", item)
        else:
            print(f"{label}: serial result reproduced for every thread "
                  f"count/schedule/interleaving tried")
    return violations


def parallelise_and_check(label, source, inputs, loop_index=0):
    '''Parse `source`, ask PSyclone to put an OpenMP parallel-do around the
    loop number `loop_index` (WITHOUT any force option) and, if PSyclone
    accepts, check that the generated OpenMP program reproduces the serial
    result. Returns True if the property holds for this loop/input.'''
    print("=" * 70)
    print(label)
    psyir = FortranReader().psyir_from_source(source)
    loop = psyir.walk(Loop)[loop_index]
    try:
        OMPParallelLoopTrans().apply(loop)
    except TransformationError as err:
        print("  PSyclone refuses to parallelise this loop: "
              + str(err.value).splitlines()[-1])
        print("  -> nothing is generated, the property holds vacuously")
        return True
    return not check(psyir, inputs, label)


def array(shape, func):
    '''Helper creating the dict-based storage of an array.'''
    ranges = [range(1, n + 1) for n in shape]
    return {idx: func(*idx) for idx in itertools.product(*ranges)}


# ---------------------------------------------------------------------------
# The loops
# ---------------------------------------------------------------------------
N = 8

# 1) Sanity: plain independent loop with a scalar temporary.
SRC_TEMP = '''
subroutine s(a, b)
  real, intent(inout) :: a(8), b(8)
  real :: t
  integer :: i
  do i = 1, 8
    t = a(i) * 2.0
    b(i) = t + 1.0
  end do
end subroutine s
'''

# 2) Sanity: nested loop, dependence only along the inner (sequential) loop.
SRC_COLUMN = '''
subroutine s(c)
  real, intent(inout) :: c(8,8)
  integer :: i, j
  do i = 1, 8
    do j = 2, 8
      c(j,i) = c(j-1,i) + 1.0
    end do
  end do
end subroutine s
'''

# 3) Sanity: the two accesses differ by a constant in a subscript that does
#    not use any loop variable -> they can never touch the same element.
SRC_ROWS = '''
subroutine s(c, n)
  real, intent(inout) :: c(8,8)
  integer, intent(in) :: n
  integer :: i
  do i = 2, 8
    c(n,i) = c(n+1,i-1) + 1.0
  end do
end subroutine s
'''

# 4) The interesting one: a "diagonal" stencil. Iteration i reads row j+1 of
#    column i-1, which iteration i-1 has written (for another value of the
#    inner loop variable j). There is a loop-carried dependence on i.
SRC_DIAGONAL = '''
subroutine s(c)
  real, intent(inout) :: c(8,8)
  integer :: i, j
  do i = 2, 8
    do j = 1, 7
      c(j,i) = c(j+1,i-1) + 1.0
    end do
  end do
end subroutine s
'''


def main():
    vec = array((N,), lambda i: float(i))
    mat = array((N, N), lambda j, i: float(10 * i + j))
    all_ok = True
    all_ok &= parallelise_and_check(
        "1) scalar temporary", SRC_TEMP,
        dict(a=dict(vec), b=array((N,), lambda i: 0.0), t=-1.0, i=0))
    all_ok &= parallelise_and_check(
        "2) dependence carried by the inner loop only", SRC_COLUMN,
        dict(c=dict(mat), i=0, j=0))
    all_ok &= parallelise_and_check(
        "3) constant row offset", SRC_ROWS,
        dict(c=dict(mat), n=3, i=0))
    all_ok &= parallelise_and_check(
        "4) diagonal stencil c(j,i) = c(j+1,i-1)", SRC_DIAGONAL,
        dict(c=dict(mat), i=0, j=0))
    print("=" * 70)
    if all_ok:
        print("PROPERTY HOLDS on all inputs tried")
        return 0
    print("PROPERTY VIOLATED: an accepted loop does not reproduce the "
          "serial result")
    return 1


if __name__ == "__main__":
    sys.exit(main())
