"""Realiser for C06: the real ArrayMixin.same_range on parsed assignments
whose arrays have literal declared bounds (ground truth: the integer
start / step of each range after resolving ':' to the declared bounds), and
the real Matmul2CodeTrans.validate on aliased results."""
import itertools


def _ranges(decl_c, decl_d, lhs, rhs):
    from psyclone.psyir.frontend.fortran import FortranReader
    from psyclone.psyir.nodes import Assignment, Range
    src = (f"subroutine s()\n  real :: c({decl_c}), d({decl_d})\n"
           f"  {lhs} = {rhs}\nend subroutine s\n")
    asg = FortranReader().psyir_from_source(src).walk(Assignment)[0]
    return src, asg.lhs, asg.rhs


def _effective_start(ref, idx):
    """integer lower end of the range ref.indices[idx]"""
    from psyclone.psyir.nodes import Literal
    rng = ref.indices[idx]
    if ref.is_lower_bound(idx):
        return int(ref.symbol.datatype.shape[idx].lower.value)
    return int(rng.start.value) if isinstance(rng.start, Literal) else None


def same_range_cases():
    from psyclone.psyir.nodes import Range
    decls_d = ["5,0:10", "0:4,10", "2:6,3:12", "5,10"]
    rhss = ["d(2,:)", "d(:,2)", "d(2,0:9)", "d(3,3:12)", "d(0:4,1)"]
    lhss = [("10", "c(:)"), ("0:9", "c(:)"), ("5", "c(:)"), ("3:12", "c(:)")]
    for dd, rhs, (dc, lhs) in itertools.product(decls_d, rhss, lhss):
        try:
            src, a, b = _ranges(dc, dd, lhs, rhs)
            ia = [k for k, x in enumerate(a.indices)
                  if isinstance(x, Range)][0]
            ib = [k for k, x in enumerate(b.indices)
                  if isinstance(x, Range)][0]
            sa, sb = _effective_start(a, ia), _effective_start(b, ib)
            if sa is None or sb is None:
                continue
            ans = a.same_range(ia, b, ib)
        except Exception:      # noqa: ill-formed combination (bounds)
            continue
        if ans and sa != sb:
            return {"confirmed": True, "input": {"source": src},
                    "observed": f"same_range({ia}, rhs, {ib}) is True but "
                    f"the ranges start at {sa} and {sb}"}
    return {"confirmed": False}


def matmul_alias_cases():
    from psyclone.psyir.frontend.fortran import FortranReader
    from psyclone.psyir.nodes import IntrinsicCall
    from psyclone.psyir.transformations import (Matmul2CodeTrans,
                                                TransformationError)
    for stmt in ("b = matmul(a, b)", "a = matmul(a, b)", "b = matmul(b, b)"):
        src = ("subroutine s(a, b)\n  real :: a(4,4), b(4,4)\n"
               f"  {stmt}\nend subroutine s\n")
        call = FortranReader().psyir_from_source(src).walk(IntrinsicCall)[0]
        try:
            Matmul2CodeTrans().validate(call)
        except TransformationError:
            continue
        return {"confirmed": True, "input": {"source": src},
                "observed": "Matmul2CodeTrans.validate accepts a MATMUL "
                "whose result array is one of its arguments: the generated "
                "loop nest overwrites elements it still has to read"}
    return {"confirmed": False}


def run(name=""):
    if "same_range" in name:
        return same_range_cases()
    if "Matmul" in name:
        return matmul_alias_cases()
    return {"confirmed": False}


def known(kid):
    return False
