"""C08 — loops reported parallelisable have no loop-carried dependence.

Contracts on the real bodies in psyir/tools/dependency_tools.py:
  _is_scalar_parallelisable   the scalar rule, over the abstract access view
  _independent_0_var          'independent' only on a never_equal answer
  _get_dependency_distance    termination of the helper-name loop (variant)
                              and which solver answers become a distance
"""
import z3
from pyvc.interp import Contract, LoopSpec
from pyvc.values import (VRef, VFunc, VBool, VStr, VInt, VTerm, VClass, NONE,
                         Ref, STR, EnumDesc, VExc)
from pyvc.state import fresh, PyRaise, Unsupported

ID = "C08"
LEVEL = "proof"
DT = "psyir/tools/dependency_tools.py"
NULLC = z3.Const("null", Ref)


def build(uni):
    uni.exact_fstrings = True
    info = uni.repo.cls("AccessType", "core/access_type.py")
    uni.enums["AccessType"] = EnumDesc("AccessType", list(info.consts))
    uni.fields.update({
        "_accesses": "list[AccessInfo]", "_access_type": "enum:AccessType",
        "$uncond": "bool", "type_map": "dict[str,SymExpr]",
        "free_symbols": "set[SymExpr]",
    })

    def field_hook(attr):
        def h(it, selfv, args, kw, st, fr):
            return it.getattr(VRef(selfv.e, "Obj"), attr, st, fr)
        return h
    uni.method_hooks.update({
        "AccessInfo.access_type": field_hook("_access_type"),
        "SingleVariableAccessInfo.all_accesses": field_hook("_accesses"),
        "DependencyTools._add_message": lambda it, s, a, k, st, fr: NONE,
        "SingleVariableAccessInfo.var_name":
            lambda it, s, a, k, st, fr: VStr(fresh("var_name", STR)),
    })
    uni.consts["getattr"] = VFunc("hook", fn=lambda it, a, k, st, fr: (
        it.from_field(it.concrete(a[1]), st.read(
            it.concrete(a[1]), a[0].e, uni.field_tag(it.concrete(a[1]))))))
    uni.preds.update({
        "AWF": (["v"], "v is not None and v._accesses is not None and "
                       "len(v._accesses) >= 1 and forall(lambda q: implies("
                       "0 <= q and q < len(v._accesses), "
                       "at(v._accesses, q) is not None))"),
        "READONLY": (["v"], "forall(lambda q: implies(0 <= q and "
                            "q < len(v._accesses), at(v._accesses, q)."
                            "_access_type == AccessType.READ))"),
        # property: 'scalars that every iteration unconditionally writes
        # before reading'
        "WRITTEN_FIRST_UNCOND": (["v"], "at(v._accesses, 0)._access_type == "
                                 "AccessType.WRITE and "
                                 "getattr(at(v._accesses, 0), '$uncond')"),
        # recorded known classes
        "K_COND_FIRST_WRITE": (["v"], "at(v._accesses, 0)._access_type == "
                               "AccessType.WRITE and not "
                               "getattr(at(v._accesses, 0), '$uncond')"),
        "K_READWRITE_FIRST": (["v"], "at(v._accesses, 0)._access_type == "
                              "AccessType.READWRITE"),
    })
    cs = []
    c = Contract(
        f"{DT}:DependencyTools._is_scalar_parallelisable",
        params={"self": "DependencyTools",
                "var_info": "SingleVariableAccessInfo"},
        requires=[("wf", "AWF(var_info)")], returns="bool",
        ensures=[
            ("safe_outside_known_classes",
             "implies(result and not K_COND_FIRST_WRITE(var_info) and "
             "not K_READWRITE_FIRST(var_info), READONLY(var_info) or "
             "WRITTEN_FIRST_UNCOND(var_info))"),
            ("first_write_is_unconditional",
             "implies(result and K_COND_FIRST_WRITE(var_info), "
             "READONLY(var_info) or WRITTEN_FIRST_UNCOND(var_info))"),
            ("call_argument_first_is_not_a_write",
             "implies(result and K_READWRITE_FIRST(var_info), "
             "READONLY(var_info) or WRITTEN_FIRST_UNCOND(var_info))"),
        ],
        raises={}, modifies=[],
        covers=[("yes", "result"), ("no", "not result")])
    uni.contracts["DependencyTools._is_scalar_parallelisable"] = c
    cs.append(c)

    # ----------------------------------------------------- _independent_0_var
    NEQ = z3.Function("never_equal_answer", Ref, Ref, z3.BoolSort())

    def h_never_equal(it, selfv, args, kw, st, fr):
        return VBool(NEQ(it.to_z3(args[0]), it.to_z3(args[1])))
    uni.method_hooks["SymbolicMaths.never_equal"] = h_never_equal
    uni.method_hooks["SymbolicMaths.get"] = \
        lambda it, s, a, k, st, fr: VRef(z3.Const("the_symbolic_maths", Ref),
                                         "SymbolicMaths")
    uni.axioms.append(z3.Const("the_symbolic_maths", Ref) != NULLC)
    uni.consts["never_equal"] = VFunc("hook", fn=lambda it, a, k, st, fr: (
        VBool(NEQ(it.to_z3(a[0]), it.to_z3(a[1])))))
    uni.note_assumption(
        "SymbolicMaths.never_equal is used through its answer (its own "
        "contract is C17's); _add_message has no effect on the contracts")
    c = Contract(
        f"{DT}:DependencyTools._independent_0_var",
        params={"index_exp1": "Node", "index_exp2": "Node"}, returns="bool",
        ensures=[("only_if_never_equal",
                  "result == never_equal(index_exp1, index_exp2)")],
        raises={}, modifies=[],
        covers=[("yes", "result"), ("no", "not result")])
    uni.contracts["DependencyTools._independent_0_var"] = c
    cs.append(c)
    # ------------------------------------------------ _get_dependency_distance
    uni.extra_subclasses.update({"SymInteger": ["SymInteger", "SymZero"]})
    WRITER = z3.Const("the_sympy_writer", Ref)
    SYM = z3.Function("sympy_symbol", STR, Ref)
    EXPRS = z3.Function("sympy_expressions_of", Ref, Ref)
    SUBS = z3.Function("sympy_subs", Ref, Ref, Ref)
    ADD = z3.Function("sympy_add", Ref, Ref, Ref)
    SOLVE = z3.Function("solve_equal_for", Ref, Ref, Ref, Ref)
    AL0 = z3.Const("H0_$alloc", z3.ArraySort(Ref, z3.BoolSort()))

    def construct_hook(it, cname, args, kw, st, fr):
        if cname == "SymPyWriter":
            return VRef(WRITER, "SymPyWriter")
        return None
    uni.construct_hook = construct_hook
    uni.axioms.append(WRITER != NULLC)
    uni.axioms.append(z3.Select(AL0, WRITER))

    def h_writer_call(it, selfv, args, kw, st, fr):
        if it.dec.branch(st, fresh("raises_VisitorError", z3.BoolSort())):
            raise PyRaise(VExc("VisitorError"))
        lst = VRef(EXPRS(args[0].e), "list", "SymExpr")
        st.assume(z3.And(lst.e != NULLC, z3.Select(AL0, lst.e),
                         it.length(lst, st) == 2,
                         z3.Select(it.list_items(lst, st), 0) != NULLC,
                         z3.Select(it.list_items(lst, st), 1) != NULLC))
        return lst

    def term_attr(it, obj, attr, st, fr):
        path = tuple(obj.args) + (attr,)
        if path == ("sympy", "Symbol"):
            def mk(it2, a, k, st2, fr2):
                # the helper unknown must not capture a program variable:
                # its name is not a key of the writer's type map
                m = it2.getattr(VRef(WRITER, "WriterObj"), "type_map", st2,
                                fr2)
                it2.oblige(fr2, st2, "callpre", "helper_symbol.fresh_name",
                           z3.Not(z3.Select(it2.d_dom(m, st2), a[0].e)))
                return VRef(SYM(a[0].e), "SymExpr")
            return VFunc("hook", fn=mk)
        if path == ("sympy", "Integer"):
            return VClass("SymInteger")
        return VTerm("ns", list(path))
    uni.term_attr = term_attr
    uni.consts["sympy"] = VTerm("ns", ["sympy"])
    uni.consts["SymInteger"] = VClass("SymInteger")

    def binop_hook(it, op, a, b, st, fr):
        if isinstance(a, VRef) and isinstance(b, VRef):
            return VRef(ADD(a.e, b.e), "SymExpr")
        return None
    uni.binop_hook = binop_hook

    def h_subs(it, selfv, args, kw, st, fr):
        r = SUBS(selfv.e, args[0].e)
        st.assume(r != NULLC)
        return VRef(r, "SymExpr")

    def h_solve(it, selfv, args, kw, st, fr):
        if it.dec.branch(st, fresh("independent", z3.BoolSort())):
            return VStr("independent")
        r = SOLVE(args[0].e, args[1].e, args[2].e)
        st.assume(z3.And(r != NULLC, z3.Select(AL0, r)))
        sols = VRef(r, "set", "SymExpr")
        # members of the solution set are objects
        x = z3.Const("solx", Ref)
        st.assume(z3.ForAll([x], z3.Implies(
            z3.Select(it.s_arr(sols, st), x), x != NULLC)))
        return sols
    uni.method_hooks.update({
        "SymPyWriter.__call__": h_writer_call,
        "SymPyWriter.type_map": field_hook("type_map"),
        "SymExpr.subs": h_subs,
        "SymbolicMaths.solve_equal_for": h_solve,
    })
    uni.note_assumption(
        "sympy objects and calls (SymPyWriter(...), Symbol, subs, +, "
        "solve_equal_for, free_symbols, str()) are uninterpreted functions; "
        "the property module only relies on: the type map is a finite dict "
        "(ghost bound B on the helper names it contains)")
    uni.consts["NAME"] = VFunc("hook", fn=lambda it, a, k, st, fr: VStr(
        z3.Concat(z3.StringVal("d"), it.bi_str([a[0]], {}, st, fr).e,
                  z3.StringVal("_"), a[1].e)))
    uni.consts["MAP"] = VFunc("hook", fn=lambda it, a, k, st, fr: it.getattr(
        VRef(WRITER, "WriterObj"), "type_map", st, fr))
    c = Contract(
        f"{DT}:DependencyTools._get_dependency_distance",
        params={"var_name": "str", "index_read": "Node",
                "index_written": "Node"},
        ghost={"B": "int"},
        requires=[("map", "MAP() is not None and forall(lambda k: implies("
                          "k in MAP(), MAP()[k] is not None), 'str')"),
                  # the type map is finite: beyond some B no helper name
                  # d<k>_<var> is taken
                  ("finite", "B >= 1 and forall(lambda k: implies(k >= B, "
                             "not (NAME(k, var_name) in MAP())))")],
        returns="SymExpr",
        ensures=[("integer_distance_only",
                  "implies(result is not None, "
                  "isinstance(result, SymInteger))")],
        raises={}, modifies=["$len", "$items.ref", "$dom.ref",
                             "$map.ref.ref", "$card"],
        covers=[("none", "result is None"), ("some", "result is not None")])
    uni.contracts["DependencyTools._get_dependency_distance"] = c
    uni.loopspecs["DependencyTools._get_dependency_distance"] = {
        0: LoopSpec(invariants=[
            ("heap", "unchanged_since_head('$dom.str', '$map.str.ref')")],
            modifies=[]),
        1: LoopSpec(invariants=[
            ("name", "idx >= 1 and ((idx == 1 and d_var_name == 'd_' + "
                     "var_name) or (idx >= 2 and "
                     "d_var_name == NAME(idx - 1, var_name)))"),
            ("heap", "unchanged_since_head('$dom.str', '$map.str.ref')")],
            modifies=[], decreases="B + 1 - idx"),
    }
    cs.append(c)
    return cs


TRUSTED = [
    "pyvc VC generator and z3",
    "the abstract access view (C11 link assumed) with the ghost attribute "
    "'unconditional'",
    "NOT under contract: _partition, _is_loop_carried_dependency, "
    "_array_access_parallelisable, can_loop_be_parallelised (the array "
    "rule), and the soundness of the sympy translation for '/', MOD, '**' "
    "(C17's findings are inherited)",
]
EXPLANATION = (
    "_is_scalar_parallelisable answers True only for read-only scalars or "
    "scalars whose first access is an unconditional write (outside two "
    "recorded known classes); _independent_0_var answers True exactly on a "
    "never_equal answer; the helper-name loop of _get_dependency_distance "
    "terminates (variant) -- see the fix recorded for it.")


def replay(name, ob, model, uni):
    from realise import C08 as R
    return R.run(name)


def replay_known(k, uni):
    kid = k.get("id", "")
    if kid.startswith("perm-"):
        from realise import perm_model as P
        body = P.loops()[kid[len("perm-"):]]
        return P.run_case(kid[len("perm-"):], body)[0] == "differs"
    from realise import C08 as R
    return R.known(kid)


def extra(uni, tier, seed):
    """the never_equal contract of C17 is part of the chain
    can_loop_be_parallelised -> _independent_0_var -> never_equal: its VCs
    are generated and discharged here as well"""
    import hashlib
    from pyvc.runner import Extra
    from pyvc.extract import Repo
    from pyvc.interp import Universe
    from pyvc.verify import verify_function
    from pyvc.smt import _solve
    from contracts import C17
    u2 = Universe(Repo())
    u2.kf_classes = {}
    c = [c for c in C17.build(u2) if c.name.endswith("never_equal")][0]
    rep = verify_function(u2, c)
    out, n_ok = [], 0
    for ob in rep.obligations:
        text = ob.smt2()
        _, r, _, _ = _solve((hashlib.sha256(text.encode()).hexdigest(), text,
                             20000, True))
        if r == "unsat":
            n_ok += 1
        else:
            out.append(Extra("C17:" + ob.name, False, f"solver: {r}",
                             kind="VC of SymbolicMaths.never_equal",
                             undecided=(r != "sat"),
                             replay=_never_equal_replay(ob.name, r)))
    for k, v in u2.repo.used.items():
        uni.repo.used[k] = v
    # BOUNDED (never counted as proved): permutation model
    from realise import perm_model as P
    n_perm = 0
    for cid, verdict, detail, src in P.cases():
        if verdict == "differs":
            out.append(Extra(
                f"bounded#iteration-order[{cid}]", False, detail[:300],
                bounded=True, kind="bounded run-time contract: iterations "
                "of a loop reported parallelisable executed in other orders",
                replay={"confirmed": True, "case": cid,
                        "input": {"source": src}, "observed": detail}))
        elif verdict == "equal":
            n_perm += 1
    out.append(Extra("bounded#iteration-order", True,
                     f"{n_perm} loops reported parallelisable give the "
                     "serial arrays in every order tried (38 loops asked)",
                     kind="bounded run-time contract: reversed and shuffled "
                          "iteration orders with privatised scalars",
                     count=n_perm, bounded=True))
    out.append(Extra("C17:SymbolicMaths.never_equal#all",
                     bool(out) or (n_ok > 0 and not rep.unsupported),
                     f"{n_ok} obligations discharged", kind="VCs of the "
                     "never_equal contract (shared with C17)", count=n_ok,
                     undecided=bool(rep.unsupported)))
    return out


def _never_equal_replay(obname, solver):
    rp = {"confirmed": False, "obligation": obname, "solver": solver}
    if "never_equal" in obname:
        from realise import C17 as R17
        got = R17.never_equal_cases()
        if got.get("confirmed"):
            got.update({"obligation": obname, "solver": solver})
            return got
    return rp
