"""C16 — symbol tables keep names unique and lookups scoped.

Contracts on the real bodies of SymbolTable.add / remove / swap /
rename_symbol / next_available_name / lookup / get_symbols over the view
  names : dict[str, Symbol]   (_symbols)      tags : dict[str, Symbol] (_tags)
with the representation invariant
  INV(T) : every key k of T._symbols maps to a non-null symbol whose
           lower-cased name is k        (=> names unique case-insensitively)
"""
import z3
from pyvc.interp import Contract, LoopSpec
from pyvc.values import VRef, VFunc, VBool, VStr, NONE, Ref, STR, VExc
from pyvc.state import fresh, PyRaise

ID = "C16"
LEVEL = "proof"
ST = "psyir/symbols/symbol_table.py"
NULLC = z3.Const("null", Ref)
HEAP = "'$dom.str', '$map.str.ref', '_name', '$card'"


def build(uni):
    uni.fields.update({
        "_symbols": "dict[str,Symbol]", "_tags": "dict[str,Symbol]",
        "_name": "str", "_node": "Node",
        "$is_import": "bool", "$is_unresolved": "bool",
        "$is_argument": "bool", "$is_commonblock": "bool",
    })
    AL0 = z3.Const("H0_$alloc", z3.ArraySort(Ref, z3.BoolSort()))
    GT = z3.Function("all_tags_of", Ref, Ref)
    GS = z3.Function("all_symbols_of", Ref, Ref)
    PARENT = z3.Function("parent_table_of", Ref, Ref)
    CBS = z3.Function("codeblocks_of", Ref, Ref)
    CBN = z3.Function("codeblock_symbol_names", Ref, Ref)
    IMPS = z3.Function("symbols_imported_from", Ref, Ref, Ref)

    # the lists/dicts denoted by these functions exist at entry (they are
    # never the objects a verified function allocates)
    _x, _y = z3.Consts("ex ey", Ref)
    for f1 in (GT, GS, CBS, CBN, PARENT):
        uni.axioms.append(z3.ForAll([_x], z3.Select(AL0, f1(_x)),
                                    patterns=[f1(_x)]))
    uni.axioms.append(z3.ForAll([_x, _y], z3.Select(AL0, IMPS(_x, _y)),
                                patterns=[IMPS(_x, _y)]))

    def entry_obj(ref, cls, elem=None):
        def mk(it, st):
            st.assume(z3.Select(AL0, ref))
            return VRef(ref, cls, elem)
        return mk

    def h_get_tags(it, selfv, args, kw, st, fr):
        r = GT(selfv.e)
        st.assume(z3.And(r != NULLC, z3.Select(AL0, r)))
        return VRef(r, "dict", ("str", "Symbol"))

    def h_get_symbols(it, selfv, args, kw, st, fr):
        r = GS(selfv.e)
        st.assume(z3.And(r != NULLC, z3.Select(AL0, r)))
        d = VRef(r, "dict", ("str", "Symbol"))
        # innermost scope wins: every entry of this table is in the merged
        # view with the same symbol (proved for get_symbols below)
        own = it.getattr(VRef(selfv.e, "TableObj"), "_symbols", st, fr)
        k = z3.Const("gsk", STR)
        st.assume(z3.ForAll([k], z3.Implies(
            z3.Select(it.d_dom(own, st), k),
            z3.And(z3.Select(it.d_dom(d, st), k),
                   z3.Select(it.d_map(d, st), k) ==
                   z3.Select(it.d_map(own, st), k)))))
        return d

    def ghost_bool(field):
        def h(it, selfv, args, kw, st, fr):
            return it.getattr(VRef(selfv.e, "SymObj"), field, st, fr)
        return h

    def h_node(it, selfv, args, kw, st, fr):
        return it.getattr(VRef(selfv.e, "TableObj"), "_node", st, fr)

    def h_walk(it, selfv, args, kw, st, fr):
        r = CBS(selfv.e)
        st.assume(z3.And(r != NULLC, z3.Select(AL0, r)))
        lst = VRef(r, "list", "CodeBlock")
        st.assume(it.length(lst, st) >= 0)
        i = z3.Int("cbi")
        st.assume(z3.ForAll([i], z3.Implies(
            z3.And(0 <= i, i < it.length(lst, st)),
            z3.Select(it.list_items(lst, st), i) != NULLC)))
        return lst

    def h_cb_names(it, selfv, args, kw, st, fr):
        r = CBN(selfv.e)
        st.assume(z3.And(r != NULLC, z3.Select(AL0, r)))
        lst = VRef(r, "list", "str")
        st.assume(it.length(lst, st) >= 0)
        return lst

    def h_imported_from(it, selfv, args, kw, st, fr):
        r = IMPS(selfv.e, args[0].e)
        st.assume(z3.And(r != NULLC, z3.Select(AL0, r)))
        lst = VRef(r, "list", "Symbol")
        st.assume(it.length(lst, st) >= 0)
        return lst

    def h_validate_routine(it, selfv, args, kw, st, fr):
        if it.dec.branch(st, fresh("raises_ValueError", z3.BoolSort())):
            raise PyRaise(VExc("ValueError"))
        return NONE

    def h_cfg(it, selfv, args, kw, st, fr):
        st.assume(z3.Const("the_config", Ref) != NULLC)
        return VRef(z3.Const("the_config", Ref), "ConfigObj")
    uni.fields["psyir_root_name"] = "str"

    def h_parent(it, selfv, args, kw, st, fr):
        r = PARENT(selfv.e)
        st.assume(z3.Select(AL0, r))
        return VRef(r, "SymbolTable")

    uni.method_hooks.update({
        "SymbolTable.get_tags": h_get_tags,
        "SymbolTable.node": h_node,
        "Symbol.is_import": ghost_bool("$is_import"),
        "Symbol.is_unresolved": ghost_bool("$is_unresolved"),
        "Symbol.is_argument": ghost_bool("$is_argument"),
        "Symbol.is_commonblock": ghost_bool("$is_commonblock"),
        "Node.walk": h_walk,
        "CodeBlock.get_symbol_names": h_cb_names,
        "SymbolTable.symbols_imported_from": h_imported_from,
        "SymbolTable._validate_remove_routinesymbol": h_validate_routine,
        "Config.get": h_cfg,
        "SymbolTable.parent_symbol_table": h_parent,
    })
    uni.method_hooks["SymbolTable.get_symbols"] = h_get_symbols
    uni.consts["OrderedDict"] = VFunc(
        "hook", fn=lambda it, a, k, st, fr: it.new_container(
            st, "dict", ("str", "Symbol"), "odict"))
    uni.note_assumption(
        "assumed models (engine hooks): get_tags() is a dict that is a "
        "function of the table; Symbol.is_import/is_unresolved/is_argument/"
        "is_commonblock are ghost booleans of the symbol; node.walk("
        "CodeBlock), CodeBlock.get_symbol_names(), symbols_imported_from() "
        "are lists that are functions of their arguments; "
        "_validate_remove_routinesymbol may raise ValueError without "
        "changing anything; parent_symbol_table() is a function of the "
        "table (the node-chain walk is not verified); str.lower is an "
        "uninterpreted idempotent function")
    uni.consts["ALLTAGS"] = VFunc("hook", fn=lambda it, a, k, st, fr: VRef(
        GT(a[0].e), "dict", ("str", "Symbol")))
    uni.consts["ALLSYMS"] = VFunc("hook", fn=lambda it, a, k, st, fr: VRef(
        GS(a[0].e), "dict", ("str", "Symbol")))
    uni.consts["PARENT"] = VFunc("hook", fn=lambda it, a, k, st, fr: VRef(
        PARENT(a[0].e), "SymbolTable"))
    uni.consts["lower"] = VFunc("uf", name="str_lower", argtags=["str"],
                                ret="str")
    uni.consts["CBLOCKS"] = VFunc("hook", fn=lambda it, a, k, st, fr: VRef(
        CBS(a[0].e), "list", "CodeBlock"))
    uni.consts["CBNAMES"] = VFunc("hook", fn=lambda it, a, k, st, fr: VRef(
        CBN(a[0].e), "list", "str"))
    uni.consts["getattr"] = VFunc("hook", fn=lambda it, a, k, st, fr: (
        it.from_field(it.concrete(a[1]), st.read(
            it.concrete(a[1]), a[0].e, uni.field_tag(it.concrete(a[1]))))))
    uni.preds.update({
        "INV": (["t"], """
            t is not None and t._symbols is not None and t._tags is not None
            and forall(lambda k: implies(k in t._symbols,
                t._symbols[k] is not None and
                lower(t._symbols[k]._name) == k), 'str')
            """),
        "KEY": (["s"], "lower(s._name)"),
        "TAGGED": (["g"], "g is not None and len(g) > 0"),
        # the symbol is used by name inside a CodeBlock of the scope
        "INCB": (["t", "s"], """
            t._node is not None and exists(lambda i, j: 0 <= i and
                i < len(CBLOCKS(t._node)) and 0 <= j and
                j < len(CBNAMES(at(CBLOCKS(t._node), i))) and
                lower(at(CBNAMES(at(CBLOCKS(t._node), i)), j)) == KEY(s))
            """),
        "SAMEMAP": (["t"], "forall(lambda k: (k in t._symbols) == "
                           "old(k in t._symbols) and implies(k in t._symbols,"
                           " t._symbols[k] is old(t._symbols[k])), 'str')"),
    })
    cs = []

    # ------------------------------------------------------------------ add
    c = Contract(
        f"{ST}:SymbolTable.add",
        params={"self": "SymbolTable", "new_symbol": "Symbol", "tag": "str"},
        requires=[("inv", "INV(self)"),
                  ("distinct", "self._symbols is not self._tags")],
        ensures=[
            ("inv", "INV(self)"),
            ("added", "KEY(new_symbol) in self._symbols and "
                      "self._symbols[KEY(new_symbol)] is new_symbol"),
            ("others", "forall(lambda k: implies(k != KEY(new_symbol), "
                       "(k in self._symbols) == old(k in self._symbols) and "
                       "implies(k in self._symbols, self._symbols[k] is "
                       "old(self._symbols[k]))), 'str')"),
            ("tagged", "implies(TAGGED(tag), tag in self._tags and "
                       "self._tags[tag] is new_symbol)"),
            ("tags_others", "forall(lambda g: implies(not (TAGGED(tag) and "
                            "g == tag), (g in self._tags) == "
                            "old(g in self._tags) and implies(g in "
                            "self._tags, self._tags[g] is "
                            "old(self._tags[g]))), 'str')"),
            ("name_kept", "unchanged('_name')"),
        ],
        raises={"KeyError": ("iff",
                             "new_symbol is not None and "
                             "isinstance(new_symbol, Symbol) and ("
                             "KEY(new_symbol) in self._symbols or "
                             "(TAGGED(tag) and tag in ALLTAGS(self)))"),
                "InternalError": ("iff", "new_symbol is None or not "
                                  "isinstance(new_symbol, Symbol)")},
        on_raise=[("unchanged", f"unchanged({HEAP})")],
        modifies=["$dom.str", "$map.str.ref", "$card"],
        covers=[("ok", "True"), ("clash", "raise:KeyError")])
    uni.contracts["SymbolTable.add"] = c
    cs.append(c)

    # --------------------------------------------------------------- remove
    c = Contract(
        f"{ST}:SymbolTable.remove",
        params={"self": "SymbolTable", "symbol": "Symbol"},
        requires=[("inv", "INV(self)"),
                  ("distinct", "self._symbols is not self._tags")],
        ensures=[
            ("inv", "INV(self)"),
            ("was_ours", "old(KEY(symbol) in self._symbols and "
                         "self._symbols[KEY(symbol)] is symbol)"),
            ("removed", "not (KEY(symbol) in self._symbols)"),
            ("others", "forall(lambda k: implies(k != KEY(symbol), "
                       "(k in self._symbols) == old(k in self._symbols) and "
                       "implies(k in self._symbols, self._symbols[k] is "
                       "old(self._symbols[k]))), 'str')"),
            ("untagged", "forall(lambda g: (g in self._tags) == "
                         "(old(g in self._tags) and "
                         "old(self._tags[g]) is not symbol) and "
                         "implies(g in self._tags, self._tags[g] is "
                         "old(self._tags[g])), 'str')"),
        ],
        raises={"TypeError": "symbol is None or "
                             "not isinstance(symbol, Symbol)",
                "NotImplementedError": None,
                "KeyError": "not (KEY(symbol) in self._symbols)",
                "InternalError": "self._symbols[KEY(symbol)] is not symbol",
                "ValueError": None},
        on_raise=[("unchanged", f"unchanged({HEAP})")],
        modifies=["$dom.str", "$map.str.ref", "$card"],
        covers=[("ok", "True"), ("missing", "raise:KeyError")])
    uni.contracts["SymbolTable.remove"] = c
    uni.loopspecs["SymbolTable.remove"] = {0: LoopSpec(
        invariants=[
            ("syms", "SAMEMAP(self) and unchanged('_name')"),
            ("seen", "forall(lambda g: implies(g in _seen, "
                     "(g in self._tags) == (entry(self._tags[g]) is not "
                     "symbol)), 'str')"),
            ("rest", "forall(lambda g: implies(not (g in _seen), "
                     "(g in self._tags) == entry(g in self._tags)), 'str')"),
            ("vals", "forall(lambda g: implies(g in self._tags, "
                     "self._tags[g] is entry(self._tags[g])), 'str')"),
            ("objs", "self._symbols is entry(self._symbols) and "
                     "self._tags is entry(self._tags)")],
        modifies=["$dom.str", "$card"])}
    cs.append(c)

    # ----------------------------------------------------------------- swap
    c = Contract(
        f"{ST}:SymbolTable.swap",
        params={"self": "SymbolTable", "old_symbol": "Symbol",
                "new_symbol": "Symbol"},
        requires=[("inv", "INV(self)"),
                  ("distinct", "self._symbols is not self._tags")],
        ensures=[
            ("inv", "INV(self)"),
            ("swapped", "self._symbols[KEY(new_symbol)] is new_symbol and "
                        "KEY(new_symbol) == KEY(old_symbol)"),
            ("others", "forall(lambda k: implies(k != KEY(new_symbol), "
                       "(k in self._symbols) == old(k in self._symbols) and "
                       "implies(k in self._symbols, self._symbols[k] is "
                       "old(self._symbols[k]))), 'str')"),
        ],
        raises={"TypeError": None, "SymbolError": None, "KeyError": None,
                "NotImplementedError": None, "InternalError": None,
                "ValueError": None},
        on_raise=[("unchanged", f"unchanged({HEAP})")],
        modifies=["$dom.str", "$map.str.ref", "$card"],
        covers=[("ok", "True")])
    uni.contracts["SymbolTable.swap"] = c
    cs.append(c)

    # -------------------------------------------------------- rename_symbol
    uni.preds["BASIC"] = (["s"], "isinstance(s, ContainerSymbol) or "
                          "getattr(s, '$is_import') or "
                          "getattr(s, '$is_unresolved') or "
                          "getattr(s, '$is_argument') or "
                          "getattr(s, '$is_commonblock')")
    uni.preds["OURS"] = (["t", "s"], "s is not None and "
                         "isinstance(s, Symbol) and exists(lambda k: "
                         "k in t._symbols and t._symbols[k] is s, 'str')")
    c = Contract(
        f"{ST}:SymbolTable.rename_symbol",
        params={"self": "SymbolTable", "symbol": "Symbol", "name": "str",
                "dry_run": "bool"},
        requires=[("inv", "INV(self)"),
                  ("distinct", "self._symbols is not self._tags")],
        ensures=[
            ("inv", "INV(self)"),
            # a dry run answers for the real rename: the exception
            # conditions below ('iff') do not mention dry_run, so a dry run
            # returns normally exactly when the real rename is accepted
            ("dry_run_changes_nothing",
             f"implies(dry_run, unchanged({HEAP}))"),
            ("renamed", "implies(not dry_run, symbol._name == name and "
                        "lower(name) in self._symbols and "
                        "self._symbols[lower(name)] is symbol and "
                        "not (old(KEY(symbol)) in self._symbols))"),
            ("others", "implies(not dry_run, forall(lambda k: implies("
                       "k != lower(name) and k != old(KEY(symbol)), "
                       "(k in self._symbols) == old(k in self._symbols) and "
                       "implies(k in self._symbols, self._symbols[k] is "
                       "old(self._symbols[k]))), 'str'))"),
            ("tags_kept", "unchanged_tags(self)"),
        ],
        raises={
            "TypeError": ("iff", "symbol is None or "
                                 "not isinstance(symbol, Symbol)"),
            "ValueError": ("iff", "symbol is not None and "
                                  "isinstance(symbol, Symbol) and "
                                  "not OURS(self, symbol)"),
            "SymbolError": ("iff", "OURS(self, symbol) and (BASIC(symbol) or "
                                   "(INCB(self, symbol) and "
                                   "not (lower(name) in self._symbols)))"),
            "KeyError": ("iff", "OURS(self, symbol) and not BASIC(symbol) "
                                "and lower(name) in self._symbols")},
        on_raise=[("unchanged", f"unchanged({HEAP})")],
        modifies=["$dom.str", "$map.str.ref", "$card", "_name"],
        covers=[("real", "not dry_run"), ("dry", "dry_run"),
                ("refused", "raise:SymbolError")])
    uni.preds["unchanged_tags"] = (["t"], """
        forall(lambda g: (g in t._tags) == old(g in t._tags) and
               implies(g in t._tags, t._tags[g] is old(t._tags[g])), 'str')
        """)
    uni.contracts["SymbolTable.rename_symbol"] = c
    uni.loopspecs["SymbolTable.rename_symbol"] = {0: LoopSpec(
        invariants=[
            ("none_yet", "forall(lambda i, j: implies(0 <= i and i < _k and "
                         "0 <= j and j < len(CBNAMES(at(_iter, i))), "
                         "lower(at(CBNAMES(at(_iter, i)), j)) != old_name))"),
            ("iter", "_iter is CBLOCKS(self._node)")],
        modifies=[])}
    cs.append(c)

    # -------------------------------------------------- next_available_name
    c = Contract(
        f"{ST}:SymbolTable.next_available_name",
        params={"self": "SymbolTable", "root_name": "str",
                "shadowing": "bool", "other_table": "SymbolTable"},
        requires=[("inv", "INV(self)"),
                  ("other", "implies(other_table is not None, "
                            "INV(other_table))")],
        returns="str",
        ensures=[
            ("fresh_here", "not (lower(result) in self._symbols)"),
            ("fresh_in_scopes", "implies(not shadowing, "
                                "not (lower(result) in ALLSYMS(self)))"),
            ("fresh_in_other", "implies(other_table is not None, "
                               "not (lower(result) in other_table._symbols))"),
            ("nothing_changed", f"unchanged({HEAP})"),
        ],
        raises={"TypeError": "other_table is not None and "
                             "not isinstance(other_table, SymbolTable)"},
        modifies=[],
        covers=[("ok", "True"),
                ("other", "other_table is not None and not shadowing")])
    uni.contracts["SymbolTable.next_available_name"] = c
    uni.loopspecs["SymbolTable.next_available_name"] = {0: LoopSpec(
        invariants=[("heap", f"unchanged_since_head({HEAP}, '$set.str')")],
        modifies=[])}
    cs.append(c)

    # --------------------------------------------------------------- lookup
    c = Contract(
        f"{ST}:SymbolTable.lookup",
        params={"self": "SymbolTable", "name": "str", "visibility": "none",
                "scope_limit": "none"},
        requires=[("inv", "INV(self)")],
        returns="Symbol",
        ensures=[
            ("found", "lower(name) in ALLSYMS(self) and "
                      "result is ALLSYMS(self)[lower(name)]"),
            ("innermost", "implies(lower(name) in self._symbols, "
                          "result is self._symbols[lower(name)])"),
        ],
        raises={"KeyError": ("iff", "not (lower(name) in ALLSYMS(self))")},
        on_raise=[("unchanged", f"unchanged({HEAP})")],
        modifies=[],
        covers=[("found", "True"), ("missing", "raise:KeyError")])
    uni.contracts["SymbolTable.lookup"] = c
    cs.append(c)

    return cs


TRUSTED = [
    "pyvc VC generator and z3; dict/set models",
    "NOT under contract: merge / check_for_clashes / "
    "_add_container_symbols_from_table / _add_symbols_from_table / "
    "_handle_symbol_clash / new_symbol / deep_copy; only their building "
    "blocks (add, remove, rename_symbol incl. its dry-run promise, "
    "next_available_name) are proved; a bounded run-time contract on the "
    "real merge stands in (labelled bounded)",
    "termination of the candidate-name loop of next_available_name is not "
    "proved",
    "get_symbols()/get_tags() (merge of the scope chain) are ASSUMED: a "
    "dict that contains every entry of the table itself with the same "
    "symbol (inner scopes win); an attempt to prove get_symbols left two "
    "obligations undecided by z3 within budget and was withdrawn",
]
EXPLANATION = (
    "Representation invariant (each key is the lower-cased name of its "
    "symbol, hence names unique case-insensitively) preserved by add, "
    "remove, swap, rename_symbol; each raises exactly under its documented "
    "conditions and then leaves names, keys and tags unchanged; a dry-run "
    "rename returns normally only if the real rename would be accepted; "
    "next_available_name returns a name whose lower-case form is in neither "
    "this table, its enclosing scopes (unless shadowing) nor the other "
    "table; lookup returns the symbol of the innermost scope that has the "
    "name (given the assumed merged view of the scope chain).")


def extra(uni, tier, seed):
    from pyvc.runner import Extra
    from realise import C16 as R
    rp = R.search(tier)
    return [Extra("bounded#symbol-table-runtime-contract",
                  not rp["confirmed"], detail=str(rp)[:300],
                  kind="bounded run-time contract on the real SymbolTable "
                       "(merge atomicity/completeness, fresh names with "
                       "mixed case, scoped lookup)",
                  replay=rp, count=rp.get("cases", 1), bounded=True,
                  samples=rp.get("samples", []))]


def replay(name, ob, model, uni):
    from realise import C16 as R
    return R.search("thorough")


def replay_known(k, uni):
    from realise import C16 as R
    if k.get("id") == "merge-not-atomic":
        return R.merge_specialises_before_refusing()
    return None
