"""Forward symbolic execution of real function bodies (Python ast) with
contracts; produces named obligations."""
import ast
import z3
from .values import (Ref, NULL, INT, BOOL, STR, sort_of, V, VInt, VBool, VStr,
                     VRef, VNone, NONE, VTuple, VPy, VClass, VExc, VFunc,
                     VTerm, VEnum, EnumDesc, VAtom, ATOM)
from .state import (State, Decider, Obligation, Unsupported, PathEnd, PyRaise,
                    fresh, fresh_name)
from . import models
from .common import *
from .common import _Return, _Break, _Continue
from .builtins import BuiltinsMixin
from .stmts import StmtMixin
from .dicts import DictMixin
from .values import split_top, is_concrete

class LoopSpec:
    def __init__(self, invariants=(), modifies=None, decreases=None,
                 unroll=None, assigns=None, exhaust_lemma=None):
        self.exhaust_lemma = exhaust_lemma   # (description, expr-string)
        self.invariants = list(invariants)   # [(label, expr-string)]
        self.modifies = modifies             # heap fields havocked (None=auto)
        self.decreases = decreases           # expr-string or None
        self.unroll = unroll                 # bounded stand-in
        self.assigns = assigns               # locals havocked (None=auto)


class Contract:
    def __init__(self, func, params=None, requires=(), ensures=(),
                 raises=None, on_raise=(), modifies=(), loops=None,
                 locals=None, returns=None, assumed=False, inline=(),
                 pure=False, name=None, fields=None, ghost=None,
                 allocates=False, call_ensures=None, call_raises=None,
                 covers=()):
        self.func = func
        self.params = params or {}
        self.requires = _lab(requires, "pre")
        self.ensures = _lab(ensures, "post")
        self.raises = raises or {}
        self.on_raise = _lab(on_raise, "onraise")
        self.modifies = list(modifies)
        self.loops = loops or {}
        self.locals = locals or {}
        self.returns = returns
        self.assumed = assumed
        self.pure = pure
        self.name = name or func.split(":")[1]
        self.fields = fields or {}
        self.ghost = ghost or {}
        self.allocates = allocates
        # weaker view used at call sites (subset of ensures labels /
        # replacement raise conditions); None = the full contract
        self.call_ensures = call_ensures
        self.call_raises = call_raises
        # reachability checks (anti-vacuity): each (label, expr) must be
        # satisfiable at some normal exit ('raise:<Exc>' = that exception
        # must be reachable)
        self.covers = _lab(covers, "cover")


def literal_value(node):
    """V for a literal expression or re.compile(<str literal>[, flags=re.I])"""
    try:
        return VPy(ast.literal_eval(node)) if not isinstance(
            ast.literal_eval(node), (str, int, bool)) else \
            {str: VStr, bool: VBool, int: VInt}[type(ast.literal_eval(node))](
                ast.literal_eval(node))
    except (ValueError, SyntaxError, TypeError):
        pass
    if isinstance(node, ast.Call) and isinstance(node.func, ast.Attribute) \
            and node.func.attr == "compile" and \
            isinstance(node.func.value, ast.Name) and \
            node.func.value.id == "re" and node.args and \
            isinstance(node.args[0], ast.Constant) and \
            isinstance(node.args[0].value, str):
        flags = 0
        import re
        for kw in node.keywords:
            if kw.arg == "flags":
                names = [n.attr for n in ast.walk(kw.value)
                         if isinstance(n, ast.Attribute)]
                for n in names:
                    flags |= {"I": re.I, "IGNORECASE": re.I}.get(n, 0)
        if len(node.args) > 1:
            return None
        return VPy(("regex", node.args[0].value, flags))
    return None


def _lab(items, base):
    """(label, expr[, lemmas]) triples; lemmas are proved first, then
    assumed while proving expr (explicit instantiation hints)."""
    out = []
    for i, it in enumerate(items):
        if isinstance(it, str):
            out.append((f"{base}{i}", it, ()))
        else:
            out.append((it[0], it[1], tuple(it[2]) if len(it) > 2 else ()))
    return out


class Universe:
    """Everything shared by the functions of one property: the repo index,
    field declarations, class ids, predicates, contracts, callbacks."""

    def __init__(self, repo):
        self.repo = repo
        self.fields = {}        # field name -> tag or (tag, cls[, elem])
        self.contracts = {}     # 'Class.method' / 'func' -> Contract
        self.preds = {}         # name -> (params, expr-string)
        self.callbacks = {}     # field name -> (uf name, [arg tags], ret tag)
        self.ufs = {}           # name -> z3 Function
        self.class_ids = {}
        self.enums = {}         # python Enum class name -> EnumDesc
        self.inline_ok = set()  # methods allowed to be inlined although virtual
        self.opaque = {}        # 'Class.method' -> (ret tag) pure uninterpreted
        self.axioms = []        # z3 formulas assumed in every obligation
        self.consts = {}        # global names -> V
        self.module_of = {}     # function spec -> relpath
        self.assumptions = []   # textual list for evidence
        self.free_ctors = set()
        self.list_classes = {}  # class deriving from list -> element tag
        self.loopspecs = {}     # 'Class.method' -> {ordinal: LoopSpec}
        self.callback_owner = {}  # callback field -> field naming its owner
        self.ghost_preds = set()  # predicates that mention ghost parameters
        self.local_types = {}   # 'Class.method' -> {local name: type tag}
        self.method_hooks = {}  # 'Class.method' -> fn(it, self, args, kw, st, fr)
        self.extra_subclasses = {}   # external class name -> [subclass names]
        self.records = {}    # pseudo class -> [(z3 accessor, tag)]: elements
        #                      of that class are immutable tuples
        self.prop_hooks = {}    # 'PseudoClass.attr' -> property get/set hook
        self._iconsts = {}

    def field_tag(self, name):
        """z3 sort tag of a declared field (type tags: int/bool/str/Class/
        list[T]/set[T]/dict[K,V])."""
        d = self.fields.get(name)
        if d is None:
            return None
        return base_tag(d)

    def instance_const(self, cname, attr, interp):
        """Attributes assigned a literal (or re.compile of literals) exactly
        once, in __init__, and nowhere else in the class: object constants."""
        key = (cname, attr)
        if key in self._iconsts:
            return self._iconsts[key]
        val = None
        for c in self.repo.mro(cname):
            info = self.repo.cls(c)
            if info is None or "__init__" not in info.methods:
                continue
            stores = []
            for node in ast.walk(info.node):
                if isinstance(node, (ast.Assign, ast.AugAssign, ast.AnnAssign)):
                    tgts = node.targets if isinstance(node, ast.Assign) \
                        else [node.target]
                    for t in tgts:
                        if isinstance(t, ast.Attribute) and t.attr == attr \
                                and isinstance(t.value, ast.Name) and \
                                t.value.id == "self":
                            stores.append(node)
            if len(stores) != 1 or not isinstance(stores[0], ast.Assign):
                continue
            init_nodes = list(ast.walk(info.methods["__init__"]))
            if stores[0] not in init_nodes:
                continue
            val = literal_value(stores[0].value)
            if val is not None:
                self.repo.record(f"{info.relpath}:{c}.__init__", info.relpath,
                                 info.methods["__init__"])
                break
        self._iconsts[key] = val
        return val

    def note_assumption(self, text):
        if text not in self.assumptions:
            self.assumptions.append(text)

    def class_id(self, name):
        if name not in self.class_ids:
            self.class_ids[name] = len(self.class_ids) + 1
        return self.class_ids[name]

    def isinstance_expr(self, ref, cname):
        # classes outside the repository (e.g. sympy) may be declared by the
        # property module with their subclass lists
        subs = self.extra_subclasses.get(cname) or \
            self.repo.subclasses(cname) or [cname]
        return z3.Or([TYPE_OF(ref) == self.class_id(s) for s in subs])

    def uf(self, name, argtags, rettag):
        if name not in self.ufs:
            self.ufs[name] = z3.Function(
                name, *[sort_of(t) for t in argtags], sort_of(rettag))
        return self.ufs[name]

    def contract_for(self, cname, mname):
        """Contract of the method as seen from static class cname."""
        if cname is None:
            return self.contracts.get(mname)
        for c in self.repo.mro(cname):
            key = f"{c}.{mname}"
            if key in self.contracts:
                return self.contracts[key]
        return None


class Interp(BuiltinsMixin, StmtMixin, DictMixin):
    def __init__(self, uni, decider):
        self.uni = uni
        self.dec = decider
        self.obls = []
        self.covers = []
        self.depth = 0
        self.notes = []

    # ------------------------------------------------------------------
    # values from type tags
    # ------------------------------------------------------------------
    def sym(self, name, tag, st):
        """fresh symbolic value of the given type tag."""
        head, arg = tag_parts(tag)
        if head == "int":
            return VInt(fresh(name, INT))
        if head == "bool":
            return VBool(fresh(name, BOOL))
        if head == "str":
            return VStr(fresh(name, STR))
        if head == "none":
            return NONE
        if head == "atom":
            return VAtom(fresh(name, ATOM))
        if head.startswith("enum:"):
            e = fresh(name, INT)
            desc = self.uni.enums[head[5:]]
            st.assume(z3.And(0 <= e, e < len(desc.members)))
            return VEnum(desc, e)
        ref = fresh(name, Ref)
        return self.mkref(ref, tag)

    def mkref(self, ref, tag):
        head, arg = tag_parts(tag)
        if head == "list":
            return VRef(ref, "list", arg)
        if head == "set":
            return VRef(ref, head, arg)
        if head == "dict":
            k, v = split_top(arg)
            return VRef(ref, head, (k.strip(), v.strip()))
        return VRef(ref, head, self.uni.list_classes.get(head))

    def from_field(self, name, e):
        tag = self.uni.fields[name]
        if base_tag(tag) == "ref":
            return self.mkref(e, tag)
        if tag.startswith("enum:"):
            return VEnum(self.uni.enums[tag[5:]], e)
        return wrap(e)

    # ------------------------------------------------------------------
    # helpers
    # ------------------------------------------------------------------
    def oblige(self, fr, st, kind, label, goal, note=""):
        name = f"{fr.func}#{kind}:{label}"
        classes = getattr(self.uni, "kf_classes", {}).get(name)
        if classes and getattr(self, "entry_frame", None) is not None:
            # a recorded known finding: the obligation must still hold for
            # every input outside the recorded class
            inside = [self.truth(self.ev(parse_expr(c), self.entry_state,
                                         self.entry_frame), self.entry_state)
                      for c in classes]
            goal = z3.Or(inside + [goal])
        here = getattr(self.uni, "kf_classes_here", {}).get(name)
        if here:
            # class stated over the variables in scope at the obligation
            sub = Frame(fr.func, fr.cls, fr.contract, env=dict(fr.env),
                        spec=True)
            for a in ("old", "result", "entry_state", "head_state"):
                setattr(sub, a, getattr(fr, a, None))
            inside = [self.truth(self.ev(parse_expr(c), st, sub), st)
                      for c in here]
            goal = z3.Or(inside + [goal])
        ob = Obligation(fr.func, kind, label, self.uni.axioms + st.pc, goal,
                        self.dec.trace, note)
        ob.entry = dict(getattr(self, "entry_z3", {}))
        self.obls.append(ob)
        st.assume(goal)

    def truth(self, v, st):
        """z3 Bool for Python truthiness."""
        if isinstance(v, VBool):
            return v.e
        if isinstance(v, VInt):
            return v.e != 0
        if isinstance(v, VStr):
            return z3.Length(v.e) > 0
        if isinstance(v, VNone):
            return z3.BoolVal(False)
        if isinstance(v, VRef):
            if v.cls in ("dict", "set"):
                return z3.And(v.e != NULL, self.card(v, st, link=True) > 0)
            if v.cls == "list" or v.elem is not None:
                return z3.And(v.e != NULL, self.length(v, st) > 0)
            return v.e != NULL
        if isinstance(v, VTuple):
            return z3.BoolVal(len(v.items) > 0)
        if isinstance(v, VPy):
            return z3.BoolVal(bool(v.obj))
        if isinstance(v, (VClass, VFunc, VExc, VTerm)):
            return z3.BoolVal(True)
        if isinstance(v, VAtom):
            raise Unsupported("truthiness of an atom (name string)")
        if isinstance(v, VEnum):
            return z3.BoolVal(True)
        raise Unsupported(f"truthiness of {v}")

    def items_field(self, v):
        if v.elem is None:
            raise Unsupported(f"list of unknown element type: {v}")
        et = v.elem[0] if isinstance(v.elem, tuple) else v.elem
        return "$items." + base_tag(et), "arr[" + base_tag(et) + "]"

    def length(self, v, st):
        if isinstance(v, VStr):
            return z3.Length(v.e)
        if isinstance(v, VTuple):
            return z3.IntVal(len(v.items))
        if isinstance(v, VPy):
            return z3.IntVal(len(v.obj))
        if isinstance(v, VRef):
            if v.cls == "set" or v.cls == "dict":
                return self.card(v, st)
            return st.read("$len", v.e, "int")
        raise Unsupported(f"len of {v}")

    def list_items(self, v, st):
        f, tag = self.items_field(v)
        return st.read(f, v.e, tag)

    def set_list(self, v, st, items, n):
        while models.AXIOMS:
            st.assume(models.AXIOMS.pop(0))
        f, tag = self.items_field(v)
        st.write(f, v.e, items, tag)
        st.write("$len", v.e, n, "int")

    def elem_val(self, v, e):
        et = v.elem
        if isinstance(et, str) and et.startswith("enum:") and \
                et[5:] in self.uni.enums:
            return VEnum(self.uni.enums[et[5:]], e)
        if base_tag(et) != "ref":
            return wrap(e)
        rec = self.uni.records.get(et)
        if rec:
            tup = VTuple([self.mkval(f(e), t) for f, t in rec])
            tup.origin = e
            return tup
        return self.mkref(e, et)

    def heap_closure(self, st):
        """Facts about the entry heap assumed on the first allocation of a
        path: everything reachable at entry is allocated (so a fresh object
        aliases nothing that existed)."""
        if getattr(st, "closure_done", False):
            return
        st.closure_done = True
        al = z3.Const("H0_$alloc", z3.ArraySort(Ref, BOOL))
        st.assume(z3.Select(al, NULL))
        for v in getattr(self, "entry_refs", []):
            st.assume(z3.Select(al, v))
        x = z3.Const("x", Ref)
        i = z3.Int("i")
        for f, t in self.uni.fields.items():
            if base_tag(t) == "ref" and f not in self.uni.callbacks:
                h0 = z3.Const(f"H0_{f}", z3.ArraySort(Ref, Ref))
                st.assume(z3.ForAll([x], z3.Implies(
                    z3.Select(al, x), z3.Select(al, z3.Select(h0, x))),
                    patterns=[z3.Select(h0, x)]))
        it0 = z3.Const("H0_$items.ref",
                       z3.ArraySort(Ref, z3.ArraySort(INT, Ref)))
        st.assume(z3.ForAll([x, i], z3.Implies(
            z3.Select(al, x), z3.Select(al, z3.Select(z3.Select(it0, x), i))),
            patterns=[z3.Select(z3.Select(it0, x), i)]))

    def alloc(self, st, cls, elem=None, name="new"):
        self.heap_closure(st)
        r = fresh(name, Ref)
        al = st.field("$alloc", "bool")
        st.assume(r != NULL)
        st.assume(z3.Not(z3.Select(al, r)))
        st.write("$alloc", r, z3.BoolVal(True), "bool")
        if cls not in ("list", "dict", "set", None):
            st.assume(TYPE_OF(r) == self.uni.class_id(cls))
        return VRef(r, cls, elem)

    def to_z3(self, v):
        if isinstance(v, (VInt, VBool, VStr, VRef, VEnum, VAtom)):
            return v.e
        if isinstance(v, VNone):
            return NULL
        if isinstance(v, VTuple):
            # a tuple read from a record-typed list keeps the element it was
            # read from; other tuples need an encoder from the property module
            if getattr(v, "origin", None) is not None:
                return v.origin
            enc = getattr(self.uni, "tuple_encoder", None)
            if enc is not None:
                return enc(self, v)
        raise Unsupported(f"no z3 value for {v}")

    def same(self, a, b):
        """Python `is` (identity) -- also used for ==/!= on scalars."""
        if isinstance(a, VNone) and isinstance(b, VNone):
            return z3.BoolVal(True)
        if isinstance(a, VNone):
            a, b = b, a
        if isinstance(b, VNone):
            if isinstance(a, VRef):
                return a.e == NULL
            return z3.BoolVal(False)
        if isinstance(a, VPy) and isinstance(b, VPy):
            if isinstance(a.obj, tuple) and a.obj and a.obj[0] == "zset":
                return a.obj[1] == b.obj[1]
            if isinstance(a.obj, tuple) and a.obj and a.obj[0] == "zdict":
                return z3.And(a.obj[1] == b.obj[1], a.obj[2] == b.obj[2])
            return z3.BoolVal(a.obj is b.obj or a.obj == b.obj)
        if isinstance(a, VClass) and isinstance(b, VClass):
            return z3.BoolVal(a.name == b.name)
        if isinstance(b, VFunc) and b.kind == "classof":
            a, b = b, a
        if isinstance(a, VFunc) and a.kind == "classof" and \
                isinstance(b, VClass) and isinstance(a.recv, VRef):
            # type(x) is C : exact dynamic class
            return TYPE_OF(a.recv.e) == self.uni.class_id(b.name)
        if isinstance(a, VPy) and isinstance(b, VPy) and \
                isinstance(a.obj, tuple) and a.obj and a.obj[0] == "zdict":
            return z3.And(a.obj[1] == b.obj[1], a.obj[2] == b.obj[2])
        if isinstance(a, VEnum) and isinstance(b, VEnum):
            if a.enum.name != b.enum.name:
                return z3.BoolVal(False)
            return a.e == b.e
        if a.tag != b.tag:
            if {a.tag, b.tag} <= {"int", "bool"}:
                ai = a.e if a.tag == "int" else z3.If(a.e, 1, 0)
                bi = b.e if b.tag == "int" else z3.If(b.e, 1, 0)
                return ai == bi
            return z3.BoolVal(False)
        if isinstance(a, VTuple):
            if len(a.items) != len(b.items):
                return z3.BoolVal(False)
            return z3.And([self.same(x, y)
                           for x, y in zip(a.items, b.items)] or
                          [z3.BoolVal(True)])
        return self.to_z3(a) == self.to_z3(b)

    def equal(self, a, b, st):
        """Python == . On repo objects this is the uninterpreted structural
        equality node_eq (reflexive) unless the class keeps object.__eq__."""
        if isinstance(a, VRef) and isinstance(b, VRef):
            cls = a.cls or b.cls
            if cls in ("list", "set", "dict"):
                raise Unsupported("== on containers")
            has_eq = True
            if cls is not None:
                kind, info, _ = self.uni.repo.find_attr(cls, "__eq__")
                has_eq = kind is not None or bool(
                    self.uni.repo.overriders(cls, "__eq__"))
            if not has_eq:
                return a.e == b.e
            neq = self.uni.uf("node_eq", ["ref", "ref"], "bool")
            self.uni.note_assumption(
                "== on PSyIR objects is an uninterpreted reflexive relation "
                "node_eq (structural equality not modelled)")
            return z3.Or(a.e == b.e, neq(a.e, b.e))
        return self.same(a, b)

    # ------------------------------------------------------------------
    # expressions
    # ------------------------------------------------------------------
    def ev(self, node, st, fr):
        meth = getattr(self, "ev_" + type(node).__name__, None)
        if meth is None:
            raise Unsupported(f"expression {type(node).__name__}"
                              f"@{getattr(node, 'lineno', '?')}")
        return meth(node, st, fr)

    def ev_Constant(self, node, st, fr):
        v = node.value
        if v is None:
            return NONE
        if isinstance(v, bool):
            return VBool(v)
        if isinstance(v, int):
            return VInt(v)
        if isinstance(v, str):
            return VStr(v)
        if isinstance(v, float):
            return VPy(v)
        raise Unsupported(f"constant {v!r}")

    def ev_Name(self, node, st, fr):
        name = node.id
        if name in fr.env:
            return fr.env[name]
        if fr.spec:
            if name == "result":
                return fr.result
            if name == "null" or name == "None":
                return NONE
        if name in self.uni.consts:
            return self.uni.consts[name]
        rel = getattr(fr, "relpath", None)
        if rel:
            mfn = self.uni.repo.module_function(rel, name)
            if mfn is not None:
                return VFunc("function", fn=mfn, relpath=rel, name=name)
        if name in BUILTIN_NAMES:
            return VFunc("builtin", name=name)
        if name in EXC_NAMES or self.is_exception_class(name):
            return VClass(name)
        if self.uni.repo.cls(name) is not None:
            return VClass(name)
        raise Unsupported(f"unknown name '{name}'@{node.lineno}")

    def is_exception_class(self, name):
        if name in EXC_NAMES:
            return True
        mro = self.uni.repo.mro(name)
        return any(m in EXC_NAMES for m in mro)

    def ev_Tuple(self, node, st, fr):
        return VTuple([self.ev(e, st, fr) for e in node.elts])

    def ev_List(self, node, st, fr):
        vals = [self.ev(e, st, fr) for e in node.elts]
        if fr.spec:
            return VTuple(vals)
        elem = None
        if vals:
            elem = vals[0].cls if isinstance(vals[0], VRef) else vals[0].tag
            if elem is None:
                elem = "ref"
        lst = self.alloc(st, "list", elem, "lst")
        if elem is not None:
            arr = z3.K(INT, self.to_z3(vals[0]))
            for i, v in enumerate(vals):
                arr = z3.Store(arr, i, self.to_z3(v))
            self.set_list(lst, st, arr, z3.IntVal(len(vals)))
        else:
            st.write("$len", lst.e, z3.IntVal(0), "int")
        return lst

    def ev_Dict(self, node, st, fr):
        obj = self.alloc(st, "dict", None, "dict")
        st.write("$card", obj.e, z3.IntVal(0), "int")
        for k, v in zip(node.keys, node.values):
            if k is None:
                raise Unsupported("dict unpacking in a literal")
            self.dict_setitem(obj, self.ev(k, st, fr), self.ev(v, st, fr),
                              st, fr)
        return obj

    def ev_ListComp(self, node, st, fr):
        if len(node.generators) != 1:
            raise Unsupported("list comprehension shape")
        comp = node.generators[0]
        src = self.ev(comp.iter, st, fr)
        n, elem, conc = self.iter_desc(src, st, fr)
        if comp.ifs:
            return self.filtered_comp(node, comp, n, elem, conc, st, fr)
        self.uni.note_assumption(
            "list-comprehension element expressions are evaluated as pure, "
            "exception-free expressions")

        def body(x):
            env = dict(fr.env)
            self.assign_env(comp.target, x, env)
            sub = Frame(fr.func, fr.cls, fr.contract, env=env, spec=True)
            sub.old, sub.self_val = fr.old, fr.self_val
            sub.relpath = getattr(fr, "relpath", None)
            return self.ev(node.elt, st, sub)
        if conc is not None:
            vals = [body(x) for x in conc]
            return self.list_from(vals, st) if vals else \
                self.bi_list([], {}, st, fr)
        i = z3.Int(fresh_name("lc"))
        v = body(elem(i))
        tag = v.cls if isinstance(v, VRef) else v.tag
        lst = self.alloc(st, "list", tag or "ref", "lcomp")
        arr = fresh("lcomp_items", z3.ArraySort(INT, self.to_z3(v).sort()))
        self.set_list(lst, st, arr, n)
        st.assume(z3.ForAll([i], z3.Implies(z3.And(0 <= i, i < n),
                                            arr[i] == self.to_z3(v))))
        return lst

    def filtered_comp(self, node, comp, n, elem, conc, st, fr):
        """[x for x in xs if c(x)] (element expression = the loop variable):
        a fresh list, every element of which is an element of xs satisfying
        c, that contains every such element (so it is empty iff none
        does).  Order and multiplicity are not modelled."""
        if not (isinstance(node.elt, ast.Name) and
                isinstance(comp.target, ast.Name) and
                node.elt.id == comp.target.id) or conc is not None:
            raise Unsupported("list comprehension shape")
        self.uni.note_assumption(
            "a filtering list comprehension [x for x in xs if c(x)] is a "
            "fresh list of exactly the elements of xs satisfying c (order "
            "and multiplicity not modelled); c is evaluated as a pure, "
            "exception-free expression")

        def cond(x):
            env = dict(fr.env)
            self.assign_env(comp.target, x, env)
            sub = Frame(fr.func, fr.cls, fr.contract, env=env, spec=True)
            sub.old, sub.self_val = fr.old, fr.self_val
            c = [self.truth(self.ev(g, st, sub), st) for g in comp.ifs]
            return z3.And(c) if len(c) > 1 else c[0]
        i, q = z3.Int(fresh_name("fc")), z3.Int(fresh_name("fq"))
        v0 = elem(i)
        tag = v0.cls if isinstance(v0, VRef) else v0.tag
        lst = self.alloc(st, "list", tag or "ref", "fcomp")
        arr = fresh("fcomp_items", z3.ArraySort(INT, self.to_z3(v0).sort()))
        m = fresh("fcomp_len", INT)
        self.set_list(lst, st, arr, m)
        idx = z3.Function(fresh_name("fcomp_src"), INT, INT)
        pos = z3.Function(fresh_name("fcomp_pos"), INT, INT)
        st.assume(m >= 0)
        st.assume(z3.ForAll([i], z3.Implies(
            z3.And(0 <= i, i < m),
            z3.And(0 <= idx(i), idx(i) < n,
                   arr[i] == self.to_z3(elem(idx(i))), cond(elem(idx(i))))),
            patterns=[arr[i]]))
        st.assume(z3.ForAll([q], z3.Implies(
            z3.And(0 <= q, q < n, cond(elem(q))),
            z3.And(0 <= pos(q), pos(q) < m,
                   arr[pos(q)] == self.to_z3(elem(q))))))
        return lst

    def ev_JoinedStr(self, node, st, fr):
        # f-strings made only of literal text and plain {expr} of string
        # (or integer) value are exact concatenations ...
        parts = []
        for v in node.values:
            if isinstance(v, ast.Constant) and isinstance(v.value, str):
                parts.append(z3.StringVal(v.value))
                continue
            if isinstance(v, ast.FormattedValue) and v.conversion == -1 \
                    and v.format_spec is None and \
                    getattr(self.uni, "exact_fstrings", False):
                try:
                    x = self.ev(v.value, st, fr)
                except Unsupported:
                    parts = None
                    break
                if isinstance(x, VStr):
                    parts.append(x.e)
                    continue
                if isinstance(x, VInt):
                    parts.append(self.bi_str([x], {}, st, fr).e)
                    continue
            parts = None
            break
        if parts:
            return VStr(parts[0] if len(parts) == 1 else z3.Concat(*parts))
        # ... anything else (messages of exceptions, mostly) is abstracted
        # to a fresh string.
        self.uni.note_assumption(
            "f-string values are abstracted to arbitrary strings")
        return VStr(fresh("fstr", STR))

    def ev_UnaryOp(self, node, st, fr):
        v = self.ev(node.operand, st, fr)
        if isinstance(node.op, ast.Not):
            if fr.spec:
                return VBool(z3.Not(self.truth(v, st)))
            return VBool(z3.Not(self.truth(v, st)))
        if isinstance(node.op, ast.USub):
            return VInt(-self.as_int(v))
        if isinstance(node.op, ast.UAdd):
            return VInt(self.as_int(v))
        raise Unsupported(f"unary {type(node.op).__name__}")

    def as_int(self, v):
        if isinstance(v, VInt):
            return v.e
        if isinstance(v, VBool):
            return z3.If(v.e, 1, 0)
        if isinstance(v, (VNone, VStr, VRef, VTuple)):
            raise PyRaise(VExc("TypeError"))
        raise Unsupported(f"integer expected, got {v}")

    def ev_BinOp(self, node, st, fr):
        a = self.ev(node.left, st, fr)
        b = self.ev(node.right, st, fr)
        return self.binop(node.op, a, b, st, fr)

    def binop(self, op, a, b, st, fr):
        if isinstance(a, VStr) and isinstance(b, VStr) and \
                isinstance(op, ast.Add):
            return VStr(z3.Concat(a.e, b.e))
        if isinstance(a, (VInt, VBool)) and isinstance(b, (VInt, VBool)):
            x, y = self.as_int(a), self.as_int(b)
            if isinstance(op, ast.Add):
                return VInt(x + y)
            if isinstance(op, ast.Sub):
                return VInt(x - y)
            if isinstance(op, ast.Mult):
                return VInt(x * y)
            if isinstance(op, (ast.FloorDiv, ast.Mod)):
                if not fr.spec:
                    if self.dec.branch(st, y == 0):
                        raise PyRaise(VExc("ZeroDivisionError"))
                # Python floor division / modulo (sign of divisor)
                q = self.floordiv(x, y)
                if isinstance(op, ast.FloorDiv):
                    return VInt(q)
                return VInt(x - y * q)
        if isinstance(a, VTuple) and isinstance(b, VTuple) and \
                isinstance(op, ast.Add):
            return VTuple(a.items + b.items)
        if isinstance(a, VPy) and isinstance(b, VPy):
            import operator
            fn = {ast.Add: operator.add, ast.Sub: operator.sub,
                  ast.Mult: operator.mul}.get(type(op))
            if fn:
                return self.lift(fn(a.obj, b.obj))
        hook = getattr(self.uni, "binop_hook", None)
        if hook is not None:
            r = hook(self, op, a, b, st, fr)
            if r is not None:
                return r
        raise Unsupported(f"binop {type(op).__name__} on {a}, {b}")

    @staticmethod
    def floordiv(x, y):
        # z3 integer div is Euclidean: x = y*q + r, 0 <= r < |y|.
        # Python floor: q = floor(x / y).
        zq = x / y
        zr = x - y * zq
        return z3.If(z3.And(y < 0, zr != 0), zq - 1, zq)

    def lift(self, obj):
        """concrete Python object -> V"""
        if obj is None:
            return NONE
        if isinstance(obj, bool):
            return VBool(obj)
        if isinstance(obj, int):
            return VInt(obj)
        if isinstance(obj, str):
            return VStr(obj)
        if isinstance(obj, V):
            return obj
        return VPy(obj)

    def ev_BoolOp(self, node, st, fr):
        if fr.spec:
            # logical connective; operands after a syntactically decided one
            # are not evaluated (so 'x is not None and len(x) > 0' is fine)
            vals = []
            is_and = isinstance(node.op, ast.And)
            for sub in node.values:
                t = self.truth(self.ev(sub, st, fr), st)
                ts = z3.simplify(t)
                if is_and and z3.is_false(ts):
                    return VBool(False)
                if not is_and and z3.is_true(ts):
                    return VBool(True)
                vals.append(t)
            return VBool(z3.And(vals) if is_and else z3.Or(vals))
        is_and = isinstance(node.op, ast.And)
        merged = self.try_pure_boolop(node, is_and, st, fr)
        if merged is not None:
            return merged
        val = None
        for i, sub in enumerate(node.values):
            val = self.ev(sub, st, fr)
            if i == len(node.values) - 1:
                break
            t = self.dec.branch(st, self.truth(val, st))
            if is_and and not t:
                return val
            if not is_and and t:
                return val
        return val

    def try_pure_boolop(self, node, is_and, st, fr):
        """`a and b` / `a or b` whose operands evaluate to booleans without
        any decision, obligation, exception or heap write is the logical
        connective of the operand formulas (no path split).  Otherwise
        everything is rolled back and None is returned."""
        from pyvc.state import NeedBranch, PathEnd
        if not getattr(self.uni, "merge_boolops", False):
            return None
        if getattr(self.dec, "trial", False):
            # nested inside an enclosing speculative evaluation (which does
            # the roll-back)
            vals = []
            for sub in node.values:
                v = self.ev(sub, st, fr)
                if not isinstance(v, VBool):
                    raise NeedBranch()
                vals.append(v.e)
            return VBool(z3.And(vals) if is_and else z3.Or(vals))
        n_tr, n_pc, n_ob = len(self.dec.trace), len(st.pc), len(self.obls)
        heap0 = dict(st.heap)
        self.dec.trial = True
        ok, vals = True, []
        try:
            for sub in node.values:
                v = self.ev(sub, st, fr)
                if not isinstance(v, VBool):
                    ok = False
                    break
                vals.append(v.e)
        except (NeedBranch, PyRaise, Unsupported, PathEnd):
            ok = False
        finally:
            self.dec.trial = False
        if ok and len(self.obls) == n_ob \
                and set(st.heap) == set(heap0) and \
                all(st.heap[k].eq(heap0[k]) for k in heap0):
            # decisions taken meanwhile were forced by the path condition
            # alone (no operand was assumed): they stay
            return VBool(z3.And(vals) if is_and else z3.Or(vals))
        del self.dec.trace[n_tr:]
        del st.pc[n_pc:]
        del self.obls[n_ob:]
        st.heap = heap0
        return None

    def ev_IfExp(self, node, st, fr):
        if fr.spec:
            c = self.truth(self.ev(node.test, st, fr), st)
            a = self.ev(node.body, st, fr)
            b = self.ev(node.orelse, st, fr)
            if isinstance(a, VNone) or isinstance(b, VNone):
                a2 = a if not isinstance(a, VNone) else VRef(NULL, getattr(b, "cls", None))
                b2 = b if not isinstance(b, VNone) else VRef(NULL, getattr(a, "cls", None))
                a, b = a2, b2
            r = z3.If(c, self.to_z3(a), self.to_z3(b))
            if isinstance(a, VRef):
                return VRef(r, a.cls or getattr(b, "cls", None), a.elem)
            return wrap(r)
        c = self.ev(node.test, st, fr)
        if self.dec.branch(st, self.truth(c, st)):
            return self.ev(node.body, st, fr)
        return self.ev(node.orelse, st, fr)

    def ev_Compare(self, node, st, fr):
        left = self.ev(node.left, st, fr)
        conds = []
        for op, rnode in zip(node.ops, node.comparators):
            right = self.ev(rnode, st, fr)
            c = self.compare(op, left, right, st, fr)
            if fr.spec or len(node.ops) == 1:
                conds.append(c)
            else:
                if not self.dec.branch(st, c):
                    return VBool(False)
            left = right
        if not conds:
            return VBool(True)
        return VBool(z3.And(conds) if len(conds) > 1 else conds[0])

    def compare(self, op, a, b, st, fr):
        chook = getattr(self.uni, "compare_hook", None)
        if chook:
            r = chook(self, type(op).__name__, a, b, st, fr)
            if r is not None:
                return r
        if isinstance(op, ast.Is):
            return self.same(a, b)
        if isinstance(op, ast.IsNot):
            return z3.Not(self.same(a, b))
        if isinstance(op, ast.Eq):
            return self.equal(a, b, st)
        if isinstance(op, ast.NotEq):
            return z3.Not(self.equal(a, b, st))
        if isinstance(op, (ast.In, ast.NotIn)):
            c = self.contains(b, a, st, fr)
            return z3.Not(c) if isinstance(op, ast.NotIn) else c
        if isinstance(a, (VInt, VBool)) and isinstance(b, (VInt, VBool)):
            x, y = self.as_int(a), self.as_int(b)
            return {ast.Lt: x < y, ast.LtE: x <= y, ast.Gt: x > y,
                    ast.GtE: x >= y}[type(op)]
        if isinstance(a, VNone) or isinstance(b, VNone):
            if fr.spec:
                raise Unsupported("ordering comparison with None in a spec")
            raise PyRaise(VExc("TypeError"))
        raise Unsupported(f"compare {type(op).__name__} on {a}, {b}")

    def contains(self, cont, item, st, fr):
        if isinstance(cont, VStr) and isinstance(item, VStr):
            return z3.Contains(cont.e, item.e)
        if isinstance(cont, (VTuple,)):
            return z3.Or([self.equal(item, x, st) for x in cont.items] or
                         [z3.BoolVal(False)])
        if isinstance(cont, VPy) and not (isinstance(cont.obj, tuple) and
                                          cont.obj and cont.obj[0] in (
                                              "zset", "dictkeys",
                                              "dictvalues", "dictitems")):
            if isinstance(cont.obj, dict):
                keys = list(cont.obj.keys())
            else:
                keys = list(cont.obj)
            return z3.Or([self.equal(item, self.lift(k), st) for k in keys]
                         or [z3.BoolVal(False)])
        if isinstance(cont, VPy) and isinstance(cont.obj, tuple) and \
                cont.obj and cont.obj[0] in ("dictvalues", "dictkeys"):
            d = cont.obj[1]
            dom = self.d_dom(d, st)
            if cont.obj[0] == "dictkeys":
                return z3.Select(dom, self.to_z3(item))
            kt, vt = d.elem
            k = z3.Const(fresh_name("dk"), sort_of(base_tag(kt)))
            val = self.mkval(z3.Select(self.d_map(d, st), k), vt)
            return z3.Exists([k], z3.And(z3.Select(dom, k),
                                         self.equal(val, item, st)))
        if isinstance(cont, VPy) and isinstance(cont.obj, tuple) and \
                cont.obj and cont.obj[0] == "zset":
            return z3.Select(cont.obj[1], self.to_z3(item))
        if isinstance(cont, VRef) and cont.cls in ("set", "dict"):
            if cont.elem is None:
                return z3.BoolVal(False)     # still-empty, untyped container
            return z3.Select(self.members(cont, st), self.to_z3(item))
        if isinstance(cont, VRef) and cont.elem is not None:
            # list membership: exists index with == (identity for refs
            # whose class keeps object.__eq__)
            items = self.list_items(cont, st)
            n = self.length(cont, st)
            j = z3.Int(fresh_name("m"))
            ev = self.elem_val(cont, items[j])
            return z3.Exists([j], z3.And(0 <= j, j < n,
                                         self.equal(ev, item, st)))
        raise Unsupported(f"'in' on {cont}")

    # ------------------------------------------------------------------
    # attributes / subscripts
    # ------------------------------------------------------------------
    def nonnull(self, v, st, fr, what):
        if fr.spec or not isinstance(v, VRef):
            return
        if self.dec.branch(st, v.e == NULL):
            raise PyRaise(VExc("AttributeError"))

    def ev_Attribute(self, node, st, fr):
        obj = self.ev(node.value, st, fr)
        return self.getattr(obj, node.attr, st, fr)

    def getattr(self, obj, attr, st, fr):
        uni = self.uni
        if isinstance(obj, VNone):
            if fr.spec:
                raise Unsupported(f"None.{attr} in spec")
            raise PyRaise(VExc("AttributeError"))
        if isinstance(obj, VRef):
            self.nonnull(obj, st, fr, attr)
            cls = obj.cls
            if cls not in (None, "list", "set", "dict"):
                kind, info, fn = uni.repo.find_attr(cls, attr)
                if kind == "property":
                    if attr in uni.fields and fr.spec:
                        return self.from_field(attr, st.read(
                            attr, obj.e, uni.field_tag(attr)))
                    return self.call_function(fn, info, obj, [], {}, st, fr,
                                              is_property=True)
                if kind == "method":
                    mkind = info.kinds.get(attr, "plain")
                    return VFunc("method", fn=fn, info=info, mkind=mkind,
                                 recv=obj, name=attr)
                if attr in uni.callbacks:
                    return VFunc("callback", name=attr, recv=obj)
                if attr in uni.fields:
                    return self.from_field(attr, st.read(
                        attr, obj.e, uni.field_tag(attr)))
                ic = uni.instance_const(cls, attr, self)
                if ic is not None:
                    return ic
                if kind == "const":
                    return self.class_const(info, attr, st, fr)
            if attr in uni.callbacks:
                return VFunc("callback", name=attr, recv=obj)
            if obj.cls in ("list", "set", "dict") or obj.elem is not None:
                if attr in CONTAINER_METHODS:
                    return VFunc("contop", name=attr, recv=obj)
            if attr in uni.fields:
                return self.from_field(attr, st.read(
                    attr, obj.e, uni.field_tag(attr)))
            if attr == "__class__":
                return VFunc("classof", recv=obj)
            ph = uni.prop_hooks.get(f"{obj.cls}.{attr}")
            if ph is not None:
                return ph(self, obj, [], {}, st, fr)
            hk = uni.method_hooks.get(f"{obj.cls}.{attr}")
            if hk is not None:
                return VFunc("hook", fn=lambda it, a, k, st2, fr2, _o=obj:
                             hk(it, _o, a, k, st2, fr2))
            raise Unsupported(f"attribute .{attr} of {obj}")
        if isinstance(obj, VClass):
            chook = getattr(uni, "class_attr", None)
            if chook:
                r = chook(self, obj.name, attr, st, fr)
                if r is not None:
                    return r
            if obj.name in uni.enums and attr in uni.enums[obj.name].members:
                desc = uni.enums[obj.name]
                return VEnum(desc, desc.index(attr))
            kind, info, fn = uni.repo.find_attr(obj.name, attr)
            if kind == "method":
                return VFunc("method", fn=fn, info=info,
                             mkind=info.kinds.get(attr, "plain"), recv=None,
                             name=attr, via_class=obj.name)
            if kind == "const":
                return self.class_const(info, attr, st, fr)
            if obj.name in uni.enums:
                desc = uni.enums[obj.name]
                if attr in desc.members:
                    return VEnum(desc, desc.index(attr))
            raise Unsupported(f"class attribute {obj.name}.{attr}")
        if isinstance(obj, VStr):
            return VFunc("strop", name=attr, recv=obj)
        if isinstance(obj, VPy):
            return VFunc("pyop", name=attr, recv=obj)
        if isinstance(obj, VFunc) and obj.kind == "classof" and \
                attr == "__name__":
            return VStr(fresh("clsname", STR))
        if isinstance(obj, VTerm):
            hook = getattr(self.uni, "term_attr", None)
            if hook:
                return hook(self, obj, attr, st, fr)
        if isinstance(obj, VEnum) and attr in ("name", "value"):
            raise Unsupported("enum .name/.value")
        raise Unsupported(f"attribute .{attr} of {obj}")

    def class_const(self, info, attr, st, fr):
        key = f"{info.name}.{attr}"
        if key in self.uni.consts:
            return self.uni.consts[key]
        sub = Frame(fr.func, info.name, None, env={}, spec=False)
        return self.ev(info.consts[attr], st, sub)

    def ev_Subscript(self, node, st, fr):
        obj = self.ev(node.value, st, fr)
        if isinstance(node.slice, ast.Slice):
            lo = self.ev(node.slice.lower, st, fr) if node.slice.lower else None
            hi = self.ev(node.slice.upper, st, fr) if node.slice.upper else None
            if node.slice.step is not None:
                raise Unsupported("slice step")
            return self.getslice(obj, lo, hi, st, fr)
        idx = self.ev(node.slice, st, fr)
        return self.getitem(obj, idx, st, fr)

    def getitem(self, obj, idx, st, fr):
        if isinstance(obj, VTuple):
            if isinstance(idx, VInt):
                c = z3.simplify(idx.e)
                if z3.is_int_value(c):
                    return obj.items[c.as_long()]
            raise Unsupported("symbolic tuple index")
        if isinstance(obj, VPy) and isinstance(obj.obj, dict) and \
                isinstance(idx, (VStr, VInt)) and \
                not is_concrete(z3.simplify(idx.e)):
            # constant table indexed by a symbolic key
            merged = self.merged_lookup(obj.obj, idx, st, fr)
            if merged is not None:
                return merged
            # ... otherwise: case split
            for k, v in obj.obj.items():
                if self.dec.branch(st, self.same(idx, self.lift(k))):
                    return self.lift(v)
            if fr.spec:
                raise Unsupported("spec: symbolic key not in table")
            raise PyRaise(VExc("KeyError"))
        if isinstance(obj, VPy):
            key = self.concrete(idx)
            try:
                return self.lift(obj.obj[key])
            except (KeyError, IndexError) as err:
                if fr.spec:
                    raise Unsupported(f"spec: {err!r}")
                raise PyRaise(VExc(type(err).__name__))
        if isinstance(obj, VStr) and isinstance(idx, VInt):
            n = z3.Length(obj.e)
            if not fr.spec:
                if not self.dec.branch(st, models.in_range(idx.e, n)):
                    raise PyRaise(VExc("IndexError"))
            return VStr(z3.SubString(obj.e, models.norm_index(idx.e, n), 1))
        if isinstance(obj, VRef) and obj.cls not in (None, "list", "set",
                                                     "dict"):
            key = None
            for c in self.uni.repo.mro(obj.cls):
                if f"{c}.__getitem__" in self.uni.method_hooks:
                    key = f"{c}.__getitem__"
                    break
            kind, info, fn = self.uni.repo.find_attr(obj.cls, "__getitem__")
            if key is not None or kind == "method":
                if not fr.spec:
                    self.nonnull(obj, st, fr, "[]")
                if kind == "method":
                    return self.call_function(fn, info, obj, [idx], {}, st,
                                              fr)
                return self.uni.method_hooks[key](self, obj, [idx], {}, st,
                                                  fr)
        if isinstance(obj, VRef) and obj.cls == "dict":
            if not fr.spec:
                self.nonnull(obj, st, fr, "[]")
            return self.dict_getitem(obj, idx, st, fr)
        if isinstance(obj, VRef) and obj.elem is not None:
            if not fr.spec:
                self.nonnull(obj, st, fr, "[]")
            n = self.length(obj, st)
            i = self.as_int(idx)
            if not fr.spec:
                if not self.dec.branch(st, models.in_range(i, n)):
                    raise PyRaise(VExc("IndexError"))
                i = models.norm_index(i, n)
            return self.elem_val(obj, z3.Select(self.list_items(obj, st), i))
        raise Unsupported(f"subscript of {obj} by {idx}")

    def merged_lookup(self, table, idx, st, fr):
        """table[idx] for a literal dict and a symbolic key *without* a path
        split (opt-in: uni.merge_const_lookup): the result is a fresh value
        constrained by the disjunction over the entries.  Supported value
        shapes: all str, or all list-of-str literals."""
        if not getattr(self.uni, "merge_const_lookup", False) or not table:
            return None
        vals = list(table.values())
        keys = [self.same(idx, self.lift(k)) for k in table]
        if fr.spec:
            return None
        if all(isinstance(v, str) for v in vals):
            if not self.dec.branch(st, z3.Or(keys)):
                raise PyRaise(VExc("KeyError"))
            r = fresh("lookup", STR)
            st.assume(z3.Or([z3.And(k, r == z3.StringVal(v))
                             for k, v in zip(keys, vals)]))
            return VStr(r)
        if all(isinstance(v, list) and v and
               all(isinstance(x, str) for x in v) for v in vals):
            if not self.dec.branch(st, z3.Or(keys)):
                raise PyRaise(VExc("KeyError"))
            lst = self.alloc(st, "list", "str", "lookup")
            arr = fresh("lookup_items", z3.ArraySort(INT, STR))
            n = fresh("lookup_len", INT)
            self.set_list(lst, st, arr, n)
            cases = []
            for k, v in zip(keys, vals):
                cases.append(z3.And([k, n == len(v)] + [
                    arr[i] == z3.StringVal(x) for i, x in enumerate(v)]))
            st.assume(z3.Or(cases))
            return lst
        return None

    def mkval(self, e, tag):
        if base_tag(tag) == "ref":
            return self.mkref(e, tag)
        return wrap(e)

    def concrete(self, v):
        if isinstance(v, VPy):
            return v.obj
        if isinstance(v, VNone):
            return None
        if isinstance(v, VTuple):
            return tuple(self.concrete(x) for x in v.items)
        if isinstance(v, (VInt, VBool, VStr)):
            c = z3.simplify(v.e)
            if z3.is_int_value(c):
                return c.as_long()
            if z3.is_true(c):
                return True
            if z3.is_false(c):
                return False
            if z3.is_string_value(c):
                return c.as_string()
        raise Unsupported(f"concrete value needed, got {v}")

    def getslice(self, obj, lo, hi, st, fr):
        if isinstance(obj, VStr):
            n = z3.Length(obj.e)
            a = models.clamp_slice(self.as_int(lo), n) if lo else z3.IntVal(0)
            b = models.clamp_slice(self.as_int(hi), n) if hi else n
            return VStr(z3.SubString(obj.e, a, z3.If(b > a, b - a, 0)))
        if isinstance(obj, VRef) and obj.elem is not None:
            n = self.length(obj, st)
            a = models.clamp_slice(self.as_int(lo), n) if lo else z3.IntVal(0)
            b = models.clamp_slice(self.as_int(hi), n) if hi else n
            items, m = models.list_slice(self.list_items(obj, st), n, a, b)
            new = self.alloc(st, "list", obj.elem, "slice")
            self.set_list(new, st, items, m)
            return new
        if isinstance(obj, VTuple):
            a = self.concrete(lo) if lo else None
            b = self.concrete(hi) if hi else None
            return VTuple(obj.items[a:b])
        if isinstance(obj, VRef) and obj.cls:
            # obj[lo:hi] on an object whose __getitem__ is hooked
            for c in self.uni.repo.mro(obj.cls) or [obj.cls]:
                hk = self.uni.method_hooks.get(f"{c}.__getitem__")
                if hk is not None:
                    return hk(self, obj, [VPy(("slice", lo, hi))], {}, st,
                              fr)
        raise Unsupported(f"slice of {obj}")

    # ------------------------------------------------------------------
    # calls
    # ------------------------------------------------------------------
    def ev_Call(self, node, st, fr):
        # spec-only forms that must not evaluate their arguments eagerly
        if fr.spec and isinstance(node.func, ast.Name):
            name = node.func.id
            if name in ("forall", "exists"):
                return self.spec_quant(name, node, st, fr)
            if name == "ite" and len(node.args) == 3 and \
                    "ite" not in fr.env:
                c = z3.simplify(self.truth(self.ev(node.args[0], st, fr),
                                           st))
                if z3.is_true(c):
                    return self.ev(node.args[1], st, fr)
                if z3.is_false(c):
                    return self.ev(node.args[2], st, fr)
            if name == "implies" and len(node.args) == 2 and \
                    "implies" not in fr.env:
                # the consequent is not evaluated under a hypothesis that is
                # syntactically false (None-guards)
                a = self.truth(self.ev(node.args[0], st, fr), st)
                if z3.is_false(z3.simplify(a)):
                    return VBool(True)
                b = self.truth(self.ev(node.args[1], st, fr), st)
                return VBool(z3.Implies(a, b))
            if name == "old":
                if fr.old is None:
                    raise Unsupported("old() outside a postcondition")
                sub = Frame(fr.func, fr.cls, fr.contract,
                            env=dict(fr.env), spec=True)
                sub.old = fr.old
                sub.result = fr.result
                sub.entry_state = getattr(fr, "entry_state", None)
                sub.head_state = getattr(fr, "head_state", None)
                return self.ev(node.args[0], fr.old, sub)
            if name in self.uni.preds:
                params, text = self.uni.preds[name]
                args = [self.ev(a, st, fr) for a in node.args]
                penv = dict(fr.env)
                penv.update(zip(params, args))
                sub = Frame(fr.func, fr.cls, fr.contract, env=penv,
                            spec=True)
                sub.old, sub.result = fr.old, fr.result
                sub.entry_state = getattr(fr, "entry_state", None)
                sub.head_state = getattr(fr, "head_state", None)
                return self.ev(parse_expr(text), st, sub)
        # copy.copy / copy.deepcopy
        if isinstance(node.func, ast.Attribute) and \
                isinstance(node.func.value, ast.Name) and \
                node.func.value.id == "copy" and "copy" not in fr.env and \
                node.func.attr in ("copy", "deepcopy"):
            arg = self.ev(node.args[0], st, fr)
            if node.func.attr == "deepcopy":
                return self.deepcopy(arg, st, fr)
            if isinstance(arg, VRef) and arg.cls in ("set", "dict"):
                return (self.setop if arg.cls == "set" else self.dictop)(
                    arg, "copy", [], {}, st, fr)
            if isinstance(arg, VRef) and arg.elem is not None:
                return self.contop(arg, "copy", [], {}, st, fr)
            hook = getattr(self.uni, "copy_object_hook", None)
            if hook is not None and isinstance(arg, VRef):
                return hook(self, [arg], {}, st, fr)
            raise Unsupported(f"copy.copy of {arg}")
        if fr.spec and isinstance(node.func, ast.Name) and \
                node.func.id in ("entry", "head"):
            es = getattr(fr, "entry_state" if node.func.id == "entry"
                         else "head_state", None)
            if es is None:
                raise Unsupported(f"{node.func.id}() outside a loop "
                                  f"invariant")
            sub = Frame(fr.func, fr.cls, fr.contract, env=dict(fr.env),
                        spec=True)
            sub.old, sub.result = fr.old, fr.result
            sub.entry_state = getattr(fr, "entry_state", None)
            sub.head_state = getattr(fr, "head_state", None)
            if getattr(fr, "head_env", None) and node.func.id == "head":
                sub.env.update(fr.head_env)
            return self.ev(node.args[0], es, sub)
        # super().method(...)
        if isinstance(node.func, ast.Attribute) and \
                isinstance(node.func.value, ast.Call) and \
                isinstance(node.func.value.func, ast.Name) and \
                node.func.value.func.id == "super":
            return self.call_super(node, st, fr)
        fn = self.ev(node.func, st, fr)
        args = []
        for a in node.args:
            if isinstance(a, ast.Starred):
                seq = self.ev(a.value, st, fr)
                if not isinstance(seq, VTuple):
                    raise Unsupported("*args of non-tuple")
                args.extend(seq.items)
            else:
                args.append(self.lazy_or_eval(fn, a, st, fr))
        kwargs = {}
        for k in node.keywords:
            if k.arg is None:
                raise Unsupported("**kwargs")
            kwargs[k.arg] = self.lazy_or_eval(fn, k.value, st, fr)
        return self.call(fn, args, kwargs, st, fr, node)

    def lazy_or_eval(self, fn, a, st, fr):
        # generator expressions / lambdas are passed unevaluated to builtins
        if isinstance(a, (ast.GeneratorExp, ast.Lambda)):
            return VPy(("ast", a, fr))
        return self.ev(a, st, fr)

    def call(self, fn, args, kwargs, st, fr, node=None):
        if isinstance(fn, VFunc):
            k = fn.kind
            if k == "method":
                recv = fn.recv
                if fn.mkind == "static":
                    recv = None
                elif fn.mkind == "class":
                    recv = VClass(getattr(fn, "via_class", None) or
                                  (fn.recv.cls if fn.recv else fn.info.name))
                elif recv is None:
                    # Class.method(self, ...)
                    recv, args = args[0], args[1:]
                return self.call_function(fn.fn, fn.info, recv, args, kwargs,
                                          st, fr)
            if k == "function":
                return self.call_function(fn.fn, None, None, args, kwargs,
                                          st, fr, relpath=fn.relpath)
            if k == "builtin":
                meth = getattr(self, "bi_" + fn.name, None)
                if meth is None:
                    raise Unsupported(f"builtin {fn.name}()")
                return meth(args, kwargs, st, fr)
            if k == "contop":
                return self.contop(fn.recv, fn.name, args, kwargs, st, fr)
            if k == "strop":
                return self.strop(fn.recv, fn.name, args, kwargs, st, fr)
            if k == "pyop":
                return self.pyop(fn.recv, fn.name, args, kwargs, st, fr)
            if k == "callback":
                ufname, argtags, ret = self.uni.callbacks[fn.name]
                f = self.uni.uf(ufname, ["ref"] + argtags, ret)
                owner = fn.recv.e
                via = self.uni.callback_owner.get(fn.name)
                if via:
                    owner = st.read(via, owner, "ref")
                return wrap(f(owner, *[self.to_z3(a) for a in args]))
            if k == "uf":
                f = self.uni.uf(fn.name, fn.argtags, fn.ret)
                return self.mkval(f(*[self.to_z3(a) for a in args]),
                                  getattr(fn, "rettype", fn.ret))
            if k == "hook":
                return fn.fn(self, args, kwargs, st, fr)
        if isinstance(fn, VRef) and fn.cls:
            for c in self.uni.repo.mro(fn.cls):
                hk = self.uni.method_hooks.get(f"{c}.__call__")
                if hk is not None:
                    return hk(self, fn, args, kwargs, st, fr)
        if isinstance(fn, VClass):
            if self.is_exception_class(fn.name):
                return VExc(fn.name)
            return self.construct(fn.name, args, kwargs, st, fr)
        raise Unsupported(f"call of {fn}")

    def construct(self, cname, args, kwargs, st, fr):
        hook = getattr(self.uni, "construct_hook", None)
        if hook is not None:
            r = hook(self, cname, args, kwargs, st, fr)
            if r is not None:
                return r
        if cname in self.uni.free_ctors:
            return VTerm(cname, args, kwargs)
        info = self.uni.repo.cls(cname)
        if info is None:
            raise Unsupported(f"constructor of unknown class {cname}")
        obj = self.alloc(st, cname, self.uni.list_classes.get(cname),
                         cname.lower())
        kind, cinfo, fn = self.uni.repo.find_attr(cname, "__init__")
        if kind == "method":
            self.call_function(fn, cinfo, obj, args, kwargs, st, fr)
        return obj

    def call_super(self, node, st, fr):
        mname = node.func.attr
        args = [self.ev(a, st, fr) for a in node.args]
        kwargs = {k.arg: self.ev(k.value, st, fr) for k in node.keywords}
        selfv = fr.self_val
        if selfv is None:
            raise Unsupported("super() outside a method")
        mro = self.uni.repo.mro(fr.cls)
        for c in mro[1:]:
            info = self.uni.repo.cls(c)
            if info is None:
                if c == "list":
                    if mname == "__init__" and not args:
                        st.write("$len", selfv.e, z3.IntVal(0), "int")
                        return NONE
                    return self.contop(selfv, mname, args, kwargs, st, fr,
                                       builtin_only=True)
                if c in ("object", "ABC"):
                    continue
                if mname == "__init__":
                    return NONE
                raise Unsupported(f"super().{mname} reaches external {c}")
            if mname in info.methods:
                return self.call_function(info.methods[mname], info, selfv,
                                          args, kwargs, st, fr,
                                          static_dispatch=True)
        if mname in ("__init__", "__eq__"):
            return NONE
        raise Unsupported(f"super().{mname} not found")

    def bind(self, fn, selfv, args, kwargs, st, fr):
        """bind actuals to the parameters of a FunctionDef."""
        a = fn.args
        if a.vararg or a.kwarg or a.posonlyargs:
            raise Unsupported(f"signature of {fn.name}")
        names = [x.arg for x in a.args]
        env = {}
        actuals = list(args)
        if selfv is not None:
            actuals = [selfv] + actuals
        if len(actuals) > len(names):
            raise Unsupported(f"too many arguments to {fn.name}")
        for n, v in zip(names, actuals):
            env[n] = v
        ndef = len(a.defaults)
        defaults = dict(zip(names[len(names) - ndef:], a.defaults))
        for n in names[len(actuals):]:
            if n in kwargs:
                env[n] = kwargs[n]
            elif n in defaults:
                env[n] = self.ev(defaults[n], st,
                                 Frame(fr.func, fr.cls, None, env={}))
            else:
                raise Unsupported(f"missing argument {n} to {fn.name}")
        for kwo, dflt in zip(a.kwonlyargs, a.kw_defaults):
            if kwo.arg in kwargs:
                env[kwo.arg] = kwargs[kwo.arg]
            elif dflt is not None:
                env[kwo.arg] = self.ev(dflt, st,
                                       Frame(fr.func, fr.cls, None, env={}))
        for k in kwargs:
            if k not in names and k not in [x.arg for x in a.kwonlyargs]:
                raise Unsupported(f"unexpected keyword {k} to {fn.name}")
        return env

    def call_function(self, fn, info, selfv, args, kwargs, st, fr,
                      is_property=False, static_dispatch=False, relpath=None):
        uni = self.uni
        cname = info.name if info else None
        key = f"{cname}.{fn.name}" if cname else fn.name
        # record provenance of every function whose body/contract is used
        rel = info.relpath if info else relpath
        if rel:
            uni.repo.record(f"{rel}:{key}", rel, fn)
        # virtual dispatch: static class of receiver may have overriders
        recv_cls = selfv.cls if isinstance(selfv, VRef) else cname
        hook = uni.method_hooks.get(key)
        if hook is None and recv_cls and not static_dispatch:
            # hooks of the receiver's classes down to the class that
            # defines the resolved method (not of its base classes)
            for c in uni.repo.mro(recv_cls):
                if f"{c}.{fn.name}" in uni.method_hooks:
                    hook = uni.method_hooks[f"{c}.{fn.name}"]
                    break
                if c == cname:
                    break
        if hook is not None:
            # assumed model of a repo method written as an engine hook
            return hook(self, selfv, args, kwargs, st, fr)
        contract = uni.contracts.get(key)
        if contract is None and recv_cls and not static_dispatch:
            contract = uni.contract_for(recv_cls, fn.name)
        if contract is not None:
            if getattr(contract, "call_hook", None) is not None:
                # the callee's (separately verified) contract is used at
                # call sites through an engine-level summary
                return contract.call_hook(self, selfv, args, kwargs, st, fr)
            return self.call_by_contract(contract, fn, selfv, args, kwargs,
                                         st, fr)
        if key in uni.opaque:
            argv = ([selfv] if selfv is not None else []) + list(args)
            ret = uni.opaque[key]
            f = uni.uf("uf_" + key.replace(".", "_"),
                       [base_tag(self.vtag(a)) for a in argv], base_tag(ret))
            return self.mkval(f(*[self.to_z3(a) for a in argv]), ret)
        if not static_dispatch and isinstance(selfv, VRef) and recv_cls:
            overs = [o for o in uni.repo.overriders(recv_cls, fn.name)]
            if overs and key not in uni.inline_ok:
                raise Unsupported(
                    f"virtual call {recv_cls}.{fn.name} overridden in "
                    f"{overs[:4]} needs a contract")
        # inline the real body
        if self.depth > 12:
            raise Unsupported(f"inline depth exceeded at {key}")
        env = self.bind(fn, selfv, args, kwargs, st, fr)
        sub = Frame(fr.func, cname, uni.contracts.get("inline:" + key),
                    env=env, spec=fr.spec)
        sub.self_val = selfv
        sub.inline_key = key
        sub.relpath = rel or getattr(fr, "relpath", None)
        sub.fn_node = fn
        sub.old = fr.old
        self.depth += 1
        try:
            self.exec_block(fn.body, st, sub)
            return NONE
        except _Return as ret:
            return ret.value
        finally:
            self.depth -= 1

    def vtag(self, v):
        if isinstance(v, VRef):
            return "ref"
        if isinstance(v, VNone):
            return "ref"
        if isinstance(v, VEnum):
            return "int"
        return v.tag

    def call_by_contract(self, c, fn, selfv, args, kwargs, st, fr):
        env = self.bind(fn, selfv, args, kwargs, st, fr)
        for name, tag in c.params.items():
            v = env.get(name)
            if isinstance(v, VRef) and v.cls is None:
                env[name] = self.mkref(v.e, tag)
            if isinstance(v, VPy) and isinstance(v.obj, (list, tuple)) and \
                    tag.startswith("list[") and v.obj:
                env[name] = self.list_from([self.lift(x) for x in v.obj], st)
        missing = set()
        for g in c.ghost:
            if g in fr.env:
                env[g] = fr.env[g]
            else:
                missing.add(g)

        def skip(text):
            """clauses about a ghost the caller does not track are dropped
            (= the ghost is instantiated so that its guard is false)"""
            if not missing:
                return False
            return any(isinstance(n, ast.Name) and n.id in missing
                       for n in ast.walk(parse_expr(text))) or \
                any(isinstance(n, ast.Call) and isinstance(n.func, ast.Name)
                    and n.func.id in self.uni.ghost_preds
                    for n in ast.walk(parse_expr(text)))
        sub = Frame(fr.func, fr.cls, c, env=env, spec=True)
        # 1. preconditions become obligations of the caller
        for label, text, _ in c.requires:
            if skip(text):
                continue
            g = self.truth(self.ev(parse_expr(text), st, sub), st)
            self.oblige(fr, st, "callpre", f"{c.name}.{label}", g)
        old = st.snapshot()
        sub.old = old
        # 2. frame
        for f in c.modifies:
            st.havoc(f)
        if c.allocates:
            self.heap_closure(st)
            a0 = st.field("$alloc", "bool")
            st.havoc("$alloc")
            a1 = st.field("$alloc", "bool")
            x = z3.Const("x", Ref)
            st.assume(z3.ForAll([x], z3.Implies(z3.Select(a0, x),
                                                z3.Select(a1, x))))
        # 3. outcome: exceptional exits first
        for exc, cond in (c.call_raises if c.call_raises is not None
                          else c.raises).items():
            mode, text = cond if isinstance(cond, tuple) else ("may", cond)
            if text is None:
                flag = fresh(f"raises_{exc}", BOOL)
            else:
                presub = Frame(fr.func, fr.cls, c, env=env, spec=True)
                condz = self.truth(self.ev(parse_expr(text), old, presub), old)
                flag = condz if mode == "iff" else \
                    z3.And(condz, fresh(f"raises_{exc}", BOOL))
            if self.dec.branch(st, flag):
                for label, text2, _ in c.on_raise:
                    st.assume(self.truth(self.ev(parse_expr(text2), st, sub),
                                         st))
                raise PyRaise(VExc(exc))
        # 4. normal exit
        if c.returns is not None:
            sub.result = self.sym("ret_" + fn.name, c.returns, st)
            if c.allocates and isinstance(sub.result, VRef):
                st.assume(z3.Select(st.field("$alloc", "bool"),
                                    sub.result.e))
        else:
            sub.result = NONE
        for label, text, _ in c.ensures:
            if skip(text):
                continue
            if c.call_ensures is not None and label not in c.call_ensures:
                continue
            st.assume(self.truth(self.ev(parse_expr(text), st, sub), st))
        return sub.result
