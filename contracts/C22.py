"""C22 — distributed-memory LFRic code never reads a dirty halo.

Contracts on the real bodies of the decision functions:
  LFRicHaloExchange.required      no exchange only if, for EVERY run-time halo
                                  depth H and every run-time stencil extent,
                                  the depth the writer left clean covers what
                                  every (non annexed-only) reader needs
  PSyLoop.unique_modified_args    every modified argument of the requested
                                  type is returned (its halo is marked)
"""
import z3
from pyvc.interp import Contract, LoopSpec
from pyvc.values import (VRef, VFunc, VBool, VInt, VStr, NONE, Ref, STR,
                         EnumDesc)

ID = "C22"
LEVEL = "proof"
DY = "dynamo0p3.py"
PL = "domain/common/psylayer/psyloop.py"
NULLC = z3.Const("null", Ref)


def build(uni):
    info = uni.repo.cls("AccessType", "core/access_type.py")
    uni.enums["AccessType"] = EnumDesc("AccessType", list(info.consts))
    uni.fields.update({
        "_literal_depth": "int", "_var_depth": "VarDepth",
        "_max_depth": "bool", "_max_depth_m1": "bool",
        "_annexed_only": "bool", "_dirty_outer": "bool",
        "compute_annexed_dofs": "bool",
        "_arguments": "Arguments", "_args": "list[Argument]",
        "_access": "enum:AccessType", "_name": "str", "_argument_type": "str",
    })
    READS = z3.Function("halo_read_depth_info", Ref, Ref)
    WRITE = z3.Function("halo_write_info", Ref, Ref)
    KERNS = z3.Function("kernels_of", Ref, Ref)
    CFG = z3.Const("the_lfric_config", Ref)
    AL0 = z3.Const("H0_$alloc", z3.ArraySort(Ref, z3.BoolSort()))
    x = z3.Const("ax", Ref)
    for f in (READS, KERNS):
        uni.axioms.append(z3.ForAll([x], z3.And(
            f(x) != NULLC, z3.Select(AL0, f(x))), patterns=[f(x)]))
    uni.axioms.append(CFG != NULLC)

    def field_hook(attr):
        def h(it, selfv, args, kw, st, fr):
            return it.getattr(VRef(selfv.e, "Obj"), attr, st, fr)
        return h

    def h_reads(it, selfv, args, kw, st, fr):
        return VRef(READS(selfv.e), "list", "HaloReadAccess")
    uni.method_hooks.update({
        "LFRicHaloExchange._compute_halo_read_depth_info": h_reads,
        "LFRicHaloExchange._compute_halo_write_info":
            lambda it, s, a, k, st, fr: VRef(WRITE(s.e), "HaloWriteAccess"),
        "Config.get": lambda it, s, a, k, st, fr: VRef(CFG, "ConfigObj"),
        "ConfigObj.api_conf": lambda it, s, a, k, st, fr: VRef(CFG,
                                                               "ConfigObj"),
        "HaloDepth.annexed_only": field_hook("_annexed_only"),
        "HaloDepth.max_depth": field_hook("_max_depth"),
        "HaloDepth.max_depth_m1": field_hook("_max_depth_m1"),
        "HaloDepth.var_depth": field_hook("_var_depth"),
        "HaloDepth.literal_depth": field_hook("_literal_depth"),
        "HaloWriteAccess.dirty_outer": field_hook("_dirty_outer"),
        "Node.kernels": lambda it, s, a, k, st, fr: VRef(
            KERNS(s.e), "list", "Kern"),
        "Kern.arguments": field_hook("_arguments"),
        "Arguments.args": field_hook("_args"),
        "Argument.access": field_hook("_access"),
        "Argument.name": field_hook("_name"),
        "Argument.argument_type": field_hook("_argument_type"),
    })
    uni.note_assumption(
        "assumed models (engine hooks): _compute_halo_read_depth_info / "
        "_compute_halo_write_info return records that are functions of the "
        "exchange (how they are computed from the schedule is not under "
        "contract); record accessors return stored attributes; the "
        "configuration object is fixed")
    uni.consts["RD"] = VFunc("hook", fn=lambda it, a, k, st, fr: VRef(
        READS(a[0].e), "list", "HaloReadAccess"))
    uni.consts["WR"] = VFunc("hook", fn=lambda it, a, k, st, fr: VRef(
        WRITE(a[0].e), "HaloWriteAccess"))
    uni.consts["K"] = VFunc("hook", fn=lambda it, a, k, st, fr: VRef(
        KERNS(a[0].e), "list", "Kern"))
    uni.consts["lower"] = VFunc("uf", name="str_lower", argtags=["str"],
                                ret="str")
    uni.preds.update({
        # semantics of the records for a run-time halo depth H and a
        # run-time stencil extent v (LFRic halo conventions)
        "CLEANED": (["w", "H"], "ite(w._max_depth, H, w._literal_depth) - "
                                "ite(w._dirty_outer, 1, 0)"),
        "NEEDED": (["r", "H", "v"], "ite(r._max_depth, H, "
                   "ite(r._max_depth_m1, H - 1, r._literal_depth + "
                   "ite(r._var_depth is not None, v, 0)))"),
        "RWF": (["s"], """
            len(RD(s)) >= 1 and forall(lambda q: implies(0 <= q and
                q < len(RD(s)), at(RD(s), q) is not None and
                at(RD(s), q)._literal_depth >= 0)) and
            implies(WR(s) is not None, WR(s)._literal_depth >= 0)
            """),
        # recorded known class: a single 'all but the outermost level'
        # reader after a writer that cleans to a fixed depth
        "K_M1": (["s"], "len(RD(s)) == 1 and at(RD(s), 0)._max_depth_m1 and "
                        "not at(RD(s), 0)._max_depth and "
                        "at(RD(s), 0)._var_depth is None"),
    })
    cs = []
    SAFE = ("forall(lambda H, v, q: implies(H >= 1 and v >= 1 and 0 <= q and "
            "q < len(RD(self)) and not at(RD(self), q)._annexed_only and "
            "NEEDED(at(RD(self), q), H, v) <= H, "
            "WR(self) is not None and CLEANED(WR(self), H) >= "
            "NEEDED(at(RD(self), q), H, v)))")
    c = Contract(
        f"{DY}:LFRicHaloExchange.required",
        params={"self": "LFRicHaloExchange", "ignore_hex_dep": "bool"},
        requires=[("records", "RWF(self)")],
        ensures=[
            ("no_exchange_only_if_clean_enough_outside_known_class",
             f"implies(not result[0] and not K_M1(self), {SAFE})"),
            ("no_exchange_only_if_clean_enough",
             f"implies(not result[0], {SAFE})"),
            ("unknown_means_required", "implies(not result[1], result[0])"),
        ],
        raises={}, modifies=[],
        covers=[("not_required", "not result[0]"),
                ("required_known", "result[0] and result[1]"),
                ("required_unknown", "result[0] and not result[1]")])
    uni.contracts["LFRicHaloExchange.required"] = c
    uni.loopspecs["LFRicHaloExchange.required"] = {0: LoopSpec(
        invariants=[
            ("ok_so_far", "forall(lambda q: implies(0 <= q and q < _k, "
                          "at(_iter, q)._literal_depth <= clean_depth))"),
            ("iter", "_iter is RD(self)")], modifies=[])}
    cs.append(c)

    # ------------------------------------------------- unique_modified_args
    uni.preds.update({
        "MODIFIES": (["a"], "a._access == AccessType.WRITE or "
                            "a._access == AccessType.READWRITE or "
                            "a._access == AccessType.INC or "
                            "a._access == AccessType.READINC or "
                            "a._access == AccessType.SUM"),
        "KWF": (["lp"], """
            len(K(lp)) >= 0 and
            forall(lambda i: implies(0 <= i and i < len(K(lp)),
                at(K(lp), i) is not None and
                at(K(lp), i)._arguments is not None and
                at(K(lp), i)._arguments._args is not None and
                len(at(K(lp), i)._arguments._args) >= 0 and
                forall(lambda j: implies(0 <= j and
                    j < len(at(K(lp), i)._arguments._args),
                    at(at(K(lp), i)._arguments._args, j) is not None))))
            """),
        "NAMED": (["lst", "n"], "exists(lambda q: 0 <= q and q < len(lst) "
                                "and at(lst, q)._name == n)"),
    })
    c = Contract(
        f"{PL}:PSyLoop.unique_modified_args",
        params={"self": "PSyLoop", "arg_type": "str"},
        requires=[("kernels", "KWF(self)")],
        returns="list[Argument]",
        ensures=[
            ("every_modified_argument_is_returned",
             "forall(lambda i, j: implies(0 <= i and i < len(K(self)) and "
             "0 <= j and j < len(at(K(self), i)._arguments._args) and "
             "lower(at(at(K(self), i)._arguments._args, j)._argument_type) "
             "== arg_type and "
             "MODIFIES(at(at(K(self), i)._arguments._args, j)), "
             "NAMED(result, at(at(K(self), i)._arguments._args, j)._name)))"),
        ],
        raises={}, modifies=["$len", "$items.ref", "$items.str"],
        covers=[("some", "len(result) >= 1")])
    uni.contracts["PSyLoop.unique_modified_args"] = c
    uni.local_types["PSyLoop.unique_modified_args"] = {
        "args": "list[Argument]", "arg_names": "list[str]"}
    FRAME = ("frame", "forall(lambda x: implies(x is not args and x is not arg_names, "
                      "select_list(x) == entry(select_list(x))), "
                      "'list[Argument]')")
    LISTS = ("fresh(args) and fresh(arg_names) and args is not arg_names and "
             "len(args) == len(arg_names) and len(args) >= 0 and "
             "forall(lambda q: implies(0 <= q and q < len(args), "
             "at(args, q) is not None and "
             "at(args, q)._name == at(arg_names, q)))")
    uni.loopspecs["PSyLoop.unique_modified_args"] = {
        0: LoopSpec(invariants=[
            ("lists", LISTS), FRAME,
            ("done", "forall(lambda i, j: implies(0 <= i and i < _k and "
                     "0 <= j and j < len(at(K(self), i)._arguments._args) "
                     "and lower(at(at(K(self), i)._arguments._args, j)."
                     "_argument_type) == arg_type and "
                     "MODIFIES(at(at(K(self), i)._arguments._args, j)), "
                     "NAMED(args, at(at(K(self), i)._arguments._args, j)."
                     "_name)))"),
            ("iter", "_iter is K(self)")],
            modifies=["$len", "$items.ref", "$items.str"]),
        1: LoopSpec(invariants=[
            ("lists", LISTS), FRAME,
            ("prefix", "len(args) >= entry(len(args)) and "
                       "forall(lambda q: implies(0 <= q and "
                       "q < entry(len(args)), "
                       "at(args, q) is entry(at(args, q))))"),
            ("done_here", "forall(lambda j: implies(0 <= j and j < _k and "
                          "lower(at(_iter, j)._argument_type) == arg_type "
                          "and MODIFIES(at(_iter, j)), "
                          "NAMED(args, at(_iter, j)._name)))"),
            ("iter", "_iter is call._arguments._args")],
            modifies=["$len", "$items.ref", "$items.str"]),
    }
    cs.append(c)
    return cs


TRUSTED = [
    "pyvc VC generator and z3 (linear integer arithmetic, quantified over "
    "the run-time halo depth H and stencil extent v)",
    "LFRic halo conventions as transcribed in CLEANED / NEEDED: a writer "
    "cleans its literal depth (the whole halo if max_depth) minus the "
    "outermost level if it is a continuous writer; a reader needs its "
    "literal depth plus its run-time extent, the whole halo, or all but "
    "the outermost level; annexed-only readers need no halo level",
    "ASSUMED, not proved: how the records are computed from the schedule "
    "(_compute_halo_read_depth_info, HaloReadAccess/_compute_from_field), "
    "the placement of exchanges over the whole invoke and its preservation "
    "by redundant computation, colouring, asynchronous exchanges and OpenMP "
    "(the protocol-level invariant), gen_mark_halos_clean_dirty",
]
EXPLANATION = (
    "required() answers 'no exchange' only if, for every halo depth H >= 1 "
    "and every stencil extent v >= 1, the writer's cleaned depth is at "
    "least what each non-annexed reader needs (outside one recorded known "
    "class); 'not known' implies 'required'. unique_modified_args returns "
    "(by name) every argument of the requested type whose access modifies "
    "it, including read-then-increment.")


def replay(name, ob, model, uni):
    from realise import C22 as R
    if "required" in name:
        return R.search(skip_known=not name.endswith("clean_enough"))
    if "unique_modified_args" in name:
        return R.modified_args()
    return {"confirmed": False}


def replay_known(k, uni):
    from realise import C22 as R
    return R.known(k.get("id"))
