"""C19 — PSyAD adjoints are the exact transpose of the tangent-linear code.

The real PSyAD (generate_adjoint_str: AdjointVisitor, AssignmentTrans,
preprocessing) is closed code once the tangent-linear kernel is fixed.  Two
kinds of obligations are generated from what it WRITES on every run:
  * loop reversal: for every combination of bound shapes (reference, sum,
    difference, product, negation, literal; steps +-1, +-2, +-3, 5) the
    written bounds of the reversed loop are translated to z3 terms and, for
    ALL integer values of the variables (Fortran truncating MOD / division),
    (a) a non-empty loop is reversed exactly (same trip count, starts at
    the last iteration, step negated) and (b) an empty loop stays empty;
  * transpose: for a family of kernels (assignments with self terms of
    either sign, unit / non-unit / negative / expression-bounded loops,
    stencil with a local active scalar, active names spelled in any case,
    IF on passive data) tangent-linear and adjoint code are evaluated
    symbolically (sympy; every active input and passive real coefficient a
    symbol, extents concrete) and <A x, y> - <x, A* y> is decided to be the
    zero polynomial, i.e. for ALL real inputs; passive variables unchanged.
"""
ID = "C19"
LEVEL = "proof"


def build(uni):
    uni.note_assumption(
        "closed code executed: generate_adjoint_str on each kernel of the "
        "family; the written Fortran is re-read by the real front end and "
        "interpreted into z3 integer terms (loop bounds) or sympy "
        "polynomials (values)")
    return []


TRUSTED = [
    "z3 (integer obligations), sympy.expand as decision procedure for "
    "polynomial identity, the PSyIR-to-term translators in realise/C19.py",
    "the Fortran front end and back end used to re-read what PSyAD wrote",
    "array extents and passive integers are concrete in the transpose "
    "family (bounded in extent, unbounded in values); kernels outside the "
    "family and the generated test harness are not covered",
]
EXPLANATION = (
    "For every bound shape the reversed loop PSyAD writes enumerates the "
    "reverse of the original iteration sequence for all integer bounds; "
    "for every kernel of the family the written adjoint is the exact "
    "transpose of the tangent-linear map for all real values.")


def extra(uni, tier, seed):
    from pyvc.runner import Extra
    from realise import C19 as R
    out = []
    res = R.loop_bound_obligations(thorough=(tier == "thorough"))
    n_ok = 0
    empty_bad = {"unit": [], "nonunit": []}
    for name, verdict, detail in res:
        if verdict == "unsat":
            n_ok += 1
            continue
        if name.endswith(":empty") and verdict == "sat":
            step = name.split("]")[0].split(",")[-1].strip()
            empty_bad["unit" if step in ("1", "-1") else "nonunit"].append(
                (name, detail))
            continue
        out.append(Extra(
            "table#" + name, False, detail[:400],
            kind="z3 obligation over all integer bounds on the loop PSyAD "
                 "writes", undecided=(verdict == "unknown"),
            replay={"confirmed": verdict in ("sat", "error"),
                    "obligation": name, "detail": detail}))
    for cls, bad in empty_bad.items():
        if bad:
            out.append(Extra(
                f"table#loop_node#empty-loop-stays-empty[{cls}-step]", False,
                f"{len(bad)} bound shapes, e.g. {bad[0][0]}: {bad[0][1]}"[
                    :500],
                kind="z3 obligation over all integer bounds on the loop "
                     "PSyAD writes",
                replay={"confirmed": True, "shapes": [b[0] for b in bad],
                        "detail": bad[0][1]}))
        else:
            n_ok += 1
    fam = R.family(tier == "thorough")
    for kid, ok, detail, src in fam:
        if ok:
            n_ok += 1
            continue
        out.append(Extra(
            "transpose#" + kid, False, detail[:400],
            kind="polynomial identity <A x, y> = <x, A* y> on the adjoint "
                 "PSyAD writes",
            replay={"confirmed": True, "input": {"tangent_linear": src},
                    "observed": detail[:2000]}))
    out.append(Extra(
        "psyad#all", n_ok > 50,
        f"{n_ok} obligations discharged ({len(res)} loop-bound obligations "
        f"over all integers, {len(fam)} transpose identities over all reals)",
        kind="z3 / polynomial-identity obligations on what PSyAD writes",
        count=n_ok, samples=[r[0] for r in res[:3]] + [f[0] for f in fam[:3]],
        undecided=n_ok <= 50))
    return out


def replay(name, ob, model, uni):
    return {"confirmed": False}


def replay_known(k, uni):
    from realise import C19 as R
    if k["id"] == "empty-loop-nonunit-step":
        return any(n.endswith(":empty") and v == "sat"
                   for n, v, _ in R.loop_bound_obligations())
    return None
