"""Chained obligations: a check re-verifies a contract owned by another
property (the property depends on that callee), regenerating its VCs from
the current source."""
import hashlib


def chain_extras(uni, mod, suffix, replay_fn=None, only=None, budget=20000):
    """VCs of the contract of `mod` whose name ends with `suffix` (those
    whose obligation name contains `only`, if given) as Extra records"""
    from .runner import Extra
    from .extract import Repo
    from .interp import Universe
    from .verify import verify_function
    from .smt import _solve
    u2 = Universe(Repo())
    u2.kf_classes = {}
    c = [c for c in mod.build(u2) if c.name.endswith(suffix)][0]
    rep = verify_function(u2, c)
    out, n_ok = [], 0
    for ob in rep.obligations:
        if only and only not in ob.name:
            continue
        text = ob.smt2()
        _, r, _, _ = _solve((hashlib.sha256(text.encode()).hexdigest(),
                             text, budget, True))
        if r == "unsat":
            n_ok += 1
            continue
        rp = {"confirmed": False}
        if replay_fn is not None:
            try:
                rp = replay_fn(ob.name, ob, None, u2) or rp
            except Exception as err:       # noqa
                rp = {"confirmed": False, "replay_error": repr(err)}
        rp.update({"obligation": ob.name, "solver": r})
        out.append(Extra(
            f"{mod.ID}:{ob.name}", False, f"solver: {r}",
            kind=f"VC of {suffix} (contract of {mod.ID})",
            undecided=(r != "sat" and not rp.get("confirmed")), replay=rp))
    for k, v in u2.repo.used.items():
        uni.repo.used[k] = v
    out.append(Extra(
        f"{mod.ID}:{suffix}#all",
        bool(out) or (n_ok > 0 and not rep.unsupported),
        f"{n_ok} obligations discharged",
        kind=f"VCs of the {suffix} contract (shared with {mod.ID})",
        count=n_ok, undecided=bool(rep.unsupported)))
    return out
