"""Small pure functions over the container operations the contracts rely on.
tools/selftest.py runs each of them (a) in CPython and (b) through the pyvc
engine with the inputs pinned by a precondition, and requires that the
engine PROVES result == CPython's result (and the same exception class)."""


def f_pop(xs, i):
    return xs.pop(i)


def f_insert_len(xs, i, v):
    xs.insert(i, v)
    return xs[0] * 100 + xs[len(xs) - 1] * 10 + len(xs)


def f_remove(xs, v):
    xs.remove(v)
    return xs[0] * 10 + len(xs)


def f_index(xs, v):
    return xs.index(v)


def f_slice_sum(xs, a, b):
    ys = xs[a:b]
    r = len(ys) * 100
    if len(ys) > 0:
        r = r + ys[0] * 10 + ys[len(ys) - 1]
    return r


def f_filter(xs, t):
    ys = [x for x in xs if x > t]
    return len(ys) > 0


def f_any_all(xs, t):
    r = 0
    if any(x > t for x in xs):
        r = r + 1
    if all(x > t for x in xs):
        r = r + 2
    return r


def f_set_subset(a, b, c):
    s = set()
    s.add(a)
    s.add(b)
    u = set()
    u.add(b)
    u.add(c)
    u.add(a)
    r = 0
    if s.issubset(u):
        r = r + 1
    if u.issubset(s):
        r = r + 2
    return r


def f_in_list(xs, v):
    if v in xs:
        return 1
    return 0


def f_negative_index(xs, i):
    return xs[i]


def f_bool_ops(a, b, c):
    if (a > 0 or b > 0) and c > 0:
        return 1
    if not (a > 0 and b > 0):
        return 2
    return 3


def f_floor_div_mod(a, b):
    return (a // b) * 100 + a % b


def f_dict(a, b, c):
    d = {}
    d[a] = 10
    d[b] = 20
    r = 0
    if c in d:
        r = d[c]
    r = r + d.get(c, 5) * 100
    if a in d and b in d:
        r = r + 1000
    return r


def f_set_remove(a, b, c):
    s = set()
    s.add(a)
    s.add(b)
    s.discard(c)
    r = 0
    if a in s:
        r = r + 1
    if b in s:
        r = r + 2
    return r


def f_append_extend(xs, ys):
    zs = []
    zs.append(3)
    zs.extend(xs)
    zs.extend(ys)
    r = len(zs) * 100
    if len(zs) > 1:
        r = r + zs[1] * 10 + zs[len(zs) - 1]
    return r


def f_str_ops(a, b):
    s = "n" + str(a)
    t = "n" + str(b)
    if s == t:
        return 1
    return 0


def f_chain_compare(a, b, c):
    if a < b <= c:
        return 1
    if a == b != c:
        return 2
    return 3


def f_min_max_abs(a, b):
    return max(a, b) * 100 + min(a, b) * 10 + abs(a - b)
