"""Shared small definitions of the VC generator."""
import ast
import z3
from .values import (Ref, NULL, INT, BOOL, STR, sort_of, V, VInt, VBool, VStr,
                     VRef, VNone, NONE, VTuple, VPy, VClass, VExc, VFunc,
                     VTerm, VEnum, EnumDesc, VAtom, ATOM)
from .state import Unsupported

TYPE_OF = z3.Function("type_of", Ref, INT)


class _Return(Exception):
    def __init__(self, value):
        super().__init__()
        self.value = value


class _Break(Exception):
    pass


class _Continue(Exception):
    pass


def tag_parts(tag):
    """'list[ref:Node]' -> ('list', 'ref:Node') ; 'Node' -> ('Node', None)"""
    if "[" in tag:
        i = tag.index("[")
        return tag[:i], tag[i + 1:-1]
    return tag, None


def base_tag(tag):
    head, _ = tag_parts(tag)
    if head.startswith("enum:"):
        return "int"
    return head if head in ("int", "bool", "str", "atom") else "ref"


def wrap(e, cls=None, elem=None):
    """z3 expr -> V by sort."""
    s = e.sort()
    if s == INT:
        return VInt(e)
    if s == BOOL:
        return VBool(e)
    if s == STR:
        return VStr(e)
    if s == Ref:
        return VRef(e, cls, elem)
    if s == ATOM:
        return VAtom(e)
    raise Unsupported(f"cannot wrap sort {s}")


class Frame:
    def __init__(self, func, cls, contract, env=None, spec=False):
        self.func = func            # label used in obligation names
        self.cls = cls              # class name the code lives in (super())
        self.contract = contract
        self.env = env if env is not None else {}
        self.spec = spec
        self.loop_ord = 0
        self.old = None             # State snapshot at function entry
        self.old_env = None
        self.result = None
        self.exc = None
        self.self_val = None


_PARSE_CACHE = {}


def parse_expr(text):
    if text not in _PARSE_CACHE:
        _PARSE_CACHE[text] = ast.parse("(" + text.strip() + "\n)", mode="eval").body
    return _PARSE_CACHE[text]


EXC_NAMES = {"Exception", "IndexError", "KeyError", "ValueError", "TypeError",
             "AttributeError", "NotImplementedError", "ZeroDivisionError",
             "RuntimeError", "StopIteration", "AssertionError", "OSError",
             "FileExistsError", "IOError", "BaseException"}

BUILTIN_NAMES = {"len", "range", "isinstance", "enumerate", "zip", "min",
                 "max", "abs", "str", "int", "bool", "list", "set", "sorted",
                 "any", "all", "print", "type", "tuple", "reversed", "id",
                 "implies", "ite", "typeis", "fresh", "unchanged", "norm",
                 "card", "dict", "hasattr", "getattr", "sum", "iff",
                 "distinct_upto", "select", "substr", "at",
                 "unchanged_since_head", "entry", "select_set", "head",
                 "select_dict", "select_list"}

CONTAINER_METHODS = {"append", "pop", "insert", "extend", "remove", "index",
                     "reverse", "clear", "copy", "add", "discard", "keys",
                     "values", "items", "get", "update", "count", "sort", "union", "issubset",
                     "__setitem__", "__delitem__", "__getitem__", "__len__"}
