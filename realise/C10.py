"""Realiser for C10: real directive nodes around parsed loop nests."""


def _nest(body_inner="", extra_outer=""):
    from psyclone.psyir.frontend.fortran import FortranReader
    from psyclone.psyir.nodes import Loop
    code = (f"subroutine s(a, n)\n integer :: n, i, j\n real :: a(n, n)\n"
            f" do j = 1, n\n  do i = 1, n\n{body_inner}\n  end do\n"
            f"{extra_outer}\n end do\nend subroutine s\n")
    psyir = FortranReader().psyir_from_source(code)
    return psyir, psyir.walk(Loop)[0]


def _wrap(loop, directive_cls, collapse, in_parallel=True, **kw):
    from psyclone.psyir.nodes import OMPParallelDirective
    parent, pos = loop.parent, loop.position
    d = directive_cls(children=[loop.detach()], collapse=collapse, **kw)
    if in_parallel:
        par = OMPParallelDirective.create(children=[d])
        parent.addchild(par, pos)
    else:
        parent.addchild(d, pos)
    return d


def known(kid):
    from psyclone.psyir.nodes import OMPDoDirective, OMPLoopDirective
    from psyclone.errors import GenerationError
    if kid == "collapse-empty-body":
        _, loop = _nest(body_inner="")
        d = _wrap(loop, OMPDoDirective, 2)
        try:
            d.validate_global_constraints()
        except GenerationError:
            return False
        except IndexError:
            return True
        return False
    if kid == "omp-loop-imperfect-nest":
        _, loop = _nest(body_inner="   a(i, j) = 0.0",
                        extra_outer="  a(1, j) = 1.0")
        d = _wrap(loop, OMPLoopDirective, 2)
        try:
            d.validate_global_constraints()
        except GenerationError:
            return False
        return True           # accepted: collapse(2) over an imperfect nest
    return None


def nested_parallel():
    """omp parallel inside omp parallel do must be refused"""
    from psyclone.psyir.nodes import (OMPParallelDirective,
                                      OMPParallelDoDirective, Loop)
    from psyclone.errors import GenerationError
    psyir, outer = _nest(body_inner="   a(i, j) = 0.0")
    inner = outer.walk(Loop)[1]
    ip, ipos = inner.parent, inner.position
    par = OMPParallelDirective.create(children=[inner.detach()])
    ip.addchild(par, ipos)
    op, opos = outer.parent, outer.position
    pdo = OMPParallelDoDirective(children=[outer.detach()])
    op.addchild(pdo, opos)
    try:
        par.validate_global_constraints()
    except GenerationError:
        return {"confirmed": False}
    return {"confirmed": True, "input_class": "nested-parallel",
            "input": {"tree": "omp parallel do { do j { omp parallel { do i"
                              " } } }"},
            "observed": "OMPParallelDirective.validate_global_constraints "
            "accepts a parallel region nested in a parallel do"}


def run(name=""):
    if "not_nested" in name:
        return nested_parallel()
    if "IndexError" not in name and "perfect_nest" not in name:
        return {"confirmed": False}
    for kid in ("collapse-empty-body", "omp-loop-imperfect-nest"):
        if known(kid):
            return {"confirmed": True, "input_class": kid,
                    "input": {"case": kid},
                    "observed": {"collapse-empty-body":
                                 "validate_global_constraints raises "
                                 "IndexError (not GenerationError) for "
                                 "collapse(2) over a nest whose inner loop "
                                 "body is empty",
                                 "omp-loop-imperfect-nest":
                                 "OMPLoopDirective collapse(2) accepted "
                                 "over an imperfect nest"}[kid]}
    return {"confirmed": False}
