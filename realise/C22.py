"""Realiser for C22: the real LFRicHaloExchange.required on concrete
read/write depth records (the two record-producing methods of a real halo
exchange are replaced by the given records)."""
import os


def _exchange():
    from psyclone.parse.algorithm import parse
    from psyclone.psyGen import PSyFactory
    from psyclone.configuration import Config
    import psyclone
    import psyclone.transformations   # (import order: avoids a circular import)
    from psyclone.dynamo0p3 import LFRicHaloExchange
    base = os.path.join(os.path.dirname(psyclone.__file__), "tests",
                        "test_files", "dynamo0p3")
    Config.get().api = "lfric"
    _, info = parse(os.path.join(base, "4.8_multikernel_invokes.f90"),
                    api="lfric")
    psy = PSyFactory("lfric", distributed_memory=True).create(info)
    sched = psy.invokes.invoke_list[0].schedule
    return sched, sched.walk(LFRicHaloExchange)[0]


_CACHE = []


def run_required(write, reads):
    """write: dict or None; reads: list of dicts (attributes of HaloDepth)"""
    import psyclone.transformations   # noqa (import order)
    from psyclone.dynamo0p3 import HaloDepth
    if not _CACHE:
        _CACHE.append(_exchange())
    sched, hx = _CACHE[0]

    def mk(attrs):
        d = HaloDepth(sched.symbol_table)
        for k, v in attrs.items():
            setattr(d, "_" + k, v)
        return d
    wrec = None
    if write is not None:
        wrec = mk({k: v for k, v in write.items() if k != "dirty_outer"})
        wrec._dirty_outer = write.get("dirty_outer", False)
        type(wrec).dirty_outer = property(lambda s: s._dirty_outer)
    rrecs = [mk(r) for r in reads]
    hx._compute_halo_read_depth_info = lambda ignore_hex_dep=False: rrecs
    hx._compute_halo_write_info = lambda: wrec
    try:
        return hx.required()
    finally:
        if "dirty_outer" in type(wrec).__dict__ if wrec else False:
            del type(wrec).dirty_outer


def known(kid):
    if kid != "max-depth-minus-one-reader":
        return None
    # writer cleaned to literal depth 2 with a dirty outermost level
    # (clean depth 1); the reader needs all but the outermost halo level
    req, _ = run_required({"literal_depth": 2, "dirty_outer": True},
                          [{"max_depth_m1": True}])
    return req is False      # no exchange although H-1 > 1 for H >= 3


def _cleaned(w, H):
    return (H if w.get("max_depth") else w.get("literal_depth", 0)) - \
        (1 if w.get("dirty_outer") else 0)


def _needed(r, H, v):
    if r.get("max_depth"):
        return H
    if r.get("max_depth_m1"):
        return H - 1
    return r.get("literal_depth", 0) + (v if r.get("var_depth") else 0)


def search(skip_known=True):
    """enumerated records; spec evaluated by brute force over H, v"""
    import itertools
    writes = [None] + [dict(literal_depth=l, dirty_outer=d, max_depth=m)
                       for l in (0, 1, 2, 3) for d in (False, True)
                       for m in (False, True)]
    reads1 = [dict(literal_depth=l) for l in (0, 1, 2, 3)] + \
        [dict(literal_depth=l, var_depth="extent") for l in (0, 1)] + \
        [dict(max_depth=True), dict(max_depth_m1=True)]
    n = 0
    for w in writes:
        for rs in [[r] for r in reads1] + \
                [[a, b] for a, b in itertools.combinations(reads1[:6], 2)]:
            known_class = len(rs) == 1 and rs[0].get("max_depth_m1")
            if known_class and skip_known:
                continue
            n += 1
            req, _ = run_required(w, [dict(r) for r in rs])
            if req:
                continue
            for H in range(1, 7):
                for v in range(1, 5):
                    for r in rs:
                        need = _needed(r, H, v)
                        if need > H:
                            continue
                        if w is None or _cleaned(w, H) < need:
                            return {"confirmed": True, "cases": n,
                                    "input_class": "m1" if known_class
                                    else "other",
                                    "input": {"write": w, "reads": rs,
                                              "H": H, "extent": v},
                                    "observed": "required() says no "
                                    "exchange is needed but the reader "
                                    f"needs depth {need} and only "
                                    f"{_cleaned(w, H) if w else 0} is clean"}
    return {"confirmed": False, "cases": n}


def modified_args():
    """real unique_modified_args on invokes with INC / READINC / WRITE
    kernels: every argument whose access modifies it must be returned"""
    import psyclone.transformations   # noqa (import order)
    from psyclone.parse.algorithm import parse
    from psyclone.psyGen import PSyFactory
    from psyclone.configuration import Config
    from psyclone.core import AccessType
    from psyclone.domain.lfric import LFRicLoop
    import psyclone
    base = os.path.join(os.path.dirname(psyclone.__file__), "tests",
                        "test_files", "dynamo0p3")
    Config.get().api = "lfric"
    for fname in ("14.15_halo_readinc.f90", "1_single_invoke.f90",
                  "4.8_multikernel_invokes.f90"):
        _, info = parse(os.path.join(base, fname), api="lfric")
        psy = PSyFactory("lfric", distributed_memory=True).create(info)
        for inv in psy.invokes.invoke_list:
            for loop in inv.schedule.walk(LFRicLoop):
                got = {a.name for a in loop.unique_modified_args("gh_field")}
                for k in loop.kernels():
                    for a in k.arguments.args:
                        if a.argument_type.lower() == "gh_field" and \
                                a.access in (AccessType.WRITE,
                                             AccessType.READWRITE,
                                             AccessType.INC,
                                             AccessType.READINC) and \
                                a.name not in got:
                            return {"confirmed": True,
                                    "input": {"algorithm": fname,
                                              "kernel": k.name,
                                              "argument": a.name,
                                              "access": a.access.name},
                                    "observed": "unique_modified_args("
                                    "'gh_field') does not return a field "
                                    "the loop modifies (its halo is then "
                                    "not marked dirty)"}
    return {"confirmed": False}
