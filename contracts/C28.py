"""C28 — PSyData regions are entered and left in matched pairs.

(a) every transformation of the PSyData family refuses a region containing
    a Return: the effective `excluded_node_types` (class attribute resolved
    through the MRO of the real class ASTs) of each family member is checked;
(b) contracts on the real bodies of PSyDataTrans.get_unique_region_name
    (generated names are pairwise distinct; user names verbatim) and
    PSyDataTrans.merge_in_default_options (fresh dict, caller's options
    untouched);
(c) a bounded run-time contract on the real transformations for control
    transfers (RETURN / EXIT / CYCLE) out of a region.
"""
import ast
import z3
from pyvc.interp import Contract, LoopSpec
from pyvc.values import (VRef, VFunc, VBool, VStr, VTuple, NONE, Ref, STR,
                         VExc)
from pyvc.state import fresh, PyRaise

ID = "C28"
LEVEL = "proof"
PT = "psyir/transformations/psy_data_trans.py"
NULLC = z3.Const("null", Ref)
FAMILY = ["PSyDataTrans", "ProfileTrans", "ExtractTrans",
          "ReadOnlyVerifyTrans", "NanTestTrans", "GOceanExtractTrans",
          "LFRicExtractTrans"]


def build(uni):
    uni.exact_fstrings = True
    uni.fields.update({"_name": "str"})
    USED = z3.Const("the_used_kernel_names", Ref)
    uni.axioms.append(USED != NULLC)
    uni.axioms.append(z3.Select(z3.Const(
        "H0_$alloc", z3.ArraySort(Ref, z3.BoolSort())), USED))
    uni.consts["PSyDataTrans._used_kernel_names"] = VRef(
        USED, "dict", ("str", "int"))
    uni.consts["USED"] = VFunc("hook", fn=lambda it, a, k, st, fr: VRef(
        USED, "dict", ("str", "int")))
    MOD = z3.Function("psy_module_name", Ref, STR)
    INV = z3.Function("invoke_name", Ref, STR)
    KN = z3.Function("kernel_name", Ref, STR)
    WALK = z3.Function("walk_kernels", Ref, Ref)
    AL0 = z3.Const("H0_$alloc", z3.ArraySort(Ref, z3.BoolSort()))
    x = z3.Const("ax", Ref)
    uni.axioms.append(z3.ForAll([x], z3.And(WALK(x) != NULLC,
                                            z3.Select(AL0, WALK(x))),
                                patterns=[WALK(x)]))

    def h_get(it, selfv, args, kw, st, fr):
        # options.get("region_name", None): absent, or a user value which
        # here is a pair of strings (other shapes raise InternalError in
        # the real code; covered by the pair with empty components)
        if it.dec.branch(st, z3.Bool("user_supplied_name")):
            return VTuple([VStr(z3.String("user_module")),
                           VStr(z3.String("user_region"))])
        return NONE

    class Chain:
        pass

    def h_ancestor(it, selfv, args, kw, st, fr):
        return VRef(selfv.e, "InvokeScheduleOf")
    uni.fields.update({"invoke": "InvokeObj", "invokes": "InvokesObj",
                       "psy": "PSyObj"})

    def h_walk(it, selfv, args, kw, st, fr):
        lst = VRef(WALK(selfv.e), "list", "Kern")
        i = z3.Int("wi")
        st.assume(it.length(lst, st) >= 0)
        st.assume(z3.ForAll([i], z3.Implies(
            z3.And(0 <= i, i < it.length(lst, st)),
            z3.Select(it.list_items(lst, st), i) != NULLC)))
        return lst
    uni.fields["name"] = "str"

    def h_name(fn):
        def h(it, selfv, args, kw, st, fr):
            return VStr(fn(selfv.e))
        return h
    uni.method_hooks.update({
        "Options.get": h_get,
        "Node.ancestor": h_ancestor,
        "Node.walk": h_walk,
        "Kern.name": h_name(KN),
    })
    uni.note_assumption(
        "assumed models (engine hooks): options.get('region_name') is "
        "either absent or a pair of strings; nodes[0].ancestor("
        "InvokeSchedule).invoke, invoke.invokes.psy.name, invoke.name, "
        "kern.name and node.walk(Kern) are functions of their receivers")
    uni.consts["user_name_given"] = VFunc(
        "hook", fn=lambda it, a, k, st, fr: VBool(
            z3.Bool("user_supplied_name")))
    uni.preds.update({
        "SAMEKEYS": ([], "forall(lambda q: (q in USED()) == old(q in USED()),"
                         " 'str')"),
    })
    cs = []
    c = Contract(
        f"{PT}:PSyDataTrans.get_unique_region_name",
        params={"self": "PSyDataTrans", "nodes": "list[Node]",
                "options": "Options"},
        requires=[("nodes", "nodes is not None and len(nodes) >= 1 and "
                            "forall(lambda q: implies(0 <= q and "
                            "q < len(nodes), at(nodes, q) is not None and "
                            "at(nodes, q).invoke is not None and "
                            "at(nodes, q).invoke.invokes is not None and "
                            "at(nodes, q).invoke.invokes.psy is not None))"),
                  ("opts", "options is not None"),
                  ("counts", "forall(lambda q: implies(q in USED(), "
                             "USED()[q] >= 0), 'str')")],
        ensures=[
            # generated names end in ':r<n>' with n the number of earlier
            # requests for the same (module|region) key, which is then
            # incremented: two requests never give the same pair
            ("counter_advances", "implies(not user_name_given(), "
             "exists(lambda key: key in USED() and "
             "USED()[key] == ite(old(key in USED()), old(USED()[key]), 0) "
             "+ 1 and result[1].endswith(':r' + str(USED()[key] - 1)) and "
             "forall(lambda q: implies(q != key, (q in USED()) == "
             "old(q in USED()) and implies(q in USED(), USED()[q] == "
             "old(USED()[q]))), 'str'), 'str'))"),
            ("key_is_module_and_region", "implies(not user_name_given(), "
             "exists(lambda key: key in USED() and "
             "(result[0] + '|' + result[1]).startswith(key) and "
             "USED()[key] != ite(old(key in USED()), old(USED()[key]), 0), "
             "'str'))"),
            ("user_names_verbatim", "implies(user_name_given(), "
             "SAMEKEYS() and unchanged('$map.str.int'))"),
        ],
        raises={"InternalError": "user_name_given()"},
        on_raise=[("unchanged", "unchanged('$dom.str', '$map.str.int')")],
        modifies=["$dom.str", "$map.str.int", "$card", "$len",
                  "$items.ref"],
        covers=[("generated", "not user_name_given()"),
                ("user", "user_name_given()")])
    uni.contracts["PSyDataTrans.get_unique_region_name"] = c
    uni.local_types["PSyDataTrans.get_unique_region_name"] = {
        "kerns": "list[Kern]"}
    uni.loopspecs["PSyDataTrans.get_unique_region_name"] = {0: LoopSpec(
        invariants=[
            ("kerns", "fresh(kerns) and len(kerns) >= 0 and "
                      "forall(lambda q: implies(0 <= q and q < len(kerns), "
                      "at(kerns, q) is not None))"),
            ("used", "unchanged('$dom.str', '$map.str.int')")],
        modifies=["$len", "$items.ref"])}
    cs.append(c)

    # ------------------------------------------- merge_in_default_options
    DEFAULTS = z3.Function("default_options_of", Ref, z3.IntSort(), Ref)

    def h_defaults(it, selfv, args, kw, st, fr):
        d = it.new_container(st, "dict", ("str", "OptionValue"), "defaults")
        # arbitrary default content
        st.havoc_obj = True
        kb = "str"
        dom = fresh("def_dom", z3.ArraySort(STR, z3.BoolSort()))
        mp = fresh("def_map", z3.ArraySort(STR, Ref))
        it.d_set_dom(d, st, dom)
        it.d_set_map(d, st, mp)
        st.write("$card", d.e, fresh("def_card", z3.IntSort()), "int")
        return d
    uni.method_hooks["PSyDataTrans.get_default_options"] = h_defaults
    uni.overriders_ok = True
    c = Contract(
        f"{PT}:PSyDataTrans.merge_in_default_options",
        params={"self": "PSyDataTrans",
                "options": "dict[str,OptionValue]"},
        returns="dict[str,OptionValue]",
        ensures=[
            ("fresh_dict", "fresh(result) and result is not options"),
            ("user_options_win", "implies(options is not None, forall("
                                 "lambda q: implies(q in options, "
                                 "q in result and result[q] is options[q]), "
                                 "'str'))"),
            ("callers_dict_untouched",
             "implies(options is not None, select_dict(options) == "
             "old(select_dict(options)))"),
        ],
        raises={}, modifies=["$dom.str", "$map.str.ref", "$card"],
        covers=[("with", "options is not None"), ("without",
                                                   "options is None")])
    uni.contracts["PSyDataTrans.merge_in_default_options"] = c
    cs.append(c)
    return cs


def effective_excluded(repo, cname):
    """names in the effective excluded_node_types of class cname"""
    for c in repo.mro(cname):
        info = repo.cls(c)
        if info is not None and "excluded_node_types" in info.consts:
            node = info.consts["excluded_node_types"]
            names = []
            for n in ast.walk(node):
                if isinstance(n, ast.Name):
                    names.append(n.id)
                elif isinstance(n, ast.Attribute):
                    names.append(n.attr)
            repo.record(f"{info.relpath}:{c}.excluded_node_types",
                        info.relpath, node)
            return c, names
    return None, []


TRUSTED = [
    "pyvc VC generator and z3",
    "RegionTrans.validate (the walk that applies excluded_node_types) is "
    "NOT under a deductive contract: (a) checks the class attribute every "
    "family member resolves to, (c) exercises the real validate at run time "
    "(bounded)",
    "NOT under contract: PSyDataNode.lower_to_language_level (PreStart / "
    "PostEnd sequence), ExtractTrans-specific validation",
]
EXPLANATION = (
    "get_unique_region_name: for generated names a per-key counter is read, "
    "appended as ':r<n>' and incremented, all other counters unchanged "
    "(hence pairwise distinct names); user-supplied names are returned "
    "verbatim without touching the counters. merge_in_default_options "
    "returns a fresh dict and never modifies the caller's dict. Every "
    "PSyData-family transformation resolves excluded_node_types to a tuple "
    "containing Return (ExtractTrans family: recorded known finding). "
    "Control transfers out of a region by EXIT/CYCLE in a code block are a "
    "recorded known finding.")


def extra(uni, tier, seed):
    from pyvc.runner import Extra
    out = []
    for cname in FAMILY:
        owner, names = effective_excluded(uni.repo, cname)
        ok = "Return" in names
        out.append(Extra(f"excluded_node_types[{cname}]#contains-Return", ok,
                         f"resolved in {owner}: {names}",
                         kind="class attribute resolved through the MRO of "
                              "the real class ASTs",
                         replay={"confirmed": True,
                                 "input_class": "extract-return"
                                 if "Extract" in cname else "other",
                                 "class": cname, "resolved_in": owner,
                                 "excluded_node_types": names}))
    from realise import C28 as R
    rp = R.search(tier)
    out.append(Extra("bounded#region-control-transfer", not rp["confirmed"],
                     str(rp)[:300], kind="bounded run-time contract on the "
                     "real transformations (RETURN/EXIT/CYCLE inside a "
                     "region; options dict reuse)", replay=rp,
                     count=rp.get("cases", 1), bounded=True))
    return out


def replay(name, ob, model, uni):
    from realise import C28 as R
    return R.search("thorough")


def replay_known(k, uni):
    from realise import C28 as R
    return R.known(k.get("id"))


def bounded(uni, tier, seed):
    from realise import C28 as R
    return R.search("thorough")
