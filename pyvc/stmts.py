"""Statements: assignments, control flow, loops by invariant, exceptions."""
import ast
import z3
from .values import *
from .state import Unsupported, PathEnd, PyRaise, fresh, fresh_name
from .common import *
from .common import _Return, _Break, _Continue
from . import models


def assigned_names(stmts):
    out = set()
    for s in stmts:
        for n in ast.walk(s):
            if isinstance(n, ast.Name) and isinstance(n.ctx, (ast.Store,
                                                               ast.Del)):
                out.add(n.id)
    return out


def loop_ordinals(fn):
    """source-order ordinals of the For/While nodes of a function (nested
    function bodies excluded)."""
    out = {}

    def visit(node):
        for child in ast.iter_child_nodes(node):
            if isinstance(child, (ast.FunctionDef, ast.Lambda, ast.ClassDef)):
                continue
            if isinstance(child, (ast.For, ast.While)):
                out[id(child)] = len(out)
            visit(child)
    visit(fn)
    return out


class StmtMixin:
    def exec_block(self, stmts, st, fr):
        for s in stmts:
            meth = getattr(self, "ex_" + type(s).__name__, None)
            if meth is None:
                raise Unsupported(f"statement {type(s).__name__}@{s.lineno}")
            meth(s, st, fr)

    def ex_Pass(self, s, st, fr):
        pass

    def ex_Import(self, s, st, fr):
        pass

    def ex_ImportFrom(self, s, st, fr):
        pass

    def ex_Expr(self, s, st, fr):
        if isinstance(s.value, ast.Constant):
            return       # docstring
        self.ev(s.value, st, fr)

    def ex_Return(self, s, st, fr):
        raise _Return(self.ev(s.value, st, fr) if s.value else NONE)

    def ex_Break(self, s, st, fr):
        raise _Break()

    def ex_Continue(self, s, st, fr):
        raise _Continue()

    def ex_Assert(self, s, st, fr):
        c = self.truth(self.ev(s.test, st, fr), st)
        if not self.dec.branch(st, c):
            raise PyRaise(VExc("AssertionError"))

    def ex_Raise(self, s, st, fr):
        if s.exc is None:
            if fr.exc is None:
                raise Unsupported("bare raise outside handler")
            raise PyRaise(fr.exc)
        node = s.exc
        target = node.func if isinstance(node, ast.Call) else node
        name = target.id if isinstance(target, ast.Name) else \
            (target.attr if isinstance(target, ast.Attribute) else None)
        if name is not None and name in fr.env and \
                isinstance(fr.env[name], VExc):
            raise PyRaise(fr.env[name])
        if name is None or not self.is_exception_class(name):
            raise Unsupported(f"raise of non-class @{s.lineno}")
        # arguments (message text) are dropped by extraction
        raise PyRaise(VExc(name))

    def ex_If(self, s, st, fr):
        c = self.ev(s.test, st, fr)
        if self.dec.branch(st, self.truth(c, st)):
            self.exec_block(s.body, st, fr)
        else:
            self.exec_block(s.orelse, st, fr)

    # -- assignment -------------------------------------------------------
    def ex_Assign(self, s, st, fr):
        v = self.ev(s.value, st, fr)
        for t in s.targets:
            self.assign(t, v, st, fr)

    def ex_AnnAssign(self, s, st, fr):
        if s.value is not None:
            self.assign(s.target, self.ev(s.value, st, fr), st, fr)

    def ex_AugAssign(self, s, st, fr):
        load = ast.copy_location(_as_load(s.target), s.target)
        cur = self.ev(load, st, fr)
        rhs = self.ev(s.value, st, fr)
        if isinstance(cur, VRef) and (cur.elem is not None or
                                      cur.cls in ("list",)):
            # list += iterable is in-place extend (list.__iadd__)
            if isinstance(s.op, ast.Add):
                kind, info, fn = (None, None, None)
                if cur.cls not in ("list", None):
                    kind, info, fn = self.uni.repo.find_attr(cur.cls,
                                                             "__iadd__")
                if kind == "method":
                    v = self.call_function(fn, info, cur, [rhs], {}, st, fr)
                else:
                    self.contop(cur, "extend", [rhs], {}, st, fr,
                                builtin_only=True)
                    v = cur
                self.assign(s.target, v, st, fr)
                return
            raise Unsupported("augmented assignment on list")
        self.assign(s.target, self.binop(s.op, cur, rhs, st, fr), st, fr)

    def assign(self, t, v, st, fr):
        if isinstance(t, ast.Name):
            key = getattr(fr, "inline_key", None) or \
                getattr(fr, "fn_key", None)
            ltag = self.uni.local_types.get(key, {}).get(t.id)
            if ltag and isinstance(v, VRef) and v.elem is None:
                was_untyped_set = v.cls == "set"
                was_untyped_dict = v.cls == "dict"
                v = self.mkref(v.e, ltag)
                if was_untyped_dict and v.cls == "dict" and v.elem:
                    # likewise an empty {} typed by a declaration: no keys
                    self.d_set_dom(v, st, z3.K(
                        sort_of(base_tag(v.elem[0])), z3.BoolVal(False)))
                    st.write("$card", v.e, z3.IntVal(0), "int")
                if was_untyped_set and v.cls == "set" and v.elem:
                    # an empty set() that is typed by a declaration: its
                    # (so far unwritten) contents are the empty set
                    self.s_set(v, st, z3.K(sort_of(base_tag(v.elem)),
                                           z3.BoolVal(False)))
                    st.write("$card", v.e, z3.IntVal(0), "int")
            fr.env[t.id] = v
            return
        if isinstance(t, (ast.Tuple, ast.List)):
            if not isinstance(v, VTuple) or len(v.items) != len(t.elts):
                raise Unsupported("tuple unpacking of non-tuple")
            for sub, x in zip(t.elts, v.items):
                self.assign(sub, x, st, fr)
            return
        if isinstance(t, ast.Attribute):
            obj = self.ev(t.value, st, fr)
            self.setattr(obj, t.attr, v, st, fr)
            return
        if isinstance(t, ast.Subscript):
            obj = self.ev(t.value, st, fr)
            if isinstance(t.slice, ast.Slice):
                raise Unsupported("slice assignment")
            idx = self.ev(t.slice, st, fr)
            self.setitem(obj, idx, v, st, fr)
            return
        raise Unsupported(f"assignment target {type(t).__name__}")

    def setattr(self, obj, attr, v, st, fr):
        if not isinstance(obj, VRef):
            raise Unsupported(f"attribute store on {obj}")
        self.nonnull(obj, st, fr, attr)
        if obj.cls not in (None, "list", "set", "dict"):
            for c in self.uni.repo.mro(obj.cls):
                info = self.uni.repo.cls(c)
                if info is not None and attr in info.setters:
                    self.call_function(info.setters[attr], info, obj, [v],
                                       {}, st, fr)
                    return
                if info is not None and attr in info.properties:
                    raise PyRaise(VExc("AttributeError"))
        ph = self.uni.prop_hooks.get(f"{obj.cls}.{attr}")
        if ph is not None:
            ph(self, obj, [v], {}, st, fr)
            return
        if attr in self.uni.callbacks:
            # the stored callable is identified with the declared callback
            self.uni.note_assumption(
                f"the callable stored in .{attr} is the declared callback")
            return
        if attr not in self.uni.fields:
            raise Unsupported(f"store to undeclared field .{attr}")
        tag = self.uni.field_tag(attr)
        st.write(attr, obj.e, self.coerce(v, tag), tag)

    def coerce(self, v, tag):
        if tag == "ref":
            if isinstance(v, VNone):
                return NULL
            if isinstance(v, VRef):
                return v.e
        if tag == "int" and isinstance(v, (VInt, VBool, VEnum)):
            return self.as_int(v) if not isinstance(v, VEnum) else v.e
        if tag == "bool" and isinstance(v, VBool):
            return v.e
        if tag == "str" and isinstance(v, VStr):
            return v.e
        raise Unsupported(f"cannot store {v} into a field of sort {tag}")

    def setitem(self, obj, idx, v, st, fr):
        if isinstance(obj, VRef) and obj.cls == "dict":
            self.nonnull(obj, st, fr, "[]=")
            self.dict_setitem(obj, idx, v, st, fr)
            return
        if isinstance(obj, VRef) and obj.cls not in (None, "list"):
            kind, info, fn = self.uni.repo.find_attr(obj.cls, "__setitem__")
            if kind == "method":
                self.nonnull(obj, st, fr, "[]=")
                self.call_function(fn, info, obj, [idx, v], {}, st, fr)
                return
        if isinstance(obj, VRef) and obj.elem is not None:
            self.nonnull(obj, st, fr, "[]=")
            self.contop(obj, "__setitem__", [idx, v], {}, st, fr)
            return
        raise Unsupported(f"item store on {obj}")

    def ex_Delete(self, s, st, fr):
        for t in s.targets:
            if isinstance(t, ast.Subscript):
                obj = self.ev(t.value, st, fr)
                if isinstance(t.slice, ast.Slice):
                    raise Unsupported("del slice")
                idx = self.ev(t.slice, st, fr)
                if isinstance(obj, VRef) and obj.cls == "dict":
                    self.dict_delitem(obj, idx, st, fr)
                    continue
                if isinstance(obj, VRef) and obj.cls not in (None, "list"):
                    kind, info, fn = self.uni.repo.find_attr(obj.cls,
                                                             "__delitem__")
                    if kind == "method":
                        self.nonnull(obj, st, fr, "del[]")
                        self.call_function(fn, info, obj, [idx], {}, st, fr)
                        continue
                if isinstance(obj, VRef) and obj.elem is not None:
                    self.contop(obj, "__delitem__", [idx], {}, st, fr)
                    continue
                raise Unsupported(f"del item of {obj}")
            elif isinstance(t, ast.Name):
                fr.env.pop(t.id, None)
            else:
                raise Unsupported("del target")

    # -- exceptions -------------------------------------------------------
    def exc_matches(self, exc, handler_type, st, fr):
        if handler_type is None:
            return True
        names = []
        if isinstance(handler_type, ast.Tuple):
            for e in handler_type.elts:
                names.append(e.id if isinstance(e, ast.Name) else e.attr)
        else:
            names.append(handler_type.id if isinstance(handler_type, ast.Name)
                         else handler_type.attr)
        anc = set(self.uni.repo.mro(exc.cls)) | {exc.cls} | \
            set(PY_EXC_PARENTS.get(exc.cls, ()))
        for a in list(anc):
            anc |= set(PY_EXC_PARENTS.get(a, ()))
        anc |= {"Exception", "BaseException"}
        return any(n in anc for n in names)

    def ex_Try(self, s, st, fr):
        try:
            try:
                self.exec_block(s.body, st, fr)
            except PyRaise as pr:
                for h in s.handlers:
                    if self.exc_matches(pr.exc, h.type, st, fr):
                        if h.name:
                            fr.env[h.name] = pr.exc
                        saved = fr.exc
                        fr.exc = pr.exc
                        try:
                            self.exec_block(h.body, st, fr)
                        finally:
                            fr.exc = saved
                        break
                else:
                    raise
            else:
                self.exec_block(s.orelse, st, fr)
        except (PyRaise, _Return, _Break, _Continue):
            self.exec_block(s.finalbody, st, fr)
            raise
        else:
            self.exec_block(s.finalbody, st, fr)

    def ex_With(self, s, st, fr):
        """with <expr> [as name]: body -- the context manager's __exit__ is
        taken to have no effect the contracts speak about (files: close)"""
        for item in s.items:
            v = self.ev(item.context_expr, st, fr)
            if item.optional_vars is not None:
                self.assign(item.optional_vars, v, st, fr)
        self.uni.note_assumption(
            "with-statements: __enter__ returns the object, __exit__ has no "
            "modelled effect")
        self.exec_block(s.body, st, fr)

    # -- loops ------------------------------------------------------------
    def loop_spec(self, node, fr):
        fn = getattr(fr, "fn_node", None)
        key = getattr(fr, "inline_key", None) or getattr(fr, "fn_key", None)
        specs = self.uni.loopspecs.get(key, {}) if key else {}
        if fn is None:
            return None, None
        ords = getattr(fn, "_loop_ords", None)
        if ords is None:
            ords = loop_ordinals(fn)
            fn._loop_ords = ords
        o = ords.get(id(node))
        return specs.get(o), o

    def iter_desc(self, it, st, fr):
        """(count, elem_fn(i) -> V, concrete list or None)"""
        if isinstance(it, VTuple):
            return None, None, list(it.items)
        if isinstance(it, VPy):
            obj = it.obj
            if isinstance(obj, tuple) and obj and obj[0] == "range":
                _, lo, hi, step = obj
                stp = z3.simplify(step)
                if not z3.is_int_value(stp) or stp.as_long() == 0:
                    raise Unsupported("range with symbolic step")
                k = stp.as_long()
                if k == 1:
                    n = z3.If(hi > lo, hi - lo, 0)
                elif k > 0:
                    n = z3.If(hi > lo, (hi - lo + k - 1) / k, 0)
                else:
                    n = z3.If(lo > hi, (lo - hi + (-k) - 1) / (-k), 0)
                return n, (lambda i: VInt(lo + i * k)), None
            if isinstance(obj, tuple) and obj and obj[0] == "enumerate":
                n, elem, conc = self.iter_desc(obj[1], st, fr)
                if conc is not None:
                    return None, None, [VTuple([VInt(i), x])
                                        for i, x in enumerate(conc)]
                return n, (lambda i: VTuple([VInt(i), elem(i)])), None
            if isinstance(obj, tuple) and obj and obj[0] == "zip":
                descs = [self.iter_desc(x, st, fr) for x in obj[1]]
                if all(d[2] is not None for d in descs):
                    return None, None, [VTuple(list(t))
                                        for t in zip(*[d[2] for d in descs])]
                raise Unsupported("zip of symbolic sequences")
            if isinstance(obj, tuple) and obj and obj[0] == "reversed":
                n, elem, conc = self.iter_desc(obj[1], st, fr)
                if conc is not None:
                    return None, None, list(reversed(conc))
                return n, (lambda i: elem(n - 1 - i)), None
            if isinstance(obj, (list, tuple)):
                return None, None, [self.lift(x) if not isinstance(x, tuple)
                                    else VTuple([self.lift(y) for y in x])
                                    for x in obj]
            if isinstance(obj, dict):
                return None, None, [self.lift(x) for x in obj.keys()]
            raise Unsupported(f"iteration over {obj!r}")
        if isinstance(it, VRef) and it.elem is not None and \
                it.cls not in ("set", "dict"):
            self.nonnull(it, st, fr, "iter")
            items = self.list_items(it, st)
            n = self.length(it, st)
            nc = z3.simplify(n)
            if z3.is_int_value(nc):
                return None, None, [self.elem_val(
                    it, z3.simplify(z3.Select(items, i)))
                    for i in range(nc.as_long())]
            return n, (lambda i: self.elem_val(it, z3.Select(items, i))), None
        raise Unsupported(f"iteration over {it}")

    def ex_For(self, s, st, fr):
        it = self.ev(s.iter, st, fr)
        spec, ordinal = self.loop_spec(s, fr)
        un = self.unordered_desc(it, st, fr)
        if un is not None:
            self.for_unordered(s, st, fr, un[0], un[1], spec, ordinal)
            return
        n, elem, conc = self.iter_desc(it, st, fr)
        if conc is not None:
            # concrete iteration: unrolled (a loop spec, if any, is unused)
            broke = False
            for x in conc:
                self.assign(s.target, x, st, fr)
                try:
                    self.exec_block(s.body, st, fr)
                except _Continue:
                    continue
                except _Break:
                    broke = True
                    break
            if not broke:
                self.exec_block(s.orelse, st, fr)
            return
        if spec is None:
            raise Unsupported(
                f"loop #{ordinal} of {getattr(fr, 'inline_key', fr.func)} "
                f"@{s.lineno} has a symbolic trip count and no invariant")
        if spec.unroll is not None:
            self.bounded_for(s, st, fr, n, elem, spec)
            return
        tag = f"L{ordinal}"

        def inv_frame(k):
            env = dict(fr.env)
            env["_k"] = VInt(k)
            env["_n"] = VInt(n)
            env["_iter"] = it
            sub = Frame(fr.func, fr.cls, fr.contract, env=env, spec=True)
            sub.old = fr.old
            sub.entry_state = entry
            # the loop target is bound to the value for iteration k
            try:
                self.assign_env(s.target, elem(k), env)
            except Unsupported:
                pass
            return sub

        head = None
        entry = st.snapshot()
        # 1. initiation
        for label, text, *_ in spec.invariants:
            g = self.truth(self.ev(parse_expr(text), st, inv_frame(
                z3.IntVal(0))), st)
            self.oblige(fr, st, "inv-init", f"{tag}.{label}", g)
        # 2. havoc
        self.havoc_loop(s, st, fr, spec)
        head = st.snapshot()
        k = fresh("k", INT)
        st.assume(z3.And(0 <= k, k <= n))
        for label, text, *_ in spec.invariants:
            st.assume(self.truth(self.ev(parse_expr(text), st, inv_frame(k)),
                                 st))
        if self.dec.branch(st, k < n):
            self.assign(s.target, elem(k), st, fr)
            try:
                self.exec_block(s.body, st, fr)
            except _Continue:
                pass
            except _Break:
                return
            for label, text, *lem in spec.invariants:
                for n, lt in enumerate(lem[0] if lem else ()):
                    g = self.truth(self.ev(parse_expr(lt), st,
                                           inv_frame(k + 1)), st)
                    self.oblige(fr, st, "inv-lemma", f"{tag}.{label}.{n}", g)
                g = self.truth(self.ev(parse_expr(text), st,
                                       inv_frame(k + 1)), st)
                self.oblige(fr, st, "inv-pres", f"{tag}.{label}", g)
            self.frame_check(fr, st, head, spec.modifies, f"{tag}")
            raise PathEnd()
        self.exec_block(s.orelse, st, fr)

    def assign_env(self, t, v, env):
        if isinstance(t, ast.Name):
            env[t.id] = v
        elif isinstance(t, (ast.Tuple, ast.List)) and isinstance(v, VTuple):
            for sub, x in zip(t.elts, v.items):
                self.assign_env(sub, x, env)
        else:
            raise Unsupported("loop target")

    def havoc_loop(self, s, st, fr, spec):
        names = assigned_names(s.body) if spec.assigns is None \
            else set(spec.assigns)
        key = getattr(fr, "inline_key", None) or getattr(fr, "fn_key", None)
        ltypes = self.uni.local_types.get(key, {})
        for name in names:
            if name in fr.env:
                v = fr.env[name]
                fr.env[name] = self.havoc_value(name, v, st)
            elif name in ltypes:
                # a local first assigned inside the loop: defined (with an
                # arbitrary value) at the head of later iterations / exit
                fr.env[name] = self.sym(name, ltypes[name], st)
        mods = spec.modifies
        if mods is None:
            mods = list(st.heap_sorts.keys())
        for f in mods:
            st.havoc(f)

    def havoc_value(self, name, v, st):
        if isinstance(v, VInt):
            return VInt(fresh(name, INT))
        if isinstance(v, VBool):
            return VBool(fresh(name, BOOL))
        if isinstance(v, VStr):
            return VStr(fresh(name, STR))
        if isinstance(v, VAtom):
            return VAtom(fresh(name, ATOM))
        if isinstance(v, VRef):
            return VRef(fresh(name, Ref), v.cls, v.elem)
        if isinstance(v, VEnum):
            e = fresh(name, INT)
            st.assume(z3.And(0 <= e, e < len(v.enum.members)))
            return VEnum(v.enum, e)
        if isinstance(v, VNone):
            return VRef(fresh(name, Ref), None, None)
        raise Unsupported(f"cannot havoc local {name} = {v}")

    def frame_check(self, fr, st, head, modifies, tag):
        if modifies is None:
            return
        for f in list(st.heap.keys()):
            if f in modifies or f.startswith("$alloc"):
                continue
            if f not in head.heap:
                continue
            if st.heap[f] is head.heap[f] or st.heap[f].eq(head.heap[f]):
                continue
            self.oblige(fr, st, "frame", f"{tag}.{f}",
                        self.unchanged_between(head, st, [VStr(f)]))

    def bounded_for(self, s, st, fr, n, elem, spec):
        """bounded stand-in: unroll up to spec.unroll iterations with an
        unwinding assumption recorded as such (never counted as proved)."""
        self.notes.append(f"bounded: loop unrolled to {spec.unroll}")
        self.bounded = True
        i = 0
        while True:
            if not self.dec.branch(st, z3.IntVal(i) < n):
                self.exec_block(s.orelse, st, fr)
                return
            if i >= spec.unroll:
                raise PathEnd()
            self.assign(s.target, elem(z3.IntVal(i)), st, fr)
            try:
                self.exec_block(s.body, st, fr)
            except _Continue:
                pass
            except _Break:
                return
            i += 1

    def ex_While(self, s, st, fr):
        spec, ordinal = self.loop_spec(s, fr)
        if spec is None:
            raise Unsupported(
                f"while loop #{ordinal} @{s.lineno} has no invariant")
        tag = f"L{ordinal}"

        head = None
        entry = st.snapshot()

        def sframe():
            sub = Frame(fr.func, fr.cls, fr.contract, env=dict(fr.env),
                        spec=True)
            sub.old = fr.old
            sub.entry_state = entry
            sub.head_state = head if head is not None else st
            sub.head_env = head_env
            return sub
        head_env = None
        if spec.unroll is not None:
            self.bounded = True
            for i in range(spec.unroll + 1):
                c = self.ev(s.test, st, fr)
                if not self.dec.branch(st, self.truth(c, st)):
                    self.exec_block(s.orelse, st, fr)
                    return
                if i == spec.unroll:
                    raise PathEnd()
                try:
                    self.exec_block(s.body, st, fr)
                except _Continue:
                    pass
                except _Break:
                    return
            return
        for label, text, *_ in spec.invariants:
            g = self.truth(self.ev(parse_expr(text), st, sframe()), st)
            self.oblige(fr, st, "inv-init", f"{tag}.{label}", g)
        self.havoc_loop(s, st, fr, spec)
        head = st.snapshot()
        head_env = dict(fr.env)
        for label, text, *_ in spec.invariants:
            st.assume(self.truth(self.ev(parse_expr(text), st, sframe()), st))
        var0 = None
        if spec.decreases:
            var0 = self.as_int(self.ev(parse_expr(spec.decreases), st,
                                       sframe()))
        c = self.ev(s.test, st, fr)
        if self.dec.branch(st, self.truth(c, st)):
            try:
                self.exec_block(s.body, st, fr)
            except _Continue:
                pass
            except _Break:
                return
            for label, text, *lem in spec.invariants:
                for n, lt in enumerate(lem[0] if lem else ()):
                    g = self.truth(self.ev(parse_expr(lt), st, sframe()), st)
                    self.oblige(fr, st, "inv-lemma", f"{tag}.{label}.{n}", g)
                g = self.truth(self.ev(parse_expr(text), st, sframe()), st)
                self.oblige(fr, st, "inv-pres", f"{tag}.{label}", g)
            if spec.decreases:
                var1 = self.as_int(self.ev(parse_expr(spec.decreases), st,
                                           sframe()))
                self.oblige(fr, st, "decreases", f"{tag}",
                            z3.And(var0 >= 0, var1 < var0))
            self.frame_check(fr, st, head, spec.modifies, tag)
            raise PathEnd()
        self.exec_block(s.orelse, st, fr)


def _as_load(t):
    import copy
    t2 = copy.copy(t)
    t2.ctx = ast.Load()
    return t2


PY_EXC_PARENTS = {
    "IndexError": ("LookupError",), "KeyError": ("LookupError",),
    "FileExistsError": ("OSError",), "IOError": ("OSError",),
    "NotImplementedError": ("RuntimeError",),
    "ZeroDivisionError": ("ArithmeticError",),
}
