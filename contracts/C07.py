"""C07 — inlining a call preserves the caller's behaviour.

Contract on the real body of
  SymbolTable._handle_symbol_clash
      (the step of SymbolTable.merge that InlineTrans relies on so that
      inlined locals never capture or clobber caller variables): on normal
      return either the clashing symbol is an import from the same container
      object, or BOTH symbols are unresolved (then they denote the same
      external entity), or the two symbols end up with different names - one
      of them renamed to the fresh name - and the incoming symbol has been
      added to this table.
BOUNDED (never counted as proved): the real InlineTrans on six small
caller/callee pairs (array section, shifted bounds, element passed together
with its index, expression argument, name clash); the original module and
the module written after inlining are compiled with gfortran, linked with
the same driver and their outputs compared.
"""
import z3
from pyvc.interp import Contract
from pyvc.values import (VRef, VFunc, VBool, VStr, NONE, Ref, STR, VExc)
from pyvc.state import fresh, PyRaise

ID = "C07"
LEVEL = "proof"
ST = "psyir/symbols/symbol_table.py"
NULLC = z3.Const("null", Ref)
BOOL = z3.BoolSort()


def build(uni):
    uni.exact_fstrings = False
    uni.fields.update({
        "$name": "str", "$is_import": "bool", "$is_unresolved": "bool",
        "$container": "Symbol", "$added": "set[ref]",
    })
    AL0 = z3.Const("H0_$alloc", z3.ArraySort(Ref, BOOL))
    LOOKUP = z3.Function("lookup", Ref, STR, Ref)
    x = z3.Const("ax", Ref)
    s1 = z3.Const("s1", STR)

    def field_hook(attr):
        def h(it, selfv, args, kw, st, fr):
            return it.getattr(VRef(selfv.e, "Obj"), attr, st, fr)
        return h

    def h_lookup(it, selfv, args, kw, st, fr):
        nm = it.to_z3(args[0])
        r = LOOKUP(selfv.e, nm)
        # check_for_clashes / the KeyError of add() established that a symbol
        # of that name is in this table
        st.assume(z3.And(r != NULLC, z3.Select(AL0, r),
                         st.read("$name", r, "str") == nm))
        return VRef(r, "Symbol")

    def h_next_name(it, selfv, args, kw, st, fr):
        nn = fresh("new_name", STR)
        # contract of next_available_name (C16): a name used in neither table
        st.assume(nn != it.to_z3(args[0]))
        return VStr(nn)

    def h_rename(it, selfv, args, kw, st, fr):
        if it.dec.branch(st, fresh("rename_refused", BOOL)):
            raise PyRaise(VExc("SymbolError"))
        st.write("$name", args[0].e, it.to_z3(args[1]), "str")
        return NONE

    def h_add(it, selfv, args, kw, st, fr):
        cur = st.read("$added", selfv.e, "set[ref]")
        st.write("$added", selfv.e, z3.Store(cur, args[0].e, True),
                 "set[ref]")
        return NONE
    uni.method_hooks.update({
        "SymbolTable.lookup": h_lookup,
        "SymbolTable.next_available_name": h_next_name,
        "SymbolTable.rename_symbol": h_rename,
        "SymbolTable.add": h_add,
        "Symbol.is_import": field_hook("$is_import"),
        "Symbol.is_unresolved": field_hook("$is_unresolved"),
        "Symbol.name": field_hook("$name"),
        "Symbol.interface": lambda it, s, a, k, st, fr: VRef(s.e, "IfaceOf"),
    })
    uni.prop_hooks["IfaceOf.container_symbol"] = field_hook("$container")
    uni.consts.update({
        "CLASH": VFunc("hook", fn=lambda it, a, k, st, fr: VRef(LOOKUP(
            a[0].e, (fr.old or st).read("$name", a[1].e, "str")), "Symbol")),
        "ADDED": VFunc("hook", fn=lambda it, a, k, st, fr: VBool(z3.Select(
            st.read("$added", a[0].e, "set[ref]"), a[1].e))),
        "getattr": VFunc("hook", fn=lambda it, a, k, st, fr: (
            it.from_field(it.concrete(a[1]), st.read(
                it.concrete(a[1]), a[0].e,
                uni.field_tag(it.concrete(a[1])))))),
    })
    c = Contract(
        f"{ST}:SymbolTable._handle_symbol_clash",
        params={"self": "SymbolTable", "old_sym": "Symbol",
                "other_table": "SymbolTable"},
        requires=[("args", "old_sym is not None and other_table is not None "
                   "and other_table is not self and "
                   "CLASH(self, old_sym) is not old_sym and "
                   "implies(getattr(old_sym, '$is_import'), "
                   "getattr(old_sym, '$container') is not None)")],
        ensures=[
            ("no_capture",
             "(old(getattr(old_sym, '$is_import')) and "
             "old(getattr(old_sym, '$container')) is "
             "CLASH(self, old(getattr(old_sym, '$container')))) or "
             "(not old(getattr(old_sym, '$is_import')) and "
             "old(getattr(old_sym, '$is_unresolved')) and "
             "old(getattr(CLASH(self, old_sym), '$is_unresolved'))) or "
             "(not old(getattr(old_sym, '$is_import')) and "
             "getattr(old_sym, '$name') != "
             "getattr(CLASH(self, old_sym), '$name') and "
             "ADDED(self, old_sym))"),
        ],
        raises={"InternalError": None, "SymbolError": None},
        modifies=["$name", "$added"],
        covers=[("renamed", "getattr(old_sym, '$name') != "
                            "old(getattr(old_sym, '$name'))"),
                ("both_unresolved",
                 "old(getattr(old_sym, '$is_unresolved')) and "
                 "old(getattr(CLASH(self, old_sym), '$is_unresolved'))")])
    uni.contracts["SymbolTable._handle_symbol_clash:top"] = c
    uni.note_assumption(
        "lookup(name) returns the symbol of that name in this table (a "
        "clash was reported); next_available_name returns a name different "
        "from the clashing one (its contract is C16's); rename_symbol sets "
        "the symbol's name or raises SymbolError; add records the symbol "
        "in a ghost set")
    return [c] + build_inlined_idx(uni)


def build_inlined_idx(uni):
    """InlineTrans._create_inlined_idx: the index expression written for an
    inlined array access denotes  local_idx - decln_start + actual_start
    (component-wise for a range; the step is kept), where V(e) is the
    integer an expression denotes during the call."""
    from pyvc.interp import LoopSpec      # noqa: F401
    from pyvc.values import VTerm, VInt
    IT = "psyir/transformations/inline_trans.py"
    INT = z3.IntSort()
    AL0 = z3.Const("H0_$alloc", z3.ArraySort(Ref, BOOL))
    V = z3.Function("value_of", Ref, INT)
    VLO = z3.Function("range_lower_value", Ref, INT)
    VHI = z3.Function("range_upper_value", Ref, INT)
    VST = z3.Function("range_step_value", Ref, INT)
    SUBST = z3.Function("with_actual_arguments", Ref, Ref)
    COPY = z3.Function("copy_of", Ref, Ref)
    BIN = z3.Function("binary_operation", INT, Ref, Ref, Ref)
    RNG = z3.Function("range_node", Ref, Ref, Ref, Ref)
    PART = z3.Function("range_part_node", Ref, INT, Ref)
    NEQ = z3.Function("structurally_equal", Ref, Ref, BOOL)

    def obj(st, e):
        st.assume(z3.And(e != NULLC, z3.Select(AL0, e)))
        return e

    def h_subst(it, s, a, k, st, fr):
        r = obj(st, SUBST(a[0].e))
        st.assume(V(r) == V(a[0].e))
        return VRef(r, "Node")

    def h_copy(it, s, a, k, st, fr):
        r = obj(st, COPY(s.e))
        st.assume(z3.And(V(r) == V(s.e), VLO(r) == VLO(s.e),
                         VHI(r) == VHI(s.e), VST(r) == VST(s.e)))
        return VRef(r, s.cls)

    def h_bin(it, s, a, k, st, fr):
        op = a[0].args[-1] if isinstance(a[0], VTerm) else "?"
        code = {"SUB": 1, "ADD": 2}.get(op, 0)
        r = obj(st, BIN(z3.IntVal(code), a[1].e, a[2].e))
        if code == 1:
            st.assume(V(r) == V(a[1].e) - V(a[2].e))
        elif code == 2:
            st.assume(V(r) == V(a[1].e) + V(a[2].e))
        return VRef(r, "Node")

    def h_range_create(it, s, a, k, st, fr):
        r = obj(st, RNG(a[0].e, a[1].e, a[2].e))
        st.assume(z3.And(VLO(r) == V(a[0].e), VHI(r) == V(a[1].e),
                         VST(r) == V(a[2].e)))
        return VRef(r, "Range")

    def part(kk, vf):
        def h(it, s, a, k, st, fr):
            r = obj(st, PART(s.e, z3.IntVal(kk)))
            st.assume(V(r) == vf(s.e))
            st.assume(z3.Not(it.uni.isinstance_expr(r, "Range")))
            return VRef(r, "Node")
        return h
    uni.method_hooks.update({
        "InlineTrans._replace_formal_arg": h_subst,
        "Node.copy": h_copy, "Range.copy": h_copy,
        "BinaryOperation.create": h_bin,
        "Range.create": h_range_create,
        "Range.start": part(0, VLO), "Range.stop": part(1, VHI),
        "Range.step": part(2, VST),
    })
    prev = getattr(uni, "class_attr", None)
    uni.class_attr = lambda it, cname, attr, st, fr: (
        VTerm("ns", ["BinaryOperation", "Operator"])
        if (cname, attr) == ("BinaryOperation", "Operator") else
        (prev(it, cname, attr, st, fr) if prev else None))
    uni.term_attr = lambda it, o, attr, st, fr: VTerm(
        "ns", list(o.args) + [attr])

    def compare_hook(it, op, a, b, st, fr):
        if op in ("Eq", "NotEq") and isinstance(a, VRef) and \
                isinstance(b, VRef) and a.cls in ("Node", "Range") and \
                b.cls in ("Node", "Range"):
            e = NEQ(a.e, b.e)
            return e if op == "Eq" else z3.Not(e)
        return None
    uni.compare_hook = compare_hook
    uni.consts.update({
        "V": VFunc("hook", fn=lambda it, a, k, st, fr: VInt(V(a[0].e))),
        "VLO": VFunc("hook", fn=lambda it, a, k, st, fr: VInt(VLO(a[0].e))),
        "VHI": VFunc("hook", fn=lambda it, a, k, st, fr: VInt(VHI(a[0].e))),
        "VST": VFunc("hook", fn=lambda it, a, k, st, fr: VInt(VST(a[0].e))),
        "SAME": VFunc("hook", fn=lambda it, a, k, st, fr: VBool(
            NEQ(a[0].e, a[1].e))),
    })
    ci = Contract(
        f"{IT}:InlineTrans._create_inlined_idx",
        params={"self": "InlineTrans", "call_node": "Obj",
                "formal_args": "Obj", "local_idx": "Range",
                "decln_start": "Node", "actual_start": "Node"},
        requires=[
            ("nodes", "local_idx is not None and decln_start is not None "
                      "and actual_start is not None"),
            ("equal_starts_denote_equal_values",
             "implies(SAME(decln_start, actual_start), "
             "V(decln_start) == V(actual_start))")],
        returns="Node",
        ensures=[
            ("scalar_index_is_shifted_by_the_difference_of_the_starts",
             "implies(not isinstance(local_idx, Range), "
             "result is not None and V(result) == "
             "V(local_idx) - V(decln_start) + V(actual_start))"),
            ("range_is_shifted_component_wise_and_keeps_its_step",
             "implies(isinstance(local_idx, Range), result is not None and "
             "VLO(result) == VLO(local_idx) - V(decln_start) + "
             "V(actual_start) and VHI(result) == VHI(local_idx) - "
             "V(decln_start) + V(actual_start) and "
             "VST(result) == VST(local_idx))"),
        ],
        raises={}, modifies=[],
        covers=[("range", "isinstance(local_idx, Range)"),
                ("shifted", "not isinstance(local_idx, Range) and "
                            "not SAME(decln_start, actual_start)")])
    uni.contracts["InlineTrans._create_inlined_idx:top"] = ci
    uni.contracts["InlineTrans._create_inlined_idx"] = ci
    uni.note_assumption(
        "V(e): the integer an index expression denotes during the call "
        "(uninterpreted); _replace_formal_arg and copy() preserve it; "
        "BinaryOperation.create(SUB/ADD) and Range.create denote the "
        "arithmetic they write; structurally equal start expressions are "
        "assumed to denote the same value (true for literal bounds; NOT "
        "checked for bounds that name variables of different scopes); the "
        "start / stop part of a range in the routine is not itself a range")
    return [ci]


TRUSTED = [
    "pyvc VC generator and z3",
    "gfortran and the hand-written driver, in the bounded part only",
    "NOT under contract: InlineTrans.validate (which call shapes are "
    "accepted), _replace_formal_arg, _update_actual_indices, the rest of "
    "SymbolTable.merge (C16)",
]
EXPLANATION = (
    "_handle_symbol_clash never lets an incoming symbol share a name with a "
    "different symbol of the receiving table unless both are unresolved or "
    "it is an import of the same container object; the bounded part "
    "compares compiled original and inlined programs on six call shapes.")


def extra(uni, tier, seed):
    """BOUNDED stand-in (never counted as proved) for the parts of
    InlineTrans that are not under contract"""
    from pyvc.runner import Extra
    from realise import C07 as R
    out, n_ok = [], 0
    for cid, verdict, detail, src in R.bounded_cases(tier == "thorough"):
        if verdict == "norun":
            out.append(Extra("bounded#InlineTrans[" + cid + "]", False,
                             detail, undecided=True, bounded=True))
        elif verdict == "differs":
            out.append(Extra(
                "bounded#InlineTrans[" + cid + "]", False, detail[:300],
                bounded=True, kind="bounded run-time contract: compiled "
                "original vs inlined module",
                replay={"confirmed": True, "case": cid,
                        "input": {"module": src},
                        "observed": detail[:1500]}))
        else:
            n_ok += 1
    out.append(Extra("bounded#InlineTrans-compiled-equivalence", True,
                     f"{n_ok} call shapes equal or refused",
                     kind="bounded run-time contract: gfortran-compiled "
                          "original vs inlined module, 3 inputs each",
                     count=n_ok, bounded=True))
    return out


def replay(name, ob, model, uni):
    from realise import C07 as R
    return R.run(name)


def replay_known(k, uni):
    from realise import C07 as R
    return R.known(k["id"])
