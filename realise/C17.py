"""Replays for C17 through the real SymbolicMaths on parsed expressions,
evaluated with Fortran integer semantics at a concrete valuation."""


def _exprs(src1, src2, names="n"):
    from psyclone.psyir.frontend.fortran import FortranReader
    from psyclone.psyir.nodes import Assignment
    code = (f"subroutine s()\ninteger :: {names}, x1, x2\n"
            f"x1 = {src1}\nx2 = {src2}\nend subroutine s\n")
    psyir = FortranReader().psyir_from_source(code)
    a1, a2 = psyir.walk(Assignment)[:2]
    return a1.rhs, a2.rhs


def known(kid):
    from psyclone.core import SymbolicMaths
    sm = SymbolicMaths.get()
    if kid == "integer-division":
        e1, e2 = _exprs("n/2*2", "n")
        return sm.equal(e1, e2) is True        # differs for n = 1: 0 vs 1
    if kid == "mod-sign":
        e1, e2 = _exprs("mod(n,3)", "mod(n+3,3)")
        return sm.equal(e1, e2) is True        # n = -1: -1 vs 2
    if kid == "negative-power":
        e1, e2 = _exprs("2**(-1)*2", "1")
        return sm.equal(e1, e2) is True        # Fortran: 0 vs 1
    return None


def renaming_cases():
    """BOUNDED: expressions over variables whose names are reserved in SymPy
    (lambda, in, ...) together with the names the writer would rename them
    to; different variables must never be declared equal, identical
    expressions must be.  [(pair, ok, detail)]"""
    from psyclone.core import SymbolicMaths
    from psyclone.psyir.frontend.fortran import FortranReader
    from psyclone.psyir.nodes import Assignment
    pairs = [("lambda(i)", "lambda_1(i)", False),
             ("2*in(i+1)", "in_1(i+1)*2", False),
             ("j + lambda(1)", "j + lambda_1(1)", False),
             ("max(in(i), j)", "max(j, in_1(i))", False),
             ("lambda + 1", "lambda_1 + 1", False),
             ("lambda(i)", "lambda(i)", True),
             ("lambda_1(i+1)", "lambda_1(1+i)", True),
             ("in + lambda", "lambda + in", True)]
    out = []
    sm = SymbolicMaths.get()
    for t1, t2, same in pairs:
        arr = "(10)" if "(" in t1 else ""
        src = (f"subroutine s()\n  integer :: lambda{arr}, lambda_1{arr}, "
               f"in{arr}, in_1{arr}, i, j, r1, r2\n  r1 = {t1}\n  r2 = {t2}\n"
               "end subroutine s\n")
        asg = FortranReader().psyir_from_source(src).walk(Assignment)
        got = sm.equal(asg[0].rhs, asg[1].rhs)
        ok = (got == same)
        out.append((f"{t1} ~ {t2}", ok, "" if ok else
                    f"SymbolicMaths.equal({t1}, {t2}) is {got}; the "
                    f"expressions {'are identical' if same else 'use different variables'}"))
    return out


def never_equal_cases():
    """Pairs of integer expressions for which never_equal must be False under
    Fortran integer semantics because some valuation makes them equal
    (ground truth by evaluation with truncating division over a small box).
    Returns a replay dict."""
    from psyclone.core import SymbolicMaths
    sm = SymbolicMaths.get()

    def tdiv(a, b):
        q = abs(a) // abs(b)
        return q if (a >= 0) == (b >= 0) else -q
    pairs = [("n/2", "(n+1)/2", lambda n: (tdiv(n, 2), tdiv(n + 1, 2))),
             ("n/3", "(n+1)/3", lambda n: (tdiv(n, 3), tdiv(n + 1, 3))),
             ("(2*n+1)/2", "n", lambda n: (tdiv(2 * n + 1, 2), n))]
    for t1, t2, ev in pairs:
        e1, e2 = _exprs(t1, t2)
        if sm.never_equal(e1, e2):
            for n in range(-4, 5):
                v1, v2 = ev(n)
                if v1 == v2:
                    return {"confirmed": True,
                            "input": {"expressions": [t1, t2], "n": n},
                            "observed": f"never_equal({t1}, {t2}) is True "
                            f"but for n = {n} both are {v1} in Fortran "
                            "integer arithmetic"}
    return {"confirmed": False}
