"""Realiser for C25: the real GOLoop.get_custom_bound_string / lower_bound /
upper_bound on a generated GOcean invoke that uses a user-defined iteration
space, checked against the run-time version of the contract."""
import os
import re
import shutil
import tempfile

KERNEL = '''
module north_row_mod
  use kind_params_mod
  use kernel_mod
  use argument_mod
  use grid_mod
  use field_mod
  implicit none
  private
  public north_row, north_row_code
  type, extends(kernel_type) :: north_row
     type(go_arg), dimension(2) :: meta_args =          &
          (/ go_arg(GO_WRITE, GO_CT, GO_POINTWISE),     &
             go_arg(GO_READ,  GO_CT, GO_POINTWISE)      &
           /)
     integer :: ITERATES_OVER = north_halo_row
     integer :: index_offset = GO_OFFSET_SW
  contains
    procedure, nopass :: code => north_row_code
  end type north_row
contains
  subroutine north_row_code(i, j, a, b)
    implicit none
    integer,  intent(in) :: i, j
    real(go_wp), intent(out), dimension(:,:) :: a
    real(go_wp), intent(in),  dimension(:,:) :: b
    a(i,j) = b(i,j-1)
  end subroutine north_row_code
end module north_row_mod
'''

ALG = '''
program alg
  use kind_params_mod
  use grid_mod
  use field_mod
  use north_row_mod, only: north_row
  implicit none
  type(grid_type), target :: model_grid
  type(r2d_field) :: a_fld, b_fld
  call invoke( north_row(a_fld, b_fld) )
end program alg
'''
ITSPACE = "go_offset_sw:go_ct:north_halo_row:{stop}+1:{stop}+2:{start}:{stop}-1"


def run():
    from psyclone.configuration import Config
    from psyclone.parse.algorithm import parse
    from psyclone.psyGen import PSyFactory
    from psyclone.gocean1p0 import GOLoop
    tmpdir = tempfile.mkdtemp(prefix="c25_")
    try:
        Config._instance = None
        with open(Config.get().filename, encoding="utf-8") as fin:
            cfg = fin.read()
        cfg = re.sub(r"^\[gocean\]\s*$",
                     "[gocean]\niteration-spaces = " + ITSPACE,
                     cfg, count=1, flags=re.M)
        cfg_file = os.path.join(tmpdir, "psyclone.cfg")
        with open(cfg_file, "w", encoding="utf-8") as fout:
            fout.write(cfg)
        Config.get().load(cfg_file)
        with open(os.path.join(tmpdir, "north_row_mod.f90"), "w") as fout:
            fout.write(KERNEL)
        alg_file = os.path.join(tmpdir, "alg.f90")
        with open(alg_file, "w") as fout:
            fout.write(ALG)
        _, info = parse(alg_file, api="gocean", kernel_paths=[tmpdir])
        psy = PSyFactory("gocean", distributed_memory=False).create(info)
        sched = psy.invokes.invoke_list[0].schedule
        props = Config.get().api_conf("gocean").grid_properties
        want = {("outer", "start"): "{y}+1", ("outer", "stop"): "{y}+2",
                ("inner", "start"): "2", ("inner", "stop"): "{x}-1"}
        for loop in sched.walk(GOLoop):
            field = [a for a in sched.symbol_table.argument_list
                     if getattr(a.datatype, "name", "") == "r2d_field"][0]
            x = props["go_grid_xstop"].fortran.format(field.name)
            y = props["go_grid_ystop"].fortran.format(field.name)
            for side in ("start", "stop"):
                got = loop.get_custom_bound_string(side)
                exp = want[(loop.loop_type, side)].format(x=x, y=y)
                if got != exp:
                    return {"confirmed": True,
                            "input": {"iteration-space": ITSPACE,
                                      "loop_type": loop.loop_type,
                                      "side": side},
                            "observed": f"get_custom_bound_string = {got!r},"
                                        f" contract requires {exp!r}"}
            from psyclone.psyir.backend.fortran import FortranWriter
            w = FortranWriter()
            lo, hi = w(loop.lower_bound()), w(loop.upper_bound())
            exp_lo = want[(loop.loop_type, "start")].format(x=x, y=y)
            exp_hi = want[(loop.loop_type, "stop")].format(x=x, y=y)
            norm = lambda t: t.replace(" ", "").lower()   # noqa
            if norm(lo) != norm(exp_lo) or norm(hi) != norm(exp_hi):
                return {"confirmed": True,
                        "input": {"iteration-space": ITSPACE,
                                  "loop_type": loop.loop_type},
                        "observed": f"bounds {lo} .. {hi}, contract "
                                    f"requires {exp_lo} .. {exp_hi}"}
        return {"confirmed": False}
    finally:
        Config._instance = None
        shutil.rmtree(tmpdir, ignore_errors=True)
