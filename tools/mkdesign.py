#!/usr/bin/env python3
"""tools/mkdesign.py: regenerate the mechanical tables of DESIGN.md (between
the <!-- BEGIN x --> / <!-- END x --> markers) from MANIFEST.json,
known_findings.json, seeded/*/meta.json and evidence/*.json."""
import glob
import json
import os
import re

ROOT = "/verif"


def evidence(pid):
    p = f"{ROOT}/evidence/{pid}.json"
    if not os.path.exists(p):
        return {}
    return json.load(open(p)).get("coverage", {})


def status_table():
    man = json.load(open(f"{ROOT}/MANIFEST.json"))
    kf = json.load(open(f"{ROOT}/known_findings.json"))["findings"]
    rows = ["| id | functions read from /repo (the first ones are under contract, the rest inlined or hooked) | named obl. / "
            "path instances (proved) | bounded cases (not counted) | open findings | fixed |",
            "|---|---|---|---|---|---|"]
    claimed = {c["property_id"]: c for c in man["checks"]}
    props = [json.loads(l) for l in open(f"{ROOT}/properties.jsonl")]
    for p in props:
        pid = p["id"]
        if pid not in claimed:
            what = "not applicable" if pid in ("C01", "C03") else \
                "not claimed"
            rows.append(f"| {pid} | — {what} (§5) | | | | |")
            continue
        cov = evidence(pid)
        fns = cov.get("functions_under_contract", [])
        names = []
        for f in fns:
            n = f.get("function", f) if isinstance(f, dict) else str(f)
            names.append(str(n).split(":")[-1])
        names = ", ".join(dict.fromkeys(names)) or \
            "executed closed code (obligations on its output)"
        extras = cov.get("extra_checks", [])
        bounded = [e for e in cov.get("bounded_parts", [])]
        nb = str(cov.get("bounded_cases_not_counted_as_obligations", "")) \
            if bounded or any(isinstance(e, dict) and e.get("bounded")
                              for e in extras) else ""
        n_open = sum(1 for k in kf if k["property"] == pid
                     and k.get("status", "open") == "open")
        n_fix = sum(1 for k in kf if k["property"] == pid
                    and k.get("status") == "fixed")
        rows.append(f"| {pid} | {names[:160]} | "
                    f"{cov.get('named_obligations', '')} / "
                    f"{cov.get('obligations', '')} | {nb} | "
                    f"{n_open or ''} | {n_fix or ''} |")
    return "\n".join(rows)


def findings_table():
    kf = json.load(open(f"{ROOT}/known_findings.json"))["findings"]
    rows = ["| property | id | status | failing obligation | input | what "
            "fails |", "|---|---|---|---|---|---|"]
    for k in kf:
        st = k.get("status", "open")
        if st == "fixed":
            st = "fixed " + k.get("commit", "")
        what = k["what"].replace("|", "/")
        rows.append(f"| {k['property']} | {k.get('id', '')} | {st} | "
                    f"`{k.get('obligation', '')}` | "
                    f"{str(k.get('input', '')).replace('|', '/')[:140]} | "
                    f"{what[:330]} |")
    return "\n".join(rows)


def seeds_table():
    rows = ["| seed | what it needs to manifest | result of the property's "
            "check with the change applied |", "|---|---|---|"]
    for f in sorted(glob.glob(f"{ROOT}/seeded/*/meta.json")):
        m = json.load(open(f))
        rows.append(f"| {m['seed']} | "
                    f"{m['needs_to_manifest'].replace('|', '/')[:170]} | "
                    f"{m['check_result'].replace('|', '/')[:330]} |")
    return "\n".join(rows)


def main():
    path = f"{ROOT}/DESIGN.md"
    text = open(path).read()
    for key, fn in (("STATUS", status_table), ("FINDINGS", findings_table),
                    ("SEEDS", seeds_table)):
        pat = re.compile(rf"(<!-- BEGIN {key} -->\n).*?(<!-- END {key} -->)",
                         re.S)
        if not pat.search(text):
            raise SystemExit(f"marker {key} missing")
        text = pat.sub(lambda m: m.group(1) + fn() + "\n" + m.group(2), text)
    open(path, "w").write(text)
    print("DESIGN.md tables regenerated")


if __name__ == "__main__":
    main()
