"""Permutation model for C08 (bounded part): for a family of loops the real
DependencyTools.can_loop_be_parallelised is asked; whenever it answers True
the loop's iterations are executed (evaluator of realise/omp_model.py) in
the original, the reversed and several shuffled orders - each iteration
with its own, initially undefined, copy of the scalars that the loop writes,
as a parallel execution would privatise them - and the arrays must come out
as in the plain serial run."""
import itertools
import random

N = 6
HEAD = """subroutine s(a, b, c, d, e, idx, n)
  integer, intent(in) :: n
  real, intent(inout) :: a(8), b(8), c(8), d(8), e(8,8)
  integer, intent(in) :: idx(8)
  real :: t, u
  integer :: i, j
"""


def loops():
    out = {}
    subs = ["i", "i+1", "i-1", "2", "idx(i)", "9-i"]
    for w, r in itertools.product(subs[:4] + ["9-i"], subs):
        out[f"a({w})=a({r})"] = (f"  do i = 2, 7\n    a({w}) = a({r}) + "
                                 f"b(i)\n  end do\n")
    out["temp-scalar"] = ("  do i = 2, 7\n    t = b(i) * 2.0\n"
                          "    a(i) = t + c(i)\n  end do\n")
    out["read-then-write-scalar"] = ("  do i = 2, 7\n    a(i) = t\n"
                                     "    t = b(i)\n  end do\n")
    out["reduction"] = "  do i = 2, 7\n    t = t + b(i)\n  end do\n" \
                       "  a(1) = t\n"
    out["two-arrays"] = ("  do i = 2, 7\n    a(i) = b(i-1)\n"
                         "    b(i) = c(i)\n  end do\n")
    out["inner-loop"] = ("  do i = 2, 7\n    do j = 2, 7\n"
                         "      a(j) = a(j) + b(i)\n    end do\n  end do\n")
    out["diagonal-2d"] = ("  do i = 2, 7\n    do j = 2, 7\n"
                          "      e(j,i) = e(j+1,i-1) + 1.0\n    end do\n"
                          "  end do\n")
    out["column-2d"] = ("  do i = 2, 7\n    do j = 2, 7\n"
                        "      e(j,i) = e(j-1,i) + 1.0\n    end do\n"
                        "  end do\n")
    out["conditional-first-write"] = (
        "  do i = 2, 7\n    if (c(i) > 4.0) then\n      t = b(i)\n"
        "    end if\n    a(i) = t\n  end do\n")
    return out


def run_case(cid, body):
    """(verdict, detail, source): serial / equal / differs"""
    from psyclone.psyir.frontend.fortran import FortranReader
    from psyclone.psyir.nodes import Loop, Routine
    from psyclone.psyir.tools import DependencyTools
    from realise import omp_model as M
    M.QUIET = True
    src = HEAD + body + "end subroutine s\n"
    rt = FortranReader().psyir_from_source(src).walk(Routine)[0]
    loop = rt.walk(Loop)[0]
    if not DependencyTools().can_loop_be_parallelised(loop):
        return "serial", "", src

    def inputs():
        vec = lambda f: M.array((8,), f)      # noqa: E731
        return dict(a=vec(lambda i: 10.0 + i), b=vec(lambda i: 3.0 * i),
                    c=vec(lambda i: float(i)), d=vec(lambda i: 0.5 * i),
                    e=M.array((8, 8), lambda p, q: float(10 * q + p)),
                    idx=vec(lambda i: (i * 3) % 8 + 1), n=8, t=-1.0,
                    u=-2.0, i=0, j=0)
    pos = rt.children.index(loop)
    written = {a.lhs.symbol.name.lower() for a in loop.walk(
        __import__("psyclone").psyir.nodes.Assignment)
        if not a.lhs.children}

    def execute(order):
        env = inputs()
        th = M.Thread(0, M.Env(env), None)
        for st in rt.children[:pos]:
            M.drain(M.run(st, th))
        vals = M.loop_values(loop, M.Env(env))
        for v in order(vals):
            # every iteration gets its own copy of the written scalars
            priv = {k: M.UNDEF for k in written}
            priv[loop.variable.name.lower()] = v
            th2 = M.Thread(0, M.Env(env, priv), None)
            for st in loop.loop_body.children:
                M.drain(M.run(st, th2))
        for st in rt.children[pos + 1:]:
            M.drain(M.run(st, th))
        return {k: v for k, v in env.items() if isinstance(v, dict)}
    try:
        serial = M.run_serial(rt, inputs())
        want = {k: v for k, v in serial.items() if isinstance(v, dict)}
        rng = random.Random(7)
        orders = [lambda vs: vs, lambda vs: list(reversed(vs))]
        for _ in range(6):
            orders.append(lambda vs, r=rng: r.sample(vs, len(vs)))
        for order in orders:
            got = execute(order)
            if got != want:
                bad = sorted(k for k in want if got[k] != want[k])
                return "differs", (f"can_loop_be_parallelised is True but "
                                   f"another iteration order changes "
                                   f"{bad}"), src
    except RuntimeError as err:
        return "differs", (f"can_loop_be_parallelised is True but an "
                           f"iteration reads an undefined private scalar "
                           f"({err})"), src
    return "equal", "", src


def cases():
    return [(cid,) + run_case(cid, body) for cid, body in loops().items()]
