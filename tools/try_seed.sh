#!/bin/sh
# tools/try_seed.sh <PROP> <patch.diff> : apply a seeded change to /repo, run the
# property's quick check, undo the change straight afterwards.
PROP=$1; PATCH=$2
cd /repo || exit 9
git apply --check "$PATCH" || { echo "patch does not apply"; exit 9; }
git apply "$PATCH"
cp /verif/evidence/$PROP.json /verif/.work/evidence_$PROP.bak 2>/dev/null
/verif/check "$PROP" | grep -E "^(VIOLATION|UNDECIDED|CHECKER|KNOWN|$PROP:)" | cut -c1-260
git -C /repo checkout -- .
cp /verif/.work/evidence_$PROP.bak /verif/evidence/$PROP.json 2>/dev/null
git -C /repo status --short
