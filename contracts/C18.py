"""C18 — line-length limiting keeps the program and respects the limit.

Contracts on the real code of src/psyclone/line_length.py:
find_break_point (all strings, all key lists), FortLineLength._get_line_type
(regex classification) and FortLineLength.process (length bound, unchanged
short text, termination, exceptions).
"""
import z3
from pyvc.interp import Contract, LoopSpec
from pyvc.values import VFunc, STR, INT, BOOL

ID = "C18"
LEVEL = "proof"
LL = "line_length.py"

FNW = "(len(line) - len(line.lstrip()))"
SPLIT = "fortran_in.split('\\n')"
PREDS = {
    "NOKEY": (["k"], f"line.rfind(k, {FNW} + 1, max_index) <= 0"),
    "SHORT_UPTO": (["lst", "n"], "forall(lambda i: implies(0 <= i and i < n, "
                                 "len(at(lst, i)) <= self._line_length))"),
}


def build(uni):
    uni.fields.update({"_line_length": "int"})
    uni.rfind_uf = True
    uni.split_light = True
    uni.merge_const_lookup = True
    uni.preds.update(PREDS)
    lines_ok = uni.uf("lines_ok", ["str", "int"], "bool")
    nonl = uni.uf("nonl", ["str"], "bool")
    jp = uni.uf("join_prefix_a", ["arr[str]", "int"], "str")
    NL = z3.StringVal("\n")

    def parts_of(e):
        if z3.is_app(e) and e.decl().kind() == z3.Z3_OP_SEQ_CONCAT:
            out = []
            for ch in e.children():
                out.extend(parts_of(ch))
            return out
        return [e]

    def inst_nonl(st, e, depth=0):
        """definitional facts of nonl ('contains no newline') instantiated
        by the engine at the term at hand (no quantifiers for the solver)"""
        if z3.is_string_value(e):
            st.assume(nonl(e) == z3.BoolVal("\n" not in e.as_string()))
            return
        if not z3.is_app(e) or depth > 6:
            return
        k = e.decl().kind()
        if k == z3.Z3_OP_UNINTERPRETED and e.num_args() == 0:
            # a string variable: the definition itself
            st.assume(nonl(e) == z3.Not(z3.Contains(e, NL)))
            return
        if k == z3.Z3_OP_SEQ_CONCAT:
            ps = parts_of(e)
            for p in ps:
                inst_nonl(st, p, depth + 1)
            st.assume(nonl(e) == z3.And([nonl(p) for p in ps]))
        elif k == z3.Z3_OP_SEQ_EXTRACT:
            inst_nonl(st, e.arg(0), depth + 1)
            st.assume(z3.Implies(nonl(e.arg(0)), nonl(e)))

    def h_nonl(it, args, kw, st, fr):
        inst_nonl(st, args[0].e)
        return VBool(nonl(args[0].e))

    def h_lines_ok(it, args, kw, st, fr):
        x, lim = args[0].e, it.as_int(args[1])
        ps = parts_of(x)
        if z3.is_string_value(x) and x.as_string() == "":
            st.assume(lines_ok(x, lim))
        elif z3.is_string_value(ps[-1]) and \
                ps[-1].as_string().endswith("\n"):
            # (simplify may have merged a literal with the final newline)
            lastpre = ps[-1].as_string()[:-1]
            if len(ps) > 1 and not z3.is_string_value(ps[0]):
                base, mid = ps[0], ps[1:-1]
            else:
                base, mid = z3.StringVal(""), ps[:-1]
                st.assume(lines_ok(base, lim))
            if lastpre:
                mid = mid + [z3.StringVal(lastpre)]
            for m in mid:
                inst_nonl(st, m)
            tot = z3.Sum([z3.Length(m) for m in mid]) if mid else \
                z3.IntVal(0)
            # lines_ok(a) & nonl(b) & |b| <= L  =>  lines_ok(a + b + '\n')
            st.assume(z3.Implies(z3.And([lines_ok(base, lim), tot <= lim] +
                                        [nonl(m) for m in mid]),
                                 lines_ok(x, lim)))
        return VBool(lines_ok(x, lim))

    def h_join_prefix(it, args, kw, st, fr):
        lst, k = args[0], it.as_int(args[1])
        arr = it.list_items(lst, st)
        n = it.length(lst, st)
        st.assume(z3.Implies(z3.And(1 <= k, k <= n),
                             jp(arr, k) == z3.Concat(jp(arr, k - 1),
                                                     arr[k - 1], NL)))
        return VStr(jp(arr, k))
    from pyvc.values import VStr, VBool
    uni.consts["lines_ok"] = VFunc("hook", fn=h_lines_ok)
    uni.consts["nonl"] = VFunc("hook", fn=h_nonl)
    uni.consts["join_prefix"] = VFunc("hook", fn=h_join_prefix)
    uni.note_assumption(
        "nonl(s) ('s contains no newline') is an uninterpreted predicate; "
        "its defining facts (literal: decided; concatenation: conjunction; "
        "substring of a newline-free string is newline-free; elements of "
        "s.split('\\n') are newline-free) are instantiated by the engine at "
        "the terms that occur")
    uni.note_assumption(
        "lines_ok(s, L) ('s is a sequence of newline-terminated lines of "
        "length <= L') is an uninterpreted predicate; its two defining facts "
        "lines_ok('') and lines_ok(a) & nonl(b) & |b|<=L => "
        "lines_ok(a+b+'\\n') are instantiated by the engine at the terms "
        "that occur")
    from pyvc.regex import match_prefix
    import re as _re
    uni.consts["OMP"] = VStr(r"^\s*!\$omp")
    uni.consts["ACC"] = VStr(r"^\s*!\$acc")
    uni.consts["BANG"] = VStr(r"^\s*!")
    uni.consts["re_match"] = VFunc(
        "hook", fn=lambda it, args, kw, st, fr: VBool(match_prefix(
            it.concrete(args[0]), _re.I, args[1].e)))
    cs = []

    # ---------------------------------------------------- find_break_point
    c = Contract(
        f"{LL}:find_break_point", name="find_break_point",
        params={"line": "str", "max_index": "int", "key_list": "list[str]"},
        requires=[("args", "0 <= max_index and key_list is not None and "
                           "len(key_list) >= 0"),
                  ("keys", "forall(lambda q: implies(0 <= q and "
                           "q < len(key_list), len(at(key_list, q)) >= 1))")],
        returns="int",
        ensures=[
            ("bounds", "2 <= result and result <= max_index and "
                       "result <= len(line)"),
            ("at_key", f"exists(lambda q: 0 <= q and q < len(key_list) and "
                       f"result - len(at(key_list, q)) > {FNW} and "
                       f"substr(line, result - len(at(key_list, q)), "
                       f"len(at(key_list, q))) == at(key_list, q) and "
                       f"forall(lambda p: implies(0 <= p and p < q, "
                       f"NOKEY(at(key_list, p)))))"),
        ],
        raises={"InternalError": ("iff",
                "forall(lambda q: implies(0 <= q and q < len(key_list), "
                "NOKEY(at(key_list, q))))")},
        modifies=[],
        # callers (process) only rely on the bounds
        call_ensures=["bounds"], call_raises={"InternalError": None})
    uni.contracts["standalone:find_break_point"] = c
    uni.contracts["find_break_point"] = c
    uni.loopspecs["find_break_point"] = {0: LoopSpec(invariants=[
        ("none_yet", "forall(lambda p: implies(0 <= p and p < _k, "
                     "line.rfind(at(key_list, p), first_non_whitespace + 1, "
                     "max_index) <= 0))"),
        ("fnw", f"first_non_whitespace == {FNW}")], modifies=[])}
    cs.append(c)

    # ------------------------------------------------------ _get_line_type
    c = Contract(
        f"{LL}:FortLineLength._get_line_type",
        params={"self": "FortLineLength", "line": "str"}, returns="str",
        ensures=[
            ("total", "result == 'statement' or result == 'openmp_directive'"
                      " or result == 'openacc_directive' or "
                      "result == 'comment' or result == 'unknown'"),
            # free-form source: a line whose first non-blank character is
            # '!' is a comment line, unless it starts with a directive
            # sentinel (OpenMP 5.0 s2.1.2 / OpenACC 3.0 s2.1: sentinel
            # followed by anything, including the continuation '&')
            ("omp", "(result == 'openmp_directive') == re_match(OMP, line)"),
            ("acc", "(result == 'openacc_directive') == re_match(ACC, line)"),
            ("comment", "(result == 'comment') == (re_match(BANG, line) and "
                        "not re_match(OMP, line) and "
                        "not re_match(ACC, line))"),
            ("code", "(result == 'statement' or result == 'unknown') == "
                     "(not re_match(BANG, line))"),
        ], raises={}, modifies=[], call_ensures=["total"])
    uni.contracts["FortLineLength._get_line_type"] = c
    cs.append(c)

    # ------------------------------------------------------------- process
    c = Contract(
        f"{LL}:FortLineLength.process",
        params={"self": "FortLineLength", "fortran_in": "str"},
        requires=[("limit", "40 <= self._line_length and "
                            "self._line_length <= 132")],
        returns="str",
        ensures=[
            ("limit", "lines_ok(result + '\\n', self._line_length)"),
            ("short_unchanged",
             f"implies(SHORT_UPTO({SPLIT}, len({SPLIT})), "
             f"result == fortran_in)"),
        ],
        # the property says 'never fails'; the code raises InternalError for
        # a long line without a break key in the window (recorded known
        # finding, replayed on every run).  Everything else is still
        # demanded: no other exception, and InternalError only when some
        # line actually has to be wrapped.
        raises={"InternalError": f"exists(lambda i: 0 <= i and "
                f"i < len({SPLIT}) and "
                f"len(at({SPLIT}, i)) > self._line_length)"},
        modifies=[])
    uni.contracts["FortLineLength.process"] = c
    INV = [("ok", "lines_ok(fortran_out, self._line_length)"),
           ("nl", "fortran_out == '' or fortran_out.endswith('\\n')")]
    uni.loopspecs["FortLineLength.process"] = {
        0: LoopSpec(invariants=INV + [
            ("nonempty", "implies(_k > 0, len(fortran_out) > 0)"),
            ("same", "implies(SHORT_UPTO(_iter, _k), "
                     "fortran_out == join_prefix(_iter, _k))")],
            modifies=[]),
        1: LoopSpec(invariants=INV + [
            ("line", "nonl(line)"),
            ("bp", "len(fortran_out) > 0")],
            modifies=[], decreases="len(line)"),
    }
    cs.append(c)
    return cs


TRUSTED = [
    "pyvc VC generator and z3/cvc5 (strings: z3 seq theory, ground goals)",
    "str.lstrip/rfind/split/slicing models (cross-checked against CPython "
    "by the bounded run-time contract on the real code)",
    "regular expressions of _get_line_type translated to z3 regex by "
    "pyvc/regex.py (re.IGNORECASE on ASCII letters)",
    "lemma (definition of lines_ok): lines_ok(s+'\\n', L) iff every element "
    "of s.split('\\n') has length <= L; with it, idempotence "
    "process(process(x)) == process(x) follows from the two proved "
    "postconditions 'limit' and 'short_unchanged'",
    "NOT under a deductive contract: that joining the continuation lines "
    "gives back the statement text (bounded run-time contract only), and "
    "the lexical context (comment / character literal) of a break position",
]
EXPLANATION = (
    "find_break_point is verified for every string, window and key list; "
    "_get_line_type against the free-form/sentinel classification; "
    "FortLineLength.process for every text and every limit 40..132: all "
    "output lines within the limit, a text without long lines returned "
    "unchanged, termination of the wrapping loop, no exception other than "
    "InternalError and that only when a line has to be wrapped.")


def extra(uni, tier, seed):
    from pyvc.runner import Extra
    from realise import C18 as R
    rp = R.search(tier)
    return [Extra("bounded#process-runtime-contract", not rp["confirmed"],
                  detail=str(rp)[:300], kind="bounded run-time contract on "
                  "the real FortLineLength (content preservation, "
                  "idempotence, classification, limit)", replay=rp,
                  count=rp["cases"], bounded=True,
                  samples=[{"line": "call sub(arg1, arg2, arg3)",
                            "limits": "40,41,60,132"}])]


def replay(name, ob, model, uni):
    from realise import C18 as R
    rp = R.search("thorough")
    rp["obligation"] = name
    return rp


def replay_known(k, uni):
    from realise import C18 as R
    if k.get("id") == "nokey":
        return R.known_nokey()
    if k.get("id") == "trailing-comment":
        return R.known_trailing_comment()
    return None
