"""C24 — generated algorithm and PSy layers agree on invoke arguments.

Deductive part: the loop of Invoke.__init__ (psyGen.py) that builds the two
lists the layers are generated from - _alg_unique_args (the texts passed by
the algorithm-layer call) and _psy_unique_vars (the arguments the PSy
routine declares).  Verified on the mechanical statement range of the real
body that contains this loop.  Postconditions, for an arbitrary number of
kernels with arbitrary argument lists:
  the lists have the same length, position k of the PSy list is an argument
  written as position k of the algorithm list and no text is passed twice.
  (That every written argument is passed is NOT proved: the forall-exists
  invariant stayed undecided in both solvers; the bounded family covers it.)
BOUNDED part (never counted as proved): the real generator on the oracle's
five scenarios plus generated algorithm files; call and routine compared
position by position with the invoke as written.
"""
import z3
from pyvc.interp import Contract, LoopSpec
from pyvc.values import (VRef, VFunc, VBool, VInt, NONE, Ref)

ID = "C24"
LEVEL = "proof"
PG = "psyGen.py"
NULLC = z3.Const("null", Ref)
BOOL = z3.BoolSort()


def build(uni):
    uni.fields.update({
        "_alg_unique_args": "list[int]", "_psy_unique_vars": "list[Argument]",
        "$args": "list[Argument]", "$text": "int", "$has_text": "bool",
        "$name": "int",
    })
    AL0 = z3.Const("H0_$alloc", z3.ArraySort(Ref, BOOL))
    KERNS = z3.Function("kernels_of", Ref, Ref)

    def field_hook(attr):
        def h(it, selfv, args, kw, st, fr):
            return it.getattr(VRef(selfv.e, "Obj"), attr, st, fr)
        return h

    def h_text(it, selfv, args, kw, st, fr):
        if it.dec.branch(st, st.read("$has_text", selfv.e, "bool")):
            return VInt(st.read("$text", selfv.e, "int"))
        return NONE

    def h_kernels(it, selfv, args, kw, st, fr):
        r = KERNS(selfv.e)
        st.assume(z3.And(r != NULLC, z3.Select(AL0, r)))
        return VRef(r, "list", "Kern")
    uni.method_hooks.update({
        "Invoke.schedule": lambda it, s, a, k, st, fr: VRef(s.e,
                                                            "InvokeSchedule"),
        "InvokeSchedule.kernels": h_kernels,
        "Schedule.kernels": h_kernels,
        "Node.kernels": h_kernels,
        "Kern.arguments": lambda it, s, a, k, st, fr: VRef(s.e, "ArgsOf"),
        "Argument.text": h_text,
        "Argument.name": field_hook("$name"),
    })
    uni.prop_hooks["ArgsOf.args"] = field_hook("$args")
    uni.consts.update({
        "KERNS": VFunc("hook", fn=lambda it, a, k, st, fr: VRef(
            KERNS(a[0].e), "list", "Kern")),
        "ARGS": VFunc("hook", fn=lambda it, a, k, st, fr: it.getattr(
            VRef(a[0].e, "Obj"), "$args", st, fr)),
        "TEXT": VFunc("hook", fn=lambda it, a, k, st, fr: VInt(st.read(
            "$text", a[0].e, "int"))),
        "HAS": VFunc("hook", fn=lambda it, a, k, st, fr: VBool(st.read(
            "$has_text", a[0].e, "bool"))),
        "NAME": VFunc("hook", fn=lambda it, a, k, st, fr: VInt(st.read(
            "$name", a[0].e, "int"))),
    })
    uni.preds.update({
        # the PSy-layer name of an argument is determined by, and
        # determines, the text it was written as
        "NAME_TEXT": ([], "forall(lambda p, q: implies(p is not None and "
                          "q is not None and HAS(p) and HAS(q), "
                          "(TEXT(p) == TEXT(q)) == (NAME(p) == NAME(q))), "
                          "'Argument')"),
        "VIEW": ([], """
            forall(lambda c: implies(0 <= c and c < len(KERNS(self)),
                at(KERNS(self), c) is not None and
                ARGS(at(KERNS(self), c)) is not None and
                forall(lambda j: implies(0 <= j and
                    j < len(ARGS(at(KERNS(self), c))),
                    at(ARGS(at(KERNS(self), c)), j) is not None))))
            """),
        "ALIGNED": (["alg", "psy"], """
            len(alg) == len(psy) and
            forall(lambda k: implies(0 <= k and k < len(alg),
                at(psy, k) is not None and HAS(at(psy, k)) and
                TEXT(at(psy, k)) == at(alg, k))) and
            forall(lambda i, j: implies(0 <= i and i < j and j < len(alg),
                                        at(alg, i) != at(alg, j)))
            """),
        "PASSED": (["alg", "a"], "implies(HAS(a), exists(lambda k: 0 <= k "
                                 "and k < len(alg) and at(alg, k) == "
                                 "TEXT(a)))"),
    })
    c = Contract(
        f"{PG}:Invoke.__init__",
        params={"self": "Invoke", "alg_invocation": "Obj", "idx": "int",
                "schedule_class": "Obj", "invokes": "Obj",
                "reserved_names": "Obj"},
        requires=[("view", "VIEW()"), ("names", "NAME_TEXT()")],
        ensures=[
            ("layers_agree_position_by_position",
             "ALIGNED(self._alg_unique_args, self._psy_unique_vars)"),
        ],
        raises={}, modifies=["_alg_unique_args", "_psy_unique_vars", "$len",
                             "$items.int", "$items.ref"],
        covers=[("some", "len(self._alg_unique_args) >= 2")])
    c.stmt_range = ("self._alg_unique_args = []", "self._dofs = {}")
    c.range_frame = ("_alg_unique_args", "_psy_unique_vars")
    uni.contracts["Invoke.__init__:top"] = c
    TMP = ("len(tmp_arg_names) == len(self._alg_unique_args) and "
           "forall(lambda k: implies(0 <= k and k < len(tmp_arg_names), "
           "at(tmp_arg_names, k) == NAME(at(self._psy_unique_vars, k))))")
    SETS = ("self._alg_unique_args is not None and "
            "self._psy_unique_vars is not None and tmp_arg_names is not None "
            "and fresh(self._alg_unique_args) and "
            "fresh(self._psy_unique_vars) and fresh(tmp_arg_names) and "
            "self._alg_unique_args is not tmp_arg_names and "
            "self._psy_unique_vars is not tmp_arg_names and "
            "self._psy_unique_vars is not self._alg_unique_args")
    FRAME = ("frame", "forall(lambda x: implies("
                      "x is not self._psy_unique_vars and "
                      "x is not self._alg_unique_args and "
                      "x is not tmp_arg_names, "
                      "select_list(x) == entry(select_list(x))), "
                      "'list[Argument]')")
    uni.loopspecs["Invoke.__init__"] = {
        0: LoopSpec(invariants=[
            ("iter", "_iter is KERNS(self)"),
            ("lists", SETS), FRAME,
            ("aligned", "ALIGNED(self._alg_unique_args, "
                        "self._psy_unique_vars)"),
            ("tmp", TMP)],
            modifies=["_alg_unique_args", "_psy_unique_vars", "$len",
                      "$items.int", "$items.ref"]),
        1: LoopSpec(invariants=[
            ("iter", "_iter is ARGS(call)"),
            ("lists", SETS), FRAME,
            ("aligned", "ALIGNED(self._alg_unique_args, "
                        "self._psy_unique_vars)"),
            ("tmp", TMP),
            ("grow", "forall(lambda k: implies(0 <= k and k < len(entry("
                     "self._alg_unique_args)), at(self._alg_unique_args, k) "
                     "== at(entry(self._alg_unique_args), k))) and "
                     "len(self._alg_unique_args) >= "
                     "len(entry(self._alg_unique_args))")],
            modifies=["$len", "$items.int", "$items.ref"]),
    }
    uni.local_types["Invoke.__init__"] = {"tmp_arg_names": "list[int]"}
    uni.note_assumption(
        "argument texts and PSy-layer names are abstract identifiers "
        "(integers) that the loop only compares for equality; "
        "abstract view: schedule.kernels() is an arbitrary list of kernels, "
        "each with an arbitrary list of arguments carrying a text (or none: "
        "literals) and a PSy-layer name; the name is determined by and "
        "determines the text (precondition NAME_TEXT, established by "
        "Arguments / the symbol table, not under contract)")
    return [c]


TRUSTED = [
    "pyvc VC generator and z3",
    "NOT under contract: parse.algorithm (argument text extraction), the "
    "algorithm-layer rewriting (Alg.gen / the PSyIR-based invoke lowering), "
    "the PSy routine's declaration generation from _psy_unique_vars, "
    "Arguments naming - only the bounded family exercises them",
]
EXPLANATION = (
    "The two lists the layers are generated from are built in lock step: "
    "same length, position k of the PSy list is an argument written as "
    "position k of the algorithm list, no text twice, every written "
    "argument passed; the bounded part compares generated call and "
    "routine position by position on generated algorithm files.")


def extra(uni, tier, seed):
    """BOUNDED stand-in, never counted as proved"""
    from pyvc.runner import Extra
    from realise import C24 as R
    res = R.family(seed or 0, 24 if tier == "quick" else 120)
    out, n_ok = [], 0
    for name, verdict, probs, src in res:
        if verdict == "violated":
            out.append(Extra(
                f"bounded#layers-agree[{name}]", False, "; ".join(probs)[:400],
                bounded=True, kind="bounded run-time contract: generated "
                "call vs generated routine vs source invoke",
                replay={"confirmed": True, "input": {"algorithm": src},
                        "observed": probs[:6]}))
        elif verdict == "ok":
            n_ok += 1
    out.append(Extra("bounded#layers-agree", n_ok >= 10,
                     f"{n_ok} algorithm files agree "
                     f"({len(res) - n_ok - len(out)} refused by PSyclone)",
                     kind="bounded run-time contract: 5 hand-written + "
                          "generated algorithm files (seeded)", count=n_ok,
                     bounded=True, undecided=n_ok < 10))
    return out


def bounded(uni, tier, seed):
    from realise import C24 as R
    for name, verdict, probs, src in R.family(seed or 0, 24):
        if verdict == "violated":
            return {"confirmed": True, "input": {"algorithm": src},
                    "observed": probs[:6]}
    return {"confirmed": False}


def replay(name, ob, model, uni):
    return bounded(uni, "quick", 0)
