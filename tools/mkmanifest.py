"""Regenerate /verif/MANIFEST.json from the table below (one entry per claimed
property) and properties.jsonl (everything else goes to not_applicable)."""
import json

TECH = ("contract-based deductive verification: ast->VC generator (pyvc) + "
        "z3/cvc5 on the real function bodies, sidecar contracts, "
        "counter-model replay on the real code")

CLAIMS = {
 "C14": ("proof",
  "Deductive: VCs generated from the real bodies of all 13 ChildrenList methods and Node.addchild/children.setter/detach/replace_with/pop_all_children on every run, for all list lengths, indices and an arbitrary validation predicate; every obligation (representation invariant, frames, exceptional frames, loop invariants) discharged by z3.",
  "Trusted: the pyvc generator, z3, the list models (cross-checked against CPython), Node.update_signal assumed to change no link/list, exception-message expressions not evaluated, slice indices and Call.replace_named_arg outside the contract.",
  TECH),
 "C27": ("proof",
  "Deductive: the real body of ModuleManager.sort_modules (5 loops, dict/set mutation, for-else) is verified for every dict[str,set[str]] by loop invariants (seen-set rule for dict/set iteration) and a variant; result is a permutation of the keys, input unmodified, known dependencies first under a ghost rank function (acyclicity), complete list for cyclic inputs.",
  "Trusted: pyvc, z3/cvc5, dict/set/list models, copy.deepcopy assumed contract, module names as atoms, the Lean-checked minimum lemma (lemmas/MinElem.lean) assumed at loop exhaustion, input value sets pairwise distinct objects.",
  TECH + "; loop invariants, Lean lemma; bounded search only as replay/fallback"),
 "C18": ("proof",
  "Deductive (z3 strings): find_break_point for every string/window/key list (result inside the window, at a key, priority order, raises iff no key); _get_line_type against the free-form comment/sentinel classification (regexes translated to z3 regex); FortLineLength.process for every text and every limit 40..132: every output line within the limit, text without long lines returned unchanged (hence idempotence by the stated lemma), wrapping loop terminates, no exception except InternalError and only when a line must be wrapped. Two genuine defects are recorded as known findings (no break key -> InternalError; '&' continuation inside a trailing comment).",
  "Trusted: pyvc, z3 seq theory, models of lstrip/rfind/split/slices, regex translation. NOT proved: that joined continuation lines give back the statement text and the lexical context of a break (only a bounded run-time contract on the real code, labelled bounded in the evidence).",
  TECH + "; string VCs with engine-side instantiation of the defining facts of two ghost predicates; bounded run-time contract as stand-in for content preservation"),
 "C25": ("proof",
  "Deductive: (a) GOLoop.setup_bounds is a closed function: it is executed and every entry of the resulting built-in table becomes z3 obligations for all start<=stop (entry grammar '{start|stop}[+-k]', region within the depth-1 halo, non-empty, all-points region contains the internal region); (b) the real bodies of GOLoop.get_custom_bound_string, lower_bound and upper_bound are verified by VC generation: the custom bound is exactly the table entry of the loop's (offset, field space, iteration space, loop type, side) with {stop} replaced by the x extent for inner and the y extent for outer loops, taken from the first r2d_field argument; internal/all-points loops take the internal/whole grid property of their loop type and side.",
  "Trusted/assumed: pyvc, z3; Config/ancestor/symbol-table accessors as engine hooks; str.format/lower uninterpreted. NOT covered: agreement of the table with the dl_esm_inf run-time regions (library absent from this checkout), hence region equality with and without constant loop bounds; GOConstLoopBoundsTrans.apply, add_bounds and the transformations that must keep the region are not under contract (seeded change C25b is missed for this reason).",
  TECH + "; executed closed table + z3 obligations over all grid sizes"),
 "C23": ("proof",
  "Deductive: PSyLoop.has_inc_arg (nested loops, invariants) returns exactly 'some kernel argument has increment or read-then-increment access'; DynamoOMPParallelLoopTrans.validate and Dynamo0p3OMPLoopTrans.validate return normally only for a loop over a single colour, or without such an argument (or on a discontinuous space for the former); LFRicLoop.independent_iterations (consulted by the generic OpenMP/OpenACC loop transformations) never reports a 'colours' loop independent and reports a loop over all cells independent only without such an argument unless the generic analysis proved independence; Dynamo0p3ColourTrans.apply refuses inside an OpenMP directive, for non-cell loops and discontinuous spaces. One defect was repaired (fix: 01cd2b8, READINC ignored), one is a recorded known finding (colouring accepted inside an OpenACC parallel region).",
  "Assumed: accessor properties and tree queries (coded_kernels, ancestor, arguments, access, loop_type, field_space) as engine hooks returning stored attributes; base-class validate/apply may raise or return. NOT under contract: ParallelLoopTrans.validate's refusal of 'colours' loops, ParallelRegionTrans.validate, the OpenACC transformations' own bodies and the induction over transformation sequences.",
  TECH + "; reachability (cover) checks against vacuity"),
 "C11": ("proof",
  "Deductive, over a ghost event clock (visit / add_access / merge events, time-stamped; monotone visited-by and accessed-by sets): Call.reference_accesses records an access of type READ (pure routine) or READWRITE for every by-reference argument, visits EVERY index expression of EVERY component of such an argument and visits every expression argument; IntrinsicCall.reference_accesses visits every argument except the first one of an inquiry intrinsic (all of them with COLLECT-ARRAY-SHAPE-READS); Assignment.reference_accesses collects the target into a fresh collector, marks it written, and merges it strictly after the right-hand side has been visited. Plus one table obligation per entry of the real IntrinsicCall.Intrinsic table: an entry flagged is_inquiry (whose first argument is then not reported as read) must be an inquiry function of Fortran 2008 s13.5.",
  "Assumed: child.reference_accesses(va) is recorded as an event (induction hypothesis over the tree); get_signature_and_indices returns a non-empty list of index lists that is a function of the reference; the hand-transcribed list of Fortran 2008 inquiry functions. NOT under contract: Reference / ArrayMixin / Loop / IfBlock / kernel-call collectors, add_access / merge / SingleVariableAccessInfo internals, which arguments an intrinsic subroutine writes.",
  TECH + "; table obligations evaluated from the real intrinsic table; reachability (cover) checks against vacuity"),
 "C12": ("proof",
  "Deductive, over an abstract access view (per signature an arbitrary sequence of access records with the real access type and two ghost attributes: covers the whole variable / executed unconditionally): CallTreeUtils.get_input_parameters records every variable whose incoming value can be read (a reading access not preceded by an unconditional whole-variable write) outside the recorded known class, and get_output_parameters records every variable with a writing access; neither removes entries nor touches the other list. SingleVariableAccessInfo.is_written_first/is_written and VariablesAccessInfo.is_written are verified inlined. Known finding (open): a first access that is a partial or conditional write hides a later read of the incoming value.",
  "Assumed: the access records are what reference_accesses produces (C11 link, not built); all_signatures/__getitem__/add_read/add_write as engine hooks. NOT under contract: _resolve_calls_and_unknowns / non-local symbol collection and the ExtractNode plumbing (seeded changes C12a/C12b are missed for this reason).",
  TECH + "; loop invariants over an abstract access view with ghost attributes"),
 "C16": ("proof",
  "Deductive, over the view names/tags (dict models): SymbolTable.add, remove, swap, rename_symbol, next_available_name and lookup are verified on their real bodies: the representation invariant 'every key is the lower-cased name of its symbol' (names unique case-insensitively) is preserved; each raises exactly under its conditions ('iff') and then leaves keys, names and tags unchanged; a dry-run rename returns normally exactly when the real rename is accepted; next_available_name's result is, lower-cased, in neither this table, the enclosing scopes (unless shadowing) nor the other table; lookup returns the innermost entry. merge and its helpers are covered only by a bounded run-time contract on the real code (labelled bounded). Known finding (open): a rejected merge has already specialised unresolved symbols.",
  "Assumed: get_symbols()/get_tags() merged scope view (attempted proof withdrawn: two obligations undecided), parent_symbol_table, CodeBlock name lists, Symbol interface predicates as ghost booleans, str.lower uninterpreted. NOT proved: merge / check_for_clashes / _add_symbols_from_table / _handle_symbol_clash / new_symbol / deep_copy; termination of the candidate-name loop.",
  TECH + "; bounded run-time contract as stand-in for merge"),
 "C02": ("proof",
  "Deductive: the real bodies of FortranWriter.binaryoperation_node and unaryoperation_node are symbolically executed for every operator of the node, every parent kind and operator, either child position and every grandparent (all symbolic; == on nodes an uninterpreted reflexive relation); postcondition from the Fortran 2008 expression grammar (R702-R722): the operation is parenthesised whenever the loosest operator it exposes binds less tightly than its position demands. Holds outside five recorded known classes (each its own obligation, each replayed through the real writer and reader); precedence() and the reversed operator map are executed (closed code) and used as tables. A bounded round trip (all trees of depth <= 2, real writer + real reader) stands in for 'reads back structurally equal'.",
  "Trusted: the hand-transcribed grammar levels; fparser2 implements the grammar; tagging assumption on operand texts. NOT under contract: literal_node (signed literals -- recorded finding --, kinds/precision), intrinsic/array/structure writers, the reader's handlers.",
  TECH + "; finite operator domains kept symbolic (enum If-chains), closed tables executed; bounded round trip as stand-in for the reader"),
 "C13": ("proof",
  "Deductive, over the abstract access view (real access types + ghost whole-variable/unconditional attributes): the real body of Directive.create_data_movement_deep_copy_refs is verified (loop invariant over the signatures) to put every non-scalar, non-structure variable in exactly one of copyin/copyout/copy such that: a variable whose incoming value can be read is in copyin or copy (outside the recorded known class), a modified one is in copyout or copy, copyin-only ones are not modified, copyout-only ones are written. Two known findings (open), both replayed through the real ACCDataTrans: partial first write then read => copyout only; partially written array => copyout.",
  "Assumed: the access view is what reference_accesses returns (C11 link), accessors as hooks, every access reads or writes. NOT under contract: the structure (derived-type) deep-copy branch, ACCDataDirective._update_data_movement_clauses and the tree-update signal that refreshes clauses (seeded change C13b is missed for this reason), ACCDataTrans.validate.",
  TECH + "; abstract access view with ghost attributes; run-time contract on the real ACCDataTrans for undecided obligations"),
 "C17": ("proof",
  "Deductive: (a) the real bodies of SymbolicMaths.never_equal and equal are verified against 'never equal only for an exact difference that is one non-zero integer constant' / 'equal only for a zero difference' (sympy class hierarchy declared, _subtract an assumed function); (b) one z3 obligation per operator and intrinsic of the translation tables the real SymPyWriter uses (executed closed code): for all integers the sympy reading of the written text equals the Fortran integer value. +,-,*,unary +/-, MIN, MAX are discharged; '/', negative '**' and MOD fail with counter-models and are recorded known findings, each replayed through the real SymbolicMaths.equal.",
  "Assumed external contracts: sympy parse/simplify semantics; Fortran 2008 integer arithmetic as transcribed. NOT under contract: SymPyWriter name handling and type map (seeded change C17b missed), solve_equal_for, expand, sympy reader.",
  TECH + "; z3 integer/real arithmetic obligations over executed translation tables"),
 "C08": ("proof",
  "Deductive: DependencyTools._is_scalar_parallelisable over the abstract access view (True only for read-only scalars or scalars whose first access is an unconditional write, outside two recorded known classes); _independent_0_var (True exactly on a never_equal answer) together with the VCs of SymbolicMaths.never_equal; _get_dependency_distance: the helper-name loop terminates (variant under a ghost bound on the finite type map), the helper unknown's name is not a key of the type map, only an Integer solution becomes a distance. One defect repaired (fix: 425a843, non-terminating loop), two known findings (conditional first write, call argument first).",
  "Assumed: access view (C11 link), sympy objects and calls as uninterpreted functions. NOT under contract: _partition, _is_loop_carried_dependency, _array_access_parallelisable, can_loop_be_parallelised (the array rule and its quantification over iteration pairs); C17's translation findings ('/', MOD, '**') are inherited.",
  TECH + "; loop variant with a ghost bound; call-site obligation on the helper symbol"),
 "C10": ("proof",
  "Deductive: the real bodies of validate_global_constraints of OMPParallelDirective, OMPDoDirective (+ _validate_single_loop, _validate_collapse_value with a loop invariant over the nest cursor), OMPParallelDoDirective, OMPSerialDirective, OMPTaskloopDirective, OMPLoopDirective and ACCLoopDirective are verified: returning normally implies the structural rule each guards (no nested parallel regions; do/single/master inside a parallel region; taskloop inside a serial region; omp loop inside target/parallel; one loop with collapse(n) over n perfectly nested loops; acc loop inside a compute region of its routine or in an 'acc routine' routine, without PSyData/CodeBlock). Two known findings (open), both replayed: IndexError on an empty collapsed loop body; OMPLoopDirective does not check that the collapsed nest is perfect.",
  "Assumed: tree queries (ancestor with excluding/limit, walk, dir_body, loop_body) as uninterpreted functions; children lists well-formed (C14). NOT under contract: the transformations' validate methods (ParallelRegionTrans, collapse counting in ParallelLoopTrans), nested omp do / nested acc parallel (no validator exists), compiler acceptance.",
  TECH),
 "C28": ("proof",
  "Deductive: PSyDataTrans.get_unique_region_name (generated names end in ':r<n>' with n a per-key counter that is then incremented, other counters untouched: names pairwise distinct; user-supplied names verbatim, counters untouched) and merge_in_default_options (fresh dict, user options win, caller's dict untouched) verified on their real bodies; the effective excluded_node_types of every PSyData-family transformation (class attribute resolved through the MRO of the real class ASTs on every run) contains Return. The region walk of RegionTrans.validate is covered only by a bounded run-time contract on the real transformations. Known findings (open): ExtractTrans family does not exclude Return; EXIT/CYCLE in a code block leave a region.",
  "Assumed: options.get / tree and name accessors as hooks. NOT under contract: RegionTrans.validate itself, PSyDataNode.lower_to_language_level (PreStart/PostEnd sequence and nesting).",
  TECH + "; class-attribute resolution over the extracted hierarchy; bounded run-time contract for the region walk"),
 "C29": ("proof",
  "Deductive, rely/guarantee over a ghost file system: the real body of CodedKern.rename_and_write is verified for ANY interference at its file-system calls (other runs may create files and write the files they created; os.open(O_CREAT|O_EXCL) atomic): with 'multiple' the kernel is written to a file that did not exist at entry and that this call created, no other file is created, none removed; with 'single' the call returns normally only if the file it created or read back holds exactly its own code, else GenerationError; an unmodified/inlined kernel touches nothing. CodedKern._new_name inserts the tag before the suffix (string VCs). This replaces interleaving enumeration: the rely quantifies over all interleavings of any number of runs. Known finding (open, replayed by monkey-patching os.write): a 'single' run reading a file another run has created but not yet written fails although the kernels are identical.",
  "Assumed: POSIX atomicity of O_EXCL; _rename_psyir sets the module name via _new_name; writer/limiter are functions of the tree. NOT proved: termination of the retry loop under continual interference; file-name/module-name agreement is only checked by a bounded run-time contract on real runs (labelled bounded). No pause-point hook in /repo was needed.",
  TECH + "; rely/guarantee with a ghost file system havocked (monotonically) at each file-system call"),
 "C15": ("proof",
  "Deductive: Node._refine_copy and Node.copy (the copy is fresh and detached, owns a new children list whose items are the copies of the original's children attached to it, the original, its child list and its children's parent links are untouched, tree updates are re-enabled) and ScopingNode._refine_copy (the copy owns the deep-copied table; loop invariant over the walk: every Reference / Loop variable that pointed at a symbol of the original's table points at the copy's symbol of the same lower-cased name, all others unchanged; the original's table untouched) verified on their real bodies. A bounded run-time contract on real copies (shared nodes, equality, symbol ownership, cross-tree renames) stands in for the unverified parts. Known finding (open): symbols reachable from datatypes/shapes/initial values are shared with the original.",
  "Assumed: child.copy() (induction hypothesis: fresh, injective), ChildrenList.extend via C14, copy.copy, SymbolTable.deep_copy (fresh symbols under the same keys), walk as a list function. NOT under contract: SymbolTable.deep_copy / Symbol.copy, _refine_copy overrides of other node classes, Node.__eq__.",
  TECH + "; loop invariant over the node walk; bounded run-time contract for the closure clause"),
 "C22": ("proof",
  "Deductive, decision functions only: LFRicHaloExchange.required answers 'no exchange' only if for EVERY run-time halo depth H>=1 and every run-time stencil extent v>=1 the depth the writer left clean (literal depth or the whole halo, minus the outermost level for a continuous writer) covers what each non-annexed reader needs (literal+extent, the whole halo, or all but the outermost level) -- linear integer VCs quantified over H and v, list loop by invariant; 'not known' implies 'required'. PSyLoop.unique_modified_args returns every argument of the requested type whose access modifies it (nested loop invariants). Known finding (open): a single max_depth_m1 reader after a fixed-depth writer. A brute-force evaluation of the same spec on the real required() over 374 record combinations agrees.",
  "ASSUMED, not proved: how the read/write depth records are computed from the schedule, the placement of exchanges over the whole invoke and its preservation by redundant-computation, colouring, asynchronous-exchange and OpenMP transformations (the protocol-level induction), gen_mark_halos_clean_dirty's emitted set_dirty/set_clean calls. The halo conventions in CLEANED/NEEDED are transcribed by hand.",
  TECH + "; integer VCs quantified over run-time depths"),
 "C20": ("proof",
  "For each of the 67 built-ins whose definition line is extracted from doc/user_guide/dynamo0p3.rst on every run: the real front end builds the built-in node, the real lower_to_language_level is executed (a closed function of the node) and the produced assignment is compared with the documented definition by a z3 obligation over ALL real/integer values (SIGN/MAX/MIN/INT/REAL per Fortran 2008; reductions: accumulated summand); the assigned variable is the documented target; the DoF loop bound is checked for every distributed-memory x annexed-DoF setting ('nannexed' iff DM and annexed and no reduction); the formulas are re-checked with scalar arguments named like the PSy layer's own symbols (df, ...). 447 obligations discharged, setval_random unspecified.",
  "Trusted: the user-guide parser, the intrinsic semantics, z3; '**' is uninterpreted. The lowering code is executed, not symbolically run: the domain of nodes is finite (one per documented built-in x settings), the values are symbolic. NOT covered: OpenMP reduction code and clauses of parallelised built-in loops (seeded change C20b missed), halo state (C22).",
  "contract-based verification of executed closed lowering code against the documented definitions: z3 obligations over all argument values (finite class domain, symbolic values), doc-extracted oracle"),
}

NA = {
 "C01": "end-to-end behavioural equality of two Fortran texts through an external parser and a compiler: no per-function contract within reach states it (DESIGN.md §5)",
 "C03": "fixed point of write∘read∘write through the external parser; a contract can state it but nothing here discharges it (DESIGN.md §5)",
}
DEFAULT_NA = ("not yet built: contracts planned in DESIGN.md §4, no check "
              "registered yet")


def main():
    checks = []
    for pid, (cat, text, note, tech) in sorted(CLAIMS.items()):
        checks.append({
            "property_id": pid,
            "quick_cmd": f"./check {pid} --tier quick",
            "thorough_cmd": f"./check {pid} --tier thorough",
            "evidence_file": f"/verif/evidence/{pid}.json",
            "replay_cmd_template": f"./check {pid} --replay {{path}}",
            "engine": "pyvc",
            "level_claimed": {"category": cat, "text": text,
                              "design_ref": f"DESIGN.md §4 {pid}"},
            "level_note": note, "technique": tech})
    props = [json.loads(l)["id"] for l in open("/verif/properties.jsonl")]
    na = [{"property_id": p, "reason": NA.get(p, DEFAULT_NA)}
          for p in props if p not in CLAIMS]
    m = {"version": 1, "setup_cmd": "./setup.sh",
         "hooks": {"guard": "SVALAT_PSYCLONE_VERIF",
                   "enable": "no hook commits: contracts are sidecar files "
                             "under /verif/contracts; checks export "
                             "SVALAT_PSYCLONE_VERIF=1 for uniformity",
                   "baseline_off_cmd": "cd /repo && /venv/bin/python -m pytest -q -p no:cacheprovider --timeout=900 --continue-on-collection-errors",
                   "source_commits": [], "add_only": True},
         "engines": [{"name": "pyvc", "path": "/verif/pyvc",
                      "serves_properties": sorted(CLAIMS),
                      "kind_free_text": "self-built contract-based deductive verifier for a Python subset: symbolic execution of the real function ASTs read from /repo at check time, sidecar contracts (requires/ensures/raises/on_raise/modifies/loop invariants/ghost parameters/lemmas), VCs discharged by z3 5.1 (cvc5 for z3 unknowns), bounded-instantiation counter-model search + replay on the real code"}],
         "checks": checks, "not_applicable": na,
         "notes": "See DESIGN.md. fix: commits in /repo and open findings are listed in known_findings.json."}
    json.dump(m, open("/verif/MANIFEST.json", "w"), indent=1)
    print("claimed:", sorted(CLAIMS), "NA:", len(na))


if __name__ == "__main__":
    main()
