"""Realiser for C23: real LFRic invokes with GH_INC / GH_READINC kernels on
continuous spaces; the real has_inc_arg and the real LFRic OpenMP validators
are run under the run-time version of the contract."""
import os


def _invoke(fname, idx=0, dm=False):
    from psyclone.parse.algorithm import parse
    from psyclone.psyGen import PSyFactory
    from psyclone.configuration import Config
    import psyclone
    base = os.path.join(os.path.dirname(psyclone.__file__), "tests",
                        "test_files", "dynamo0p3")
    Config.get().api = "lfric"
    _, info = parse(os.path.join(base, fname), api="lfric")
    psy = PSyFactory("lfric", distributed_memory=dm).create(info)
    return psy.invokes.invoke_list[idx].schedule


def run():
    from psyclone.core import AccessType
    from psyclone.domain.lfric import LFRicLoop, LFRicConstants
    from psyclone.transformations import (DynamoOMPParallelLoopTrans,
                                          Dynamo0p3OMPLoopTrans,
                                          TransformationError)
    from psyclone.configuration import Config
    Config.get()
    const = LFRicConstants()
    for fname in ("14.15_halo_readinc.f90", "1_single_invoke.f90",
                  "1.13_single_invoke_any_space.f90"):
        for dm in (False, True):
            try:
                sched = _invoke(fname, 0, dm)
            except Exception:      # noqa
                continue
            for loop in sched.walk(LFRicLoop):
                spec = any(arg.access in (AccessType.INC, AccessType.READINC)
                           for k in loop.coded_kernels()
                           for arg in k.arguments.args)
                got = loop.has_inc_arg()
                if got != spec:
                    return {"confirmed": True,
                            "input": {"algorithm": fname, "dm": dm,
                                      "loop": str(loop).split("\n")[0]},
                            "observed": f"has_inc_arg() = {got}, the loop's "
                            f"kernels have an increment/read-then-increment "
                            f"argument: {spec}"}
                cont = loop.field_space.orig_name not in \
                    const.VALID_DISCONTINUOUS_NAMES
                for trans in (DynamoOMPParallelLoopTrans(),
                              Dynamo0p3OMPLoopTrans()):
                    try:
                        trans.validate(loop)
                        ok = True
                    except TransformationError:
                        ok = False
                    if ok and spec and cont and loop.loop_type != "colour":
                        return {"confirmed": True,
                                "input": {"algorithm": fname, "dm": dm},
                                "observed": f"{trans.name} accepts an "
                                "uncoloured loop that increments a field on "
                                "a continuous space"}
    return {"confirmed": False}


FUSED_ALG = '''\
program fuse_write_then_inc
  use constants_mod,          only: r_def
  use field_mod,              only: field_type
  use testkern_write_any_mod, only: testkern_write_any_type
  use testkern_mod,           only: testkern_type
  implicit none
  type(field_type) :: f1, f2, m1, m2, g1
  real(r_def)      :: a
  call invoke( testkern_write_any_type(g1, f2),     &
               testkern_type(a, f1, f2, m1, m2) )
end program fuse_write_then_inc
'''


def fused_loop():
    """two kernels fused into one loop, the incrementing kernel second:
    has_inc_arg must see it and the OpenMP validators must refuse the
    uncoloured loop"""
    import tempfile
    import psyclone
    from psyclone.configuration import Config
    from psyclone.core import AccessType
    from psyclone.domain.lfric import LFRicLoop
    from psyclone.domain.lfric.transformations import LFRicLoopFuseTrans
    from psyclone.parse.algorithm import parse
    from psyclone.psyGen import PSyFactory
    from psyclone.transformations import (DynamoOMPParallelLoopTrans,
                                          Dynamo0p3OMPLoopTrans,
                                          TransformationError)
    kdir = os.path.join(os.path.dirname(psyclone.__file__), "tests",
                        "test_files", "dynamo0p3")
    Config.get().api = "lfric"
    with tempfile.TemporaryDirectory() as tmp:
        path = os.path.join(tmp, "fuse_write_then_inc.f90")
        with open(path, "w", encoding="utf-8") as fout:
            fout.write(FUSED_ALG)
        _, info = parse(path, api="lfric", kernel_paths=[kdir])
    psy = PSyFactory("lfric", distributed_memory=False).create(info)
    sched = psy.invokes.invoke_list[0].schedule
    loops = sched.walk(LFRicLoop)
    LFRicLoopFuseTrans().apply(loops[0], loops[1], {"same_space": True})
    loop = sched.walk(LFRicLoop)[0]
    spec = any(arg.access in (AccessType.INC, AccessType.READINC)
               for k in loop.coded_kernels() for arg in k.arguments.args)
    got = loop.has_inc_arg()
    if got != spec:
        return {"confirmed": True,
                "input": {"algorithm": FUSED_ALG,
                          "transformation": "LFRicLoopFuseTrans(same_space)"},
                "observed": f"has_inc_arg() = {got} on the fused loop whose "
                f"second kernel increments a field (expected {spec})"}
    for trans in (DynamoOMPParallelLoopTrans(), Dynamo0p3OMPLoopTrans()):
        try:
            trans.validate(loop)
        except TransformationError:
            continue
        return {"confirmed": True, "input": {"algorithm": FUSED_ALG},
                "observed": f"{trans.name} accepts the uncoloured fused "
                "loop although one of its kernels increments a field on a "
                "continuous space"}
    return {"confirmed": False}


def colour_inside_acc():
    """Dynamo0p3ColourTrans accepts a loop that already sits inside an
    OpenACC parallel region: the loop over colours ends up inside it."""
    from psyclone.configuration import Config
    Config.get()
    from psyclone.transformations import (ACCParallelTrans,
                                          Dynamo0p3ColourTrans,
                                          TransformationError)
    from psyclone.domain.lfric import LFRicLoop
    from psyclone.psyir.nodes import ACCParallelDirective
    sched = _invoke("1_single_invoke.f90", 0, False)
    loop = sched.walk(LFRicLoop)[0]
    ACCParallelTrans().apply(loop)
    try:
        Dynamo0p3ColourTrans().apply(loop)
    except TransformationError:
        return False
    return any(lp.loop_type == "colours" and
               lp.ancestor(ACCParallelDirective) is not None
               for lp in sched.walk(LFRicLoop))


# kernels whose iteration-space argument lives on a discontinuous space while
# another argument is incremented on a continuous one (text taken from the
# demonstration of seeded change C23b)
PROLONG_KERNEL = '''\
module prolong_w3_kernel_mod
  use argument_mod
  use fs_continuity_mod
  use kernel_mod
  use constants_mod
  implicit none
  type, public, extends(kernel_type) :: prolong_w3_kernel_type
     private
     type(arg_type) :: meta_args(2) = (/                               &
          arg_type(GH_FIELD, GH_REAL, GH_INC,  W1, mesh_arg=GH_FINE),  &
          arg_type(GH_FIELD, GH_REAL, GH_READ, W3, mesh_arg=GH_COARSE) &
          /)
     integer :: operates_on = CELL_COLUMN
   contains
     procedure, nopass :: code => prolong_w3_kernel_code
  end type prolong_w3_kernel_type
contains
  subroutine prolong_w3_kernel_code()
  end subroutine prolong_w3_kernel_code
end module prolong_w3_kernel_mod
'''

OP_INC_KERNEL = '''\
module op_inc_kernel_mod
  use argument_mod
  use fs_continuity_mod
  use kernel_mod
  use constants_mod
  implicit none
  type, public, extends(kernel_type) :: op_inc_kernel_type
     private
     type(arg_type) :: meta_args(3) = (/                     &
          arg_type(GH_OPERATOR, GH_REAL, GH_WRITE, W3, W3),  &
          arg_type(GH_FIELD,    GH_REAL, GH_INC,   W1),      &
          arg_type(GH_FIELD,    GH_REAL, GH_READ,  W2)       &
          /)
     integer :: operates_on = CELL_COLUMN
   contains
     procedure, nopass :: code => op_inc_kernel_code
  end type op_inc_kernel_type
contains
  subroutine op_inc_kernel_code()
  end subroutine op_inc_kernel_code
end module op_inc_kernel_mod
'''

ALG = '''\
program c23_demo
  use field_mod,             only: field_type
  use operator_mod,          only: operator_type
  use prolong_w3_kernel_mod, only: prolong_w3_kernel_type
  use op_inc_kernel_mod,     only: op_inc_kernel_type
  implicit none
  type(field_type)    :: fine, coarse, f1, f2
  type(operator_type) :: mm
  call invoke( name="prolong", prolong_w3_kernel_type(fine, coarse) )
  call invoke( name="op_inc",  op_inc_kernel_type(mm, f1, f2) )
end program c23_demo
'''




def _special(invoke_name, dm):
    import tempfile
    from psyclone.configuration import Config
    from psyclone.parse.algorithm import parse
    from psyclone.psyGen import PSyFactory, CodedKern
    from psyclone.domain.lfric import LFRicLoop
    Config.get().api = "lfric"
    with tempfile.TemporaryDirectory() as tmp:
        for name, text in [("prolong_w3_kernel_mod.f90", PROLONG_KERNEL),
                           ("op_inc_kernel_mod.f90", OP_INC_KERNEL),
                           ("c23_demo.f90", ALG)]:
            with open(os.path.join(tmp, name), "w") as fout:
                fout.write(text)
        _, info = parse(os.path.join(tmp, "c23_demo.f90"), api="lfric",
                        kernel_paths=[tmp])
    psy = PSyFactory("lfric", distributed_memory=dm).create(info)
    sched = psy.invokes.get(invoke_name).schedule
    loops = [lp for lp in sched.walk(LFRicLoop) if lp.walk(CodedKern)]
    return psy, sched, loops[0]


def special_kernels():
    """run-time contract of the validators / independent_iterations on the
    two special kernels; returns a replay dict"""
    from psyclone.transformations import (DynamoOMPParallelLoopTrans,
                                          Dynamo0p3OMPLoopTrans,
                                          TransformationError)
    for inv in ("prolong", "op_inc"):
        for dm in (False, True):
            psy, sched, loop = _special(inv, dm)
            if not loop.has_inc_arg() or loop.loop_type == "colour":
                continue
            if loop.independent_iterations():
                return {"confirmed": True, "input_class": "independent",
                        "input": {"invoke": inv, "dm": dm},
                        "observed": "independent_iterations() is True for "
                        "an uncoloured loop with an incremented continuous "
                        "field"}
            for trans in (Dynamo0p3OMPLoopTrans(),
                          DynamoOMPParallelLoopTrans()):
                try:
                    trans.validate(loop)
                except TransformationError:
                    continue
                return {"confirmed": True,
                        "input_class": "disc-iteration-space:" + trans.name,
                        "input": {"invoke": inv, "dm": dm,
                                  "loop.field_space":
                                  loop.field_space.orig_name},
                        "observed": f"{trans.name}.validate accepts the "
                        "uncoloured loop although a kernel argument is "
                        "incremented (GH_INC on W1)"}
    return {"confirmed": False}
