"""Realiser for C04: the real FortranWriter._gen_parameter_decls on symbol
tables whose constants depend on each other against the table order."""
import itertools


def order_cases():
    from psyclone.psyir.backend.fortran import FortranWriter
    from psyclone.psyir.frontend.fortran import FortranReader
    from psyclone.psyir.nodes import Routine
    chains = [
        ["a = b + 1", "b = c * 2", "c = 3"],
        ["a = 2 * c", "b = a + c", "c = 4"],
        ["n = m - 1", "m = 8"],
    ]
    for chain in chains:
        for perm in itertools.permutations(chain):
            names = [e.split("=")[0].strip() for e in perm]
            decls = "\n".join(f"  integer, parameter :: {e}" for e in perm)
            src = f"subroutine s()\n{decls}\nend subroutine s\n"
            try:
                rt = FortranReader().psyir_from_source(src).walk(Routine)[0]
            except Exception:      # noqa: the reader needs declared order
                continue
            text = FortranWriter()._gen_parameter_decls(rt.symbol_table)
            lines = [ln for ln in text.splitlines() if "parameter" in ln]
            pos = {}
            for k, ln in enumerate(lines):
                nm = ln.split("::")[1].split("=")[0].strip()
                pos.setdefault(nm, []).append(k)
            for e in chain:
                lhs, rhs = [x.strip() for x in e.split("=")]
                if len(pos.get(lhs, [])) != 1:
                    return {"confirmed": True, "input": {"source": src},
                            "observed": f"'{lhs}' is declared "
                            f"{len(pos.get(lhs, []))} times:\n{text}"}
                for dep in names:
                    if dep != lhs and dep in rhs.replace("*", " ").replace(
                            "+", " ").replace("-", " ").split():
                        if pos[dep][0] > pos[lhs][0]:
                            return {"confirmed": True,
                                    "input": {"source": src},
                                    "observed": f"'{lhs}' is declared "
                                    f"before '{dep}' which its initial "
                                    f"value uses:\n{text}"}
    return {"confirmed": False}


def run(name=""):
    return order_cases()


def kind_and_bound_cases():
    """constants whose TYPE depends on another constant (kind parameter,
    array bound), with the table holding them in the opposite order.
    [(case id, ok, detail, source)]"""
    from psyclone.psyir.backend.fortran import FortranWriter
    from psyclone.psyir.frontend.fortran import FortranReader
    from psyclone.psyir.nodes import Routine
    cases = {
        "scalar-kind": ("  integer, parameter :: wp = 8\n"
                        "  real(kind=wp), parameter :: x = 1.0\n",
                        "x", "wp"),
        "array-kind": ("  integer, parameter :: wp = 8\n"
                       "  real(kind=wp), dimension(2), parameter :: "
                       "arr = (/1.0, 2.0/)\n", "arr", "wp"),
        "literal-kind": ("  integer, parameter :: wp = 8\n"
                         "  real, parameter :: y = 1.0_wp\n", "y", "wp"),
        "array-bound": ("  integer, parameter :: n = 3\n"
                        "  real, dimension(n), parameter :: a = 0.0\n",
                        "a", "n"),
    }
    out = []
    for cid, (decls, user, used) in cases.items():
        src = f"subroutine s()\n{decls}end subroutine s\n"
        rt = FortranReader().psyir_from_source(src).walk(Routine)[0]
        # a table holding the same symbols in the opposite order (public
        # API only: the symbols are added to a new table in reverse)
        from psyclone.psyir.symbols import SymbolTable
        table = SymbolTable()
        for sym in reversed(rt.symbol_table.symbols):
            table.add(sym)
        try:
            text = FortranWriter()._gen_parameter_decls(table)
        except Exception as err:       # noqa
            out.append((cid, True, f"refused: {err!r}"[:150], src))
            continue
        lines = [ln for ln in text.splitlines() if "parameter" in ln]

        def where(name):
            return [k for k, ln in enumerate(lines)
                    if ln.split("::")[1].split("=")[0].strip().split("(")[0]
                    == name]
        pu, pd = where(user), where(used)
        ok = len(pu) == 1 and len(pd) == 1 and pd[0] < pu[0]
        out.append((cid, ok, "" if ok else
                    f"'{user}' (whose type uses '{used}') is declared "
                    f"before '{used}':\n{text}", src))
    return out


def rename_cases():
    """BOUNDED: a symbol that a code block (a statement PSyclone keeps as
    text) refers to is renamed through the real SymbolTable.rename_symbol -
    declared and used with every combination of capitalisation.  Either the
    renaming is refused, or the written routine still compiles under
    IMPLICIT NONE (gfortran -fsyntax-only): every entity the generated code
    uses is declared.  Yields (case id, ok, detail, source)."""
    import os
    import shutil
    import subprocess
    import tempfile
    from psyclone.psyir.frontend.fortran import FortranReader
    from psyclone.psyir.backend.fortran import FortranWriter
    from psyclone.psyir.nodes import Routine
    from psyclone.psyir.symbols import SymbolError
    have = shutil.which("gfortran")
    for decl in ("total", "Total", "TOTAL"):
        for used in ("total", "Total", "TOTAL"):
            src = (f"subroutine s()\n  implicit none\n  real :: {decl}\n"
                   f"  {decl} = 1.0\n  write(*,*) {used}\n"
                   f"end subroutine s\n")
            cid = f"declared-{decl}-used-{used}"
            rt = FortranReader().psyir_from_source(src).walk(Routine)[0]
            table = rt.symbol_table
            try:
                table.rename_symbol(table.lookup(decl), "renamed_total")
            except SymbolError as err:
                yield (cid, True, "refused: " + str(err.value)[:80], src)
                continue
            out = FortranWriter()(rt)
            if not have:
                yield (cid, True, "accepted; gfortran not found, not "
                       "compiled", src)
                continue
            work = tempfile.mkdtemp(prefix="c04_")
            try:
                f90 = os.path.join(work, "s.f90")
                with open(f90, "w", encoding="utf-8") as fout:
                    fout.write(out)
                r = subprocess.run(
                    ["gfortran", "-fsyntax-only", "-fimplicit-none", f90],
                    cwd=work, capture_output=True, text=True)
            finally:
                shutil.rmtree(work, ignore_errors=True)
            ok = r.returncode == 0
            yield (cid, ok, "renaming accepted; the written routine " + (
                "compiles" if ok else "does not compile under implicit "
                "none: " + " ".join(r.stderr.split())[-160:]) +
                " | " + " ; ".join(out.strip().split("\n")), src)
