"""Bounded run-time contract for C28 on the real PSyData transformations."""


def _routine(body):
    from psyclone.psyir.frontend.fortran import FortranReader
    from psyclone.psyir.nodes import Routine
    code = (f"subroutine s(a, n, flag)\n integer :: n, i\n logical :: flag\n"
            f" real :: a(n)\n{body}\nend subroutine s\n")
    return FortranReader().psyir_from_source(code).walk(Routine)[0]


def _transes():
    from psyclone.psyir.transformations import (ProfileTrans, ExtractTrans,
                                                ReadOnlyVerifyTrans,
                                                NanTestTrans, PSyDataTrans)
    return [PSyDataTrans, ProfileTrans, ExtractTrans, ReadOnlyVerifyTrans,
            NanTestTrans]


BODIES = {
    "return": " a(1) = 0.0\n if (flag) then\n  return\n end if\n a(2) = 1.0",
    "exit": " do i = 1, n\n  a(i) = 0.0\n  if (a(i) > 1.0) exit\n end do",
    "cycle": " do i = 1, n\n  if (a(i) > 1.0) cycle\n  a(i) = 0.0\n end do",
}


def accepts(trans_cls, kind):
    """does the transformation accept a region that a control transfer of
    the given kind can leave?"""
    from psyclone.psyir.nodes import Loop
    from psyclone.psyir.transformations import TransformationError
    rt = _routine(BODIES[kind])
    if kind == "return":
        target = rt.children[:]           # region = whole body: return leaves
    else:
        loop = rt.walk(Loop)[0]
        target = loop.loop_body.children[:]   # region inside the loop body
    try:
        trans_cls().validate(target)
    except TransformationError:
        return False
    except Exception:      # noqa
        return False
    return True


def search(tier="quick"):
    n = 0
    for t in _transes():
        for kind in ("return",):
            n += 1
            if accepts(t, kind) and "Extract" not in t.__name__:
                return {"confirmed": True, "cases": n,
                        "input_class": "return",
                        "input": {"transformation": t.__name__,
                                  "region": BODIES[kind]},
                        "observed": f"{t.__name__} accepts a region that "
                        "contains a RETURN"}
    # options dictionaries passed by the caller are never modified and
    # generated names are distinct
    from psyclone.psyir.transformations import ProfileTrans
    for t in _transes():
        opts = {"my-option": 1}
        before = dict(opts)
        merged = t().merge_in_default_options(opts)
        n += 1
        if merged is opts or opts != before:
            return {"confirmed": True, "cases": n, "input_class": "options",
                    "input": {"transformation": t.__name__},
                    "observed": "merge_in_default_options returned or "
                    "modified the caller's dictionary"}
    return {"confirmed": False, "cases": n}


def known(kid):
    from psyclone.psyir.transformations import ProfileTrans, ExtractTrans
    if kid == "exit-cycle-codeblock":
        return accepts(ProfileTrans, "exit") or accepts(ProfileTrans, "cycle")
    if kid == "extract-return":
        return accepts(ExtractTrans, "return")
    return None
