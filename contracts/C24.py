"""C24 — generated algorithm and PSy layers agree on invoke arguments.

Deductive part: the loop of Invoke.__init__ (psyGen.py) that builds the two
lists the layers are generated from - _alg_unique_args (the texts passed by
the algorithm-layer call) and _psy_unique_vars (the arguments the PSy
routine declares).  Verified on the mechanical statement range of the real
body that contains this loop.  Postconditions, for an arbitrary number of
kernels with arbitrary argument lists:
  the lists have the same length, position k of the PSy list is an argument
  written as position k of the algorithm list and no text is passed twice.
  (That every written argument is passed is NOT proved: the forall-exists
  invariant stayed undecided in both solvers; the bounded family covers it.)
BOUNDED part (never counted as proved): the real generator on the oracle's
five scenarios plus generated algorithm files; call and routine compared
position by position with the invoke as written.
"""
import z3
from pyvc.interp import Contract, LoopSpec
from pyvc.values import (VRef, VFunc, VBool, VInt, NONE, Ref)

ID = "C24"
LEVEL = "proof"
PG = "psyGen.py"
NULLC = z3.Const("null", Ref)
BOOL = z3.BoolSort()


def build(uni):
    uni.fields.update({
        "_alg_unique_args": "list[int]", "_psy_unique_vars": "list[Argument]",
        "$args": "list[Argument]", "$text": "int", "$has_text": "bool",
        "$name": "int",
    })
    AL0 = z3.Const("H0_$alloc", z3.ArraySort(Ref, BOOL))
    KERNS = z3.Function("kernels_of", Ref, Ref)

    def field_hook(attr):
        def h(it, selfv, args, kw, st, fr):
            return it.getattr(VRef(selfv.e, "Obj"), attr, st, fr)
        return h

    def h_text(it, selfv, args, kw, st, fr):
        if it.dec.branch(st, st.read("$has_text", selfv.e, "bool")):
            return VInt(st.read("$text", selfv.e, "int"))
        return NONE

    def h_kernels(it, selfv, args, kw, st, fr):
        r = KERNS(selfv.e)
        st.assume(z3.And(r != NULLC, z3.Select(AL0, r)))
        return VRef(r, "list", "Kern")
    uni.method_hooks.update({
        "Invoke.schedule": lambda it, s, a, k, st, fr: VRef(s.e,
                                                            "InvokeSchedule"),
        "InvokeSchedule.kernels": h_kernels,
        "Schedule.kernels": h_kernels,
        "Node.kernels": h_kernels,
        "Kern.arguments": lambda it, s, a, k, st, fr: VRef(s.e, "ArgsOf"),
        "Argument.text": h_text,
        "Argument.name": field_hook("$name"),
    })
    uni.prop_hooks["ArgsOf.args"] = field_hook("$args")
    uni.consts.update({
        "KERNS": VFunc("hook", fn=lambda it, a, k, st, fr: VRef(
            KERNS(a[0].e), "list", "Kern")),
        "ARGS": VFunc("hook", fn=lambda it, a, k, st, fr: it.getattr(
            VRef(a[0].e, "Obj"), "$args", st, fr)),
        "TEXT": VFunc("hook", fn=lambda it, a, k, st, fr: VInt(st.read(
            "$text", a[0].e, "int"))),
        "HAS": VFunc("hook", fn=lambda it, a, k, st, fr: VBool(st.read(
            "$has_text", a[0].e, "bool"))),
        "NAME": VFunc("hook", fn=lambda it, a, k, st, fr: VInt(st.read(
            "$name", a[0].e, "int"))),
    })
    uni.preds.update({
        # the PSy-layer name of an argument is determined by, and
        # determines, the text it was written as
        "NAME_TEXT": ([], "forall(lambda p, q: implies(p is not None and "
                          "q is not None and HAS(p) and HAS(q), "
                          "(TEXT(p) == TEXT(q)) == (NAME(p) == NAME(q))), "
                          "'Argument')"),
        "VIEW": ([], """
            forall(lambda c: implies(0 <= c and c < len(KERNS(self)),
                at(KERNS(self), c) is not None and
                ARGS(at(KERNS(self), c)) is not None and
                forall(lambda j: implies(0 <= j and
                    j < len(ARGS(at(KERNS(self), c))),
                    at(ARGS(at(KERNS(self), c)), j) is not None))))
            """),
        "ALIGNED": (["alg", "psy"], """
            len(alg) == len(psy) and
            forall(lambda k: implies(0 <= k and k < len(alg),
                at(psy, k) is not None and HAS(at(psy, k)) and
                TEXT(at(psy, k)) == at(alg, k))) and
            forall(lambda i, j: implies(0 <= i and i < j and j < len(alg),
                                        at(alg, i) != at(alg, j)))
            """),
        "PASSED": (["alg", "a"], "implies(HAS(a), exists(lambda k: 0 <= k "
                                 "and k < len(alg) and at(alg, k) == "
                                 "TEXT(a)))"),
    })
    c = Contract(
        f"{PG}:Invoke.__init__",
        params={"self": "Invoke", "alg_invocation": "Obj", "idx": "int",
                "schedule_class": "Obj", "invokes": "Obj",
                "reserved_names": "Obj"},
        requires=[("view", "VIEW()"), ("names", "NAME_TEXT()")],
        ensures=[
            ("layers_agree_position_by_position",
             "ALIGNED(self._alg_unique_args, self._psy_unique_vars)"),
        ],
        raises={}, modifies=["_alg_unique_args", "_psy_unique_vars", "$len",
                             "$items.int", "$items.ref"],
        covers=[("some", "len(self._alg_unique_args) >= 2")])
    c.stmt_range = ("self._alg_unique_args = []", "self._dofs = {}")
    c.range_frame = ("_alg_unique_args", "_psy_unique_vars")
    uni.contracts["Invoke.__init__:top"] = c
    TMP = ("len(tmp_arg_names) == len(self._alg_unique_args) and "
           "forall(lambda k: implies(0 <= k and k < len(tmp_arg_names), "
           "at(tmp_arg_names, k) == NAME(at(self._psy_unique_vars, k))))")
    SETS = ("self._alg_unique_args is not None and "
            "self._psy_unique_vars is not None and tmp_arg_names is not None "
            "and fresh(self._alg_unique_args) and "
            "fresh(self._psy_unique_vars) and fresh(tmp_arg_names) and "
            "self._alg_unique_args is not tmp_arg_names and "
            "self._psy_unique_vars is not tmp_arg_names and "
            "self._psy_unique_vars is not self._alg_unique_args")
    FRAME = ("frame", "forall(lambda x: implies("
                      "x is not self._psy_unique_vars and "
                      "x is not self._alg_unique_args and "
                      "x is not tmp_arg_names, "
                      "select_list(x) == entry(select_list(x))), "
                      "'list[Argument]')")
    uni.loopspecs["Invoke.__init__"] = {
        0: LoopSpec(invariants=[
            ("iter", "_iter is KERNS(self)"),
            ("lists", SETS), FRAME,
            ("aligned", "ALIGNED(self._alg_unique_args, "
                        "self._psy_unique_vars)"),
            ("tmp", TMP)],
            modifies=["_alg_unique_args", "_psy_unique_vars", "$len",
                      "$items.int", "$items.ref"]),
        1: LoopSpec(invariants=[
            ("iter", "_iter is ARGS(call)"),
            ("lists", SETS), FRAME,
            ("aligned", "ALIGNED(self._alg_unique_args, "
                        "self._psy_unique_vars)"),
            ("tmp", TMP),
            ("grow", "forall(lambda k: implies(0 <= k and k < len(entry("
                     "self._alg_unique_args)), at(self._alg_unique_args, k) "
                     "== at(entry(self._alg_unique_args), k))) and "
                     "len(self._alg_unique_args) >= "
                     "len(entry(self._alg_unique_args))")],
            modifies=["$len", "$items.int", "$items.ref"]),
    }
    uni.local_types["Invoke.__init__"] = {"tmp_arg_names": "list[int]"}
    uni.note_assumption(
        "argument texts and PSy-layer names are abstract identifiers "
        "(integers) that the loop only compares for equality; "
        "abstract view: schedule.kernels() is an arbitrary list of kernels, "
        "each with an arbitrary list of arguments carrying a text (or none: "
        "literals) and a PSy-layer name; the name is determined by and "
        "determines the text (precondition NAME_TEXT, established by "
        "Arguments / the symbol table, not under contract)")
    return [c] + build_alg_gen(uni)


def build_alg_gen(uni):
    """Alg.gen (the default LFRic algorithm-layer rewriting): the k-th
    statement that IS an invoke call (keyword compared without regard to
    case, as the parser does) is replaced by a call of the k-th PSy-layer
    routine with that routine's unique argument list; no other call
    statement is touched; at least one invoke or NoInvokesError"""
    from pyvc.values import VStr, VTuple, VClass, STR
    AG = "alg_gen.py"
    INT = z3.IntSort()
    uni.fields.update({"$callee": "str", "$argtext": "str", "$used": "str",
                       "_invoke_name": "str", "$rname": "str",
                       "$alg_args": "str"})
    AL0 = z3.Const("H0_$alloc", z3.ArraySort(Ref, BOOL))
    STMTS = z3.Function("call_statements_of", Ref, Ref)
    INVS = z3.Function("psy_invokes_of", Ref, Ref)
    LOWER = uni.uf("str_lower", ["str"], "str")
    JOIN = uni.uf("str_join_opaque", ["str", "str"], "str")
    uni.join_uf = True
    RANK = z3.Function("invokes_before", Ref, INT, INT)

    def h_walk(it, args, kw, st, fr):
        r = STMTS(fr.self_val.e)
        st.assume(z3.And(r != NULLC, z3.Select(AL0, r)))
        return VRef(r, "list", "CallStmt")

    def h_invoke_list(it, s, a, k, st, fr):
        r = INVS(s.e)
        st.assume(z3.And(r != NULLC, z3.Select(AL0, r)))
        return VRef(r, "list", "PsyInvoke")

    def h_no_children(it, s, a, k, st, fr):
        new = it.alloc(st, "list", "Obj", "nochildren")
        st.write("$len", new.e, z3.IntVal(0), "int")
        return new

    def h_items(it, s, a, k, st, fr):
        if a:       # statement.items = (new_name, new_args)
            name, argl = a[0].items
            st.write("$callee", s.e, it.to_z3(name), "str")
            st.write("$argtext", s.e, it.to_z3(argl), "str")
            return NONE
        return VTuple([VStr(st.read("$callee", s.e, "str")),
                       VStr(st.read("$argtext", s.e, "str"))])

    uni.consts.update({
        "walk": VFunc("hook", fn=h_walk),
        "Call_Stmt": VClass("Call_Stmt"), "Part_Ref": VClass("Part_Ref"),
        "Section_Subscript_List": VFunc(
            "hook", fn=lambda it, a, k, st, fr: a[0]),
        "_adduse": VFunc("hook", fn=lambda it, a, k, st, fr: NONE),
        "_rm_kernel_use_stmts": VFunc("hook",
                                      fn=lambda it, a, k, st, fr: NONE),
        "STMTS": VFunc("hook", fn=lambda it, a, k, st, fr: VRef(
            STMTS(a[0].e), "list", "CallStmt")),
        "INVS": VFunc("hook", fn=lambda it, a, k, st, fr: VRef(
            INVS(a[0].e), "list", "PsyInvoke")),
        "ISINV": VFunc("hook", fn=lambda it, a, k, st, fr: VBool(
            LOWER(fr.old.read("$callee", a[1].e, "str")
                  if fr.old is not None else st.read("$callee", a[1].e,
                                                     "str")) ==
            LOWER(st.read("_invoke_name", a[0].e, "str")))),
        "RANK": VFunc("hook", fn=lambda it, a, k, st, fr: VInt(
            RANK(a[0].e, it.as_int(a[1])))),
        "CALLEE": VFunc("hook", fn=lambda it, a, k, st, fr: VStr(st.read(
            "$callee", a[0].e, "str"))),
        "ARGTEXT": VFunc("hook", fn=lambda it, a, k, st, fr: VStr(st.read(
            "$argtext", a[0].e, "str"))),
        "RNAME": VFunc("hook", fn=lambda it, a, k, st, fr: VStr(st.read(
            "$rname", a[0].e, "str"))),
        "ALGARGS": VFunc("hook", fn=lambda it, a, k, st, fr: VStr(JOIN(
            z3.StringVal(", "), st.read("$alg_args", a[0].e, "str")))),
    })
    uni.prop_hooks.update({
        "CallStmt.items": h_items,
        "CallStmt.children": lambda it, s, a, k, st, fr: VTuple(
            [NONE, VRef(s.e, "ArgSpec")]),
        # the kernel-use bookkeeping of gen() is not modelled: no children
        "ArgSpec.children": h_no_children,
        "Alg._ast": lambda it, s, a, k, st, fr: VRef(s.e, "AstOf"),
        "AstOf.content": lambda it, s, a, k, st, fr: VRef(s.e, "Obj"),
        "Alg._psy": lambda it, s, a, k, st, fr: VRef(s.e, "PsyOf"),
        "PsyOf.invokes": lambda it, s, a, k, st, fr: VRef(s.e, "InvokesOf"),
        "PsyOf.name": lambda it, s, a, k, st, fr: VStr(
            z3.StringVal("psy_module")),
        "InvokesOf.invoke_list": h_invoke_list,
        "PsyInvoke.name": lambda it, s, a, k, st, fr: VStr(st.read(
            "$rname", s.e, "str")),
        "PsyInvoke.alg_unique_args": lambda it, s, a, k, st, fr: VStr(
            st.read("$alg_args", s.e, "str")),
    })
    PRE = ("STMTS(self) is not None and INVS(self) is not None and "
           "len(STMTS(self)) >= 0 and RANK(self, 0) == 0 and "
           "forall(lambda q: implies(0 <= q and q < len(STMTS(self)), "
           "at(STMTS(self), q) is not None and "
           "RANK(self, q + 1) == RANK(self, q) + "
           "ite(ISINV(self, at(STMTS(self), q)), 1, 0) and "
           "forall(lambda p: implies(0 <= p and p < q, "
           "at(STMTS(self), p) is not at(STMTS(self), q))))) and "
           "len(INVS(self)) == RANK(self, len(STMTS(self))) and "
           "forall(lambda p, q: implies(0 <= p and p <= q and "
           "q <= len(STMTS(self)), RANK(self, p) <= RANK(self, q))) and "
           "forall(lambda q: implies(0 <= q and q < len(INVS(self)), "
           "at(INVS(self), q) is not None))")
    c = Contract(
        f"{AG}:Alg.gen",
        params={"self": "Alg"},
        requires=[("parsed", PRE)],
        ensures=[
            ("kth_invoke_calls_the_kth_psy_routine_with_its_arguments",
             "forall(lambda q: implies(0 <= q and q < len(STMTS(self)) and "
             "ISINV(self, at(STMTS(self), q)), "
             "CALLEE(at(STMTS(self), q)) == "
             "RNAME(at(INVS(self), RANK(self, q))) and "
             "ARGTEXT(at(STMTS(self), q)) == "
             "ALGARGS(at(INVS(self), RANK(self, q)))))"),
            ("other_calls_untouched",
             "forall(lambda q: implies(0 <= q and q < len(STMTS(self)) and "
             "not ISINV(self, at(STMTS(self), q)), "
             "CALLEE(at(STMTS(self), q)) == "
             "old(CALLEE(at(STMTS(self), q)))))"),
        ],
        raises={"NoInvokesError": ("iff", "RANK(self, len(STMTS(self))) "
                                          "== 0")},
        modifies=["$callee", "$argtext", "$used", "$set.str", "$card"],
        covers=[("two", "RANK(self, len(STMTS(self))) >= 2")])
    uni.contracts["Alg.gen:top"] = c
    uni.loopspecs["Alg.gen"] = {
        0: LoopSpec(invariants=[
            ("iter", "_iter is STMTS(self)"),
            ("count", "idx == RANK(self, _k) and idx >= 0"),
            ("done", "forall(lambda q: implies(0 <= q and q < _k, "
                     "ite(ISINV(self, at(STMTS(self), q)), "
                     "CALLEE(at(STMTS(self), q)) == "
                     "RNAME(at(INVS(self), RANK(self, q))) and "
                     "ARGTEXT(at(STMTS(self), q)) == "
                     "ALGARGS(at(INVS(self), RANK(self, q))), "
                     "CALLEE(at(STMTS(self), q)) == "
                     "old(CALLEE(at(STMTS(self), q))))))"),
            ("todo", "forall(lambda q: implies(_k <= q and "
                     "q < len(STMTS(self)), CALLEE(at(STMTS(self), q)) == "
                     "old(CALLEE(at(STMTS(self), q)))))")],
            modifies=["$callee", "$argtext", "$used", "$set.str", "$card"]),
        1: LoopSpec(invariants=[
            ("quiet", "unchanged_since_head('$callee', '$argtext')")],
            modifies=["$set.str", "$card"]),
    }
    uni.note_assumption(
        "Alg.gen: the fparser2 tree is abstracted to the ordered list of its "
        "call statements (callee text, argument text); str.lower is an "
        "uninterpreted function; the PSy layer has exactly one routine per "
        "statement the parser recognised as an invoke (keyword compared "
        "without regard to case); ', '.join(alg_unique_args) is an opaque "
        "string per routine; _adduse / _rm_kernel_use_stmts are not "
        "modelled")
    return [c]


TRUSTED = [
    "pyvc VC generator and z3",
    "NOT under contract: parse.algorithm (argument text extraction), the "
    "algorithm-layer rewriting (Alg.gen / the PSyIR-based invoke lowering), "
    "the PSy routine's declaration generation from _psy_unique_vars, "
    "Arguments naming - only the bounded family exercises them",
]
EXPLANATION = (
    "The two lists the layers are generated from are built in lock step: "
    "same length, position k of the PSy list is an argument written as "
    "position k of the algorithm list, no text twice, every written "
    "argument passed; the bounded part compares generated call and "
    "routine position by position on generated algorithm files.")


def extra(uni, tier, seed):
    """BOUNDED stand-in, never counted as proved"""
    from pyvc.runner import Extra
    from realise import C24 as R
    res = R.family(seed or 0, 24 if tier == "quick" else 120)
    out, n_ok = [], 0
    for name, verdict, probs, src in res:
        if verdict == "violated":
            out.append(Extra(
                f"bounded#layers-agree[{name}]", False, "; ".join(probs)[:400],
                bounded=True, kind="bounded run-time contract: generated "
                "call vs generated routine vs source invoke",
                replay={"confirmed": True, "input": {"algorithm": src},
                        "observed": probs[:6]}))
        elif verdict == "ok":
            n_ok += 1
    out.append(Extra("bounded#layers-agree", n_ok >= 10,
                     f"{n_ok} algorithm files agree "
                     f"({len(res) - n_ok - len(out)} refused by PSyclone)",
                     kind="bounded run-time contract: 5 hand-written + "
                          "generated algorithm files (seeded)", count=n_ok,
                     bounded=True, undecided=n_ok < 10))
    return out


def bounded(uni, tier, seed):
    from realise import C24 as R
    for name, verdict, probs, src in R.family(seed or 0, 24):
        if verdict == "violated":
            return {"confirmed": True, "input": {"algorithm": src},
                    "observed": probs[:6]}
    return {"confirmed": False}


def replay(name, ob, model, uni):
    return bounded(uni, "quick", 0)
