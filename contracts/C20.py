"""C20 — LFRic built-ins compute their documented operations.

For every built-in documented in doc/user_guide/dynamo0p3.rst (signature and
definition lines extracted on every run) the real lowering code
(LFRic*Kern.lower_to_language_level, a closed function once the built-in
node is fixed) is executed on a node built by the real front end, and the
produced assignment is compared with the documented definition by a z3
obligation over ALL real / integer argument values.  The DoF loop bound is
checked for every distributed-memory x annexed-DoF setting.
"""
import os
import re
import z3

ID = "C20"
LEVEL = "proof"
DOC = "doc/user_guide/dynamo0p3.rst"


def build(uni):
    uni.note_assumption(
        "closed code executed: parse -> PSyFactory -> the built-in node's "
        "lower_to_language_level(); the produced PSyIR assignment is then "
        "interpreted into z3 terms (values symbolic)")
    return []


# ---------------------------------------------------------------------------
# documentation oracle
# ---------------------------------------------------------------------------
def doc_builtins():
    path = os.path.join("/repo", DOC)
    lines = open(path, encoding="utf-8").read().split("\n")
    out = {}
    sig = re.compile(r"^\*\*(\w+)\*\* \((.*)\)\s*$")
    form = re.compile(r"^\s+(\w+)(\(:\))?\s*=\s*(.+?)\s*$")
    for n, line in enumerate(lines):
        m = sig.match(line)
        if not m:
            continue
        name = m.group(1)
        args = [a.strip().strip("*") for a in m.group(2).split(",")]
        formula = None
        for nxt in lines[n + 1:n + 14]:
            if sig.match(nxt):
                break
            f = form.match(nxt)
            if f and f.group(1) in args:
                formula = (f.group(1), bool(f.group(2)), f.group(3))
                break
        out[name] = {"args": args, "formula": formula, "line": n + 1}
    return out


TOK = re.compile(r"\s*(\*\*|[-+*/(),=]|[A-Za-z_][\w<>]*(?:\(:\))?|\d+\.?\d*)")


class Parser:
    """tiny recursive-descent parser of the documented right-hand sides"""

    def __init__(self, text, env):
        self.toks = TOK.findall(text)
        self.i = 0
        self.env = env

    def peek(self):
        return self.toks[self.i] if self.i < len(self.toks) else None

    def eat(self, tok=None):
        t = self.peek()
        if tok is not None and t != tok:
            raise ValueError(f"expected {tok!r}, got {t!r}")
        self.i += 1
        return t

    def expr(self):
        v = self.term()
        while self.peek() in ("+", "-"):
            op = self.eat()
            r = self.term()
            v = v + r if op == "+" else v - r
        return v

    def term(self):
        v = self.factor()
        while self.peek() in ("*", "/"):
            op = self.eat()
            r = self.factor()
            v = v * r if op == "*" else self.env["div"](v, r)
        return v

    def factor(self):
        if self.peek() == "-":
            self.eat()
            return -self.factor()
        v = self.atom()
        if self.peek() == "**":
            self.eat()
            return self.env["pow"](v, self.factor())
        return v

    def atom(self):
        t = self.eat()
        if t == "(":
            v = self.expr()
            self.eat(")")
            return v
        if re.match(r"\d", t):
            return self.env["num"](t)
        name = t[:-3] if t.endswith("(:)") else t
        if self.peek() == "(":
            self.eat("(")
            args = []
            while True:
                if self.peek() == "kind":
                    self.eat()
                    self.eat("=")
                    self.eat()
                else:
                    args.append(self.expr())
                if self.peek() == ",":
                    self.eat()
                    continue
                break
            self.eat(")")
            return self.env["call"](name.upper(), args)
        return self.env["var"](name)


# ---------------------------------------------------------------------------
# z3 semantics shared by the documentation side and the code side
# ---------------------------------------------------------------------------
POW = z3.Function("fortran_pow", z3.RealSort(), z3.RealSort(), z3.RealSort())


def toreal(v):
    return z3.ToReal(v) if z3.is_int(v) else v


def sem_call(name, args, integer):
    a = args
    if name == "SIGN":
        mag = z3.If(a[0] >= 0, a[0], -a[0])
        return z3.If(a[1] >= 0, mag, -mag)
    if name == "MAX":
        return z3.If(a[0] >= a[1], a[0], a[1])
    if name == "MIN":
        return z3.If(a[0] <= a[1], a[0], a[1])
    if name == "INT":
        x = toreal(a[0])
        return z3.If(x >= 0, z3.ToInt(x), -z3.ToInt(-x))
    if name == "REAL":
        return toreal(a[0])
    if name == "ABS":
        return z3.If(a[0] >= 0, a[0], -a[0])
    raise ValueError(f"no semantics for {name}")


def sem_env(vars_, integer):
    def div(x, y):
        if z3.is_int(x) and z3.is_int(y):
            return x / y
        return toreal(x) / toreal(y)

    def power(x, y):
        return POW(toreal(x), toreal(y))
    return {"div": div, "pow": power,
            "num": lambda t: z3.RealVal(t) if ("." in t or not integer)
            else z3.IntVal(int(t)),
            "call": lambda n, a: sem_call(n, a, integer),
            "var": lambda n: vars_[n]}


# ---------------------------------------------------------------------------
# the real code side
# ---------------------------------------------------------------------------
def arg_decl(name, builtin):
    integer = builtin.startswith("int_")
    if name.startswith("ifield"):
        return f"type(integer_field_type) :: {name}", "ifield"
    if "field" in name or name in ("sumfld",) and False:
        return f"type(field_type) :: {name}", "field"
    if name.startswith("iscalar") or (integer and name == "constant"):
        return f"integer(i_def) :: {name}", "iscalar"
    return f"real(r_def) :: {name}", "rscalar"


_SCHED = {}


def schedule_for(docs, dist_mem, annexed):
    """one invoke holding every documented built-in once (argument names
    made unique per built-in: <docname>_<index>)"""
    key = (dist_mem, annexed)
    if key in _SCHED:
        return _SCHED[key]
    import tempfile
    from psyclone.configuration import Config
    from psyclone.parse.algorithm import parse
    from psyclone.psyGen import PSyFactory
    Config._instance = None
    config = Config.get()
    config.api = "lfric"
    config.api_conf("lfric")._compute_annexed_dofs = annexed
    decls, calls = [], []
    for idx, (name, spec) in enumerate(sorted(docs.items())):
        if spec["formula"] is None:
            continue
        uniq = [f"{a}_{idx}" for a in spec["args"]]
        for a, u in dict(zip(spec["args"], uniq)).items():
            decls.append(arg_decl(a, name)[0].replace(f":: {a}", f":: {u}"))
        calls.append(f"{name}({', '.join(uniq)})")
    source = ("program demo_alg\n"
              "  use constants_mod, only: r_def, i_def\n"
              "  use field_mod, only: field_type\n"
              "  use integer_field_mod, only: integer_field_type\n"
              "  implicit none\n" + "".join(f"  {d}\n" for d in decls) +
              "  call invoke( &\n    " + ", &\n    ".join(calls) + " )\n"
              "end program demo_alg\n")
    with tempfile.TemporaryDirectory() as tmp:
        path = os.path.join(tmp, "demo_alg.f90")
        with open(path, "w", encoding="utf-8") as fout:
            fout.write(source)
        _, info = parse(path, api="lfric")
    psy = PSyFactory("lfric", distributed_memory=dist_mem).create(info)
    _SCHED[key] = psy.invokes.invoke_list[0].schedule
    return _SCHED[key]


ADV_NAMES = ["df", "undf_aspc1", "loop0_stop"]


def adversarial(docs):
    """{builtin: (kernel node, {unique name: doc name})}: one invoke per
    built-in that takes scalars, the scalars named like symbols the PSy
    layer itself declares (DoF loop index, array sizes, loop bounds)"""
    import tempfile
    from psyclone.configuration import Config
    from psyclone.parse.algorithm import parse
    from psyclone.psyGen import PSyFactory
    from psyclone.domain.lfric.lfric_builtins import LFRicBuiltIn
    Config._instance = None
    config = Config.get()
    config.api = "lfric"
    decls, calls, maps = {}, [], {}
    for idx, (name, spec) in enumerate(sorted(docs.items())):
        if spec["formula"] is None:
            continue
        kinds = [arg_decl(a, name)[1] for a in spec["args"]]
        if not any(k in ("rscalar", "iscalar") for k in kinds) or \
                spec["formula"][2].strip().upper().startswith("SUM("):
            continue
        uniq, adv = [], iter(ADV_NAMES)
        for a, k in zip(spec["args"], kinds):
            u = f"{a}_{idx}" if k in ("field", "ifield") else \
                next(adv) + ("_i" if k == "iscalar" else "")
            uniq.append(u)
            decls[u] = arg_decl(a, name)[0].replace(f":: {a}", f":: {u}")
        maps[name] = dict(zip(uniq, spec["args"]))
        calls.append(f"  call invoke( {name}({', '.join(uniq)}) )\n")
    source = ("program demo_alg\n"
              "  use constants_mod, only: r_def, i_def\n"
              "  use field_mod, only: field_type\n"
              "  use integer_field_mod, only: integer_field_type\n"
              "  implicit none\n" +
              "".join(f"  {d}\n" for d in decls.values()) +
              "".join(calls) + "end program demo_alg\n")
    with tempfile.TemporaryDirectory() as tmp:
        path = os.path.join(tmp, "demo_alg.f90")
        with open(path, "w", encoding="utf-8") as fout:
            fout.write(source)
        _, info = parse(path, api="lfric")
    psy = PSyFactory("lfric", distributed_memory=False).create(info)
    out = {}
    for inv in psy.invokes.invoke_list:
        kern = inv.schedule.walk(LFRicBuiltIn)[0]
        out[kern.name.lower()] = kern
    return {n: (out[n.lower()], maps[n]) for n in maps if n.lower() in out}


def lowered(docs, builtin, dist_mem, annexed, lower=True):
    """(assignment node or None, loop upper bound name, is_reduction)"""
    from psyclone.domain.lfric.lfric_builtins import LFRicBuiltIn
    from psyclone.domain.lfric import LFRicLoop
    sched = schedule_for(docs, dist_mem, annexed)
    names = [n for n, sp in sorted(docs.items()) if sp["formula"]]
    kerns = sched.walk(LFRicBuiltIn)
    kern = [k for k in kerns if k.name.lower() == builtin.lower()]
    if len(kern) != 1:
        raise ValueError(f"built-in {builtin} not found exactly once in the "
                         f"generated invoke ({len(kerns)} nodes)")
    kern = kern[0]
    loop = kern.ancestor(LFRicLoop)
    bound = loop.upper_bound_name
    red = kern.is_reduction
    assign = kern.lower_to_language_level() if lower else None
    return assign, bound, red


LOOPVAR = []


def psyir_to_z3(node, vars_, integer):
    from psyclone.psyir.nodes import (Reference, Literal, BinaryOperation,
                                      UnaryOperation, IntrinsicCall,
                                      ArrayReference)
    env = sem_env(vars_, integer)
    if isinstance(node, Literal):
        txt = node.value.lower().replace("d", "e")
        if node.datatype.intrinsic.name == "INTEGER":
            return z3.IntVal(int(txt))
        return z3.RealVal(str(float(txt)) if "e" in txt else txt)
    if isinstance(node, Reference):      # ArrayReference too
        if not isinstance(node, ArrayReference) and LOOPVAR and \
                node.symbol is LOOPVAR[0]:
            # the DoF loop index used as an operand
            return z3.Int("the_dof_loop_index") if integer else \
                z3.Real("the_dof_loop_index")
        name = node.symbol.name.lower()
        for suffix in ("_data", "_proxy"):
            if name.endswith(suffix):
                name = name[:-len(suffix)]
        if not isinstance(vars_, _Lookup):
            name = re.sub(r"_\d+$", "", name)
        if name not in vars_:
            raise ValueError(f"unexpected variable {node.symbol.name}")
        return vars_[name]
    if isinstance(node, UnaryOperation):
        v = psyir_to_z3(node.children[0], vars_, integer)
        return -v if node.operator.name == "MINUS" else v
    if isinstance(node, BinaryOperation):
        a = psyir_to_z3(node.children[0], vars_, integer)
        b = psyir_to_z3(node.children[1], vars_, integer)
        op = node.operator.name
        if z3.is_int(a) != z3.is_int(b):
            a, b = toreal(a), toreal(b)
        if op == "ADD":
            return a + b
        if op == "SUB":
            return a - b
        if op == "MUL":
            return a * b
        if op == "DIV":
            return env["div"](a, b)
        if op == "POW":
            return env["pow"](a, b)
        raise ValueError(f"operator {op}")
    if isinstance(node, IntrinsicCall):
        args = [psyir_to_z3(c, vars_, integer) for c in node.arguments
                if not (isinstance(c, Reference) and
                        c.symbol.name.lower() in ("r_def", "i_def"))]
        names = node.argument_names
        args = [a for a, n in zip(args, names) if n is None] \
            if len(names) == len(args) else args
        return sem_call(node.intrinsic.name, args, integer)
    raise ValueError(f"node {type(node).__name__}")


def check_adversarial(docs):
    """the formulas again, with scalar arguments named like the PSy layer's
    own symbols (the generated names must not capture them)"""
    from psyclone.domain.lfric import LFRicLoop
    out = []
    try:
        kerns = adversarial(docs)
    except Exception as err:      # noqa
        return [("builtins#adversarial-names", False,
                 f"generation failed: {type(err).__name__}: {err}")]
    for name, (kern, amap) in sorted(kerns.items()):
        spec = docs[name]
        integer = name.startswith("int_")
        vars_ = {}
        for a in spec["args"]:
            kind = arg_decl(a, name)[1]
            vars_[a] = z3.Int(a) if kind in ("ifield", "iscalar") \
                else z3.Real(a)
        target, _, rhs_text = spec["formula"]
        loop = kern.ancestor(LFRicLoop)
        del LOOPVAR[:]
        LOOPVAR.append(loop.variable)
        try:
            assign = kern.lower_to_language_level()
            psy_names = {}
            for sym in assign.scope.symbol_table.symbols:
                pass
            # PSy-layer names -> documented names: the call's actual
            # arguments, in order
            byname = {}
            for arg, docname in zip(kern.arguments.args, spec["args"]):
                byname[arg.name.lower()] = vars_[docname]
            doc_rhs = Parser(rhs_text.strip(),
                             sem_env(vars_, integer)).expr()
            rhs = psyir_to_z3(assign.rhs, _Lookup(byname), integer)
        except Exception as err:      # noqa
            out.append((f"builtin[{name}]#formula[adversarial-names]",
                        False, f"{type(err).__name__}: {err}"))
            continue
        finally:
            del LOOPVAR[:]
        if z3.is_int(rhs) != z3.is_int(doc_rhs):
            rhs, doc_rhs = toreal(rhs), toreal(doc_rhs)
        s = z3.Solver()
        s.set("timeout", 20000)
        s.add(rhs != doc_rhs)
        r = s.check()
        out.append((f"builtin[{name}]#formula[adversarial-names]",
                    (r == z3.unsat) if r != z3.unknown else None,
                    f"scalars named {sorted(amap)}: code "
                    f"{assign.debug_string().strip()} ; doc {target} = "
                    f"{rhs_text}"))
    return out


class _Lookup(dict):
    """variables by PSy-layer name (data pointers '<field>_data')"""

    def __contains__(self, key):
        return True

    def __getitem__(self, key):
        for k, v in self.items():
            if key == k or key == k + "_data":
                return v
        raise ValueError(f"unexpected variable {key}")


def check_setting(setting):
    """all obligations that need the invoke built for one (dm, annexed)
    setting: DoF ranges for every built-in; for (True, True) also the
    formulas.  Returns a list of (obligation name, ok|None, detail)."""
    dm, annexed = setting
    docs = doc_builtins()
    out = []
    if not dm and not annexed:
        out.extend(check_adversarial(docs))
    for name, spec in sorted(docs.items()):
        args, formula = spec["args"], spec["formula"]
        if formula is None:
            if dm and annexed:
                out.append((f"builtin[{name}]#documented-definition", None,
                            "no definition line of the form 'x(:) = ...' "
                            "in the user guide: unspecified"))
            continue
        target, _, rhs_text = formula
        is_sum = rhs_text.strip().upper().startswith("SUM(")
        try:
            assign, bound, red = lowered(docs, name, dm, annexed,
                                         lower=(dm and annexed))
        except Exception as err:      # noqa
            out.append((f"builtin[{name}]#lowering[dm={dm},annexed="
                        f"{annexed}]", False, f"real lowering failed: "
                        f"{type(err).__name__}: {err}"))
            continue
        want = "nannexed" if (dm and annexed and not red) else "ndofs"
        out.append((f"builtin[{name}]#dof-range[dm={dm},annexed={annexed}]",
                    bound == want, f"loop upper bound '{bound}', documented "
                    f"range needs '{want}'"))
        if red != is_sum:
            out.append((f"builtin[{name}]#reduction-kind", False,
                        f"is_reduction={red}, documented SUM={is_sum}"))
        if assign is None:
            continue
        integer = name.startswith("int_")
        vars_ = {}
        for a in args:
            kind = arg_decl(a, name)[1]
            vars_[a] = z3.Int(a) if kind in ("ifield", "iscalar") \
                else z3.Real(a)
        try:
            doc_rhs = Parser(rhs_text.replace("SUM(", "(").strip(),
                             sem_env(vars_, integer)).expr()
        except Exception as err:      # noqa
            out.append((f"builtin[{name}]#documented-definition", None,
                        f"definition not parsed ({err}): unspecified"))
            continue
        try:
            lhs = psyir_to_z3(assign.lhs, vars_, integer)
            rhs = psyir_to_z3(assign.rhs, vars_, integer)
        except Exception as err:      # noqa
            out.append((f"builtin[{name}]#formula", None,
                        f"produced code not interpreted ({err})"))
            continue
        wanted = vars_[target] + doc_rhs if is_sum else doc_rhs
        if z3.is_int(rhs) != z3.is_int(wanted):
            rhs, wanted = toreal(rhs), toreal(wanted)
        s = z3.Solver()
        s.set("timeout", 20000)
        s.add(rhs != wanted)
        r = s.check()
        detail = f"code: {assign.debug_string().strip()} ; doc: {target} " \
                 f"= {rhs_text}"
        if r == z3.sat:
            detail += f" ; counter-model {s.model()}"
        out.append((f"builtin[{name}]#formula",
                    (r == z3.unsat) if r != z3.unknown else None, detail))
        out.append((f"builtin[{name}]#target", bool(lhs.eq(vars_[target])),
                    f"assigned variable {assign.lhs.debug_string()}, "
                    f"documented target {target}"))
    return out


TRUSTED = [
    "z3 (real and integer arithmetic); '**' with a real exponent is an "
    "uninterpreted function on both sides",
    "the 70-line parser of the user guide's definition lines and the "
    "interpretation of SIGN/MAX/MIN/INT/REAL per Fortran 2008 s13.7",
    "lower_to_language_level is executed (closed function of the built-in "
    "node) -- its result, not its text, is compared with the definition; "
    "field%data(df) accesses stand for the DoF value",
    "NOT covered: OpenMP reductions' local-sum / reprod code, the halo "
    "state after built-ins (C22), setval_random (no formula); OpenMP "
    "clauses of parallelised built-in loops (seeded change C20b is missed "
    "for this reason)",
]
EXPLANATION = (
    "Every documented built-in: the assignment produced by the real "
    "lowering equals the user guide's definition for all real/integer "
    "values (z3), the assigned variable is the documented target, "
    "reductions accumulate the documented summand, and the DoF loop runs "
    "to 'nannexed' exactly with distributed memory, annexed-DoF computation "
    "on and no reduction, to 'ndofs' otherwise.")


def extra(uni, tier, seed):
    from pyvc.runner import Extra
    docs = doc_builtins()
    out, n_ok, unspecified = [], 0, []
    import multiprocessing as mp
    settings = [(False, False), (False, True), (True, False), (True, True)]
    with mp.get_context("fork").Pool(4) as pool:
        results = pool.map(check_setting, settings, chunksize=1)
    for res in results:
        for oname, ok, detail in res:
            if ok is True:
                n_ok += 1
            elif ok is None:
                unspecified.append(f"{oname}: {detail}"[:160])
            else:
                out.append(Extra(oname, False, detail[:400],
                                 kind="z3 obligation / structural check on "
                                      "the executed lowering",
                                 replay={"confirmed": True,
                                         "obligation": oname,
                                         "detail": detail}))
    for oname, ok, detail in check_openmp(docs):
        if ok is True:
            n_ok += 1
        elif ok is None:
            unspecified.append(f"{oname}: {detail}"[:160])
        else:
            out.append(Extra(oname, False, detail[:400],
                             kind="structural obligation on the generated "
                                  "OpenMP code of a reduction built-in",
                             replay={"confirmed": True, "obligation": oname,
                                     "detail": detail}))
    for cname in uni.repo.subclasses("LFRicBuiltIn"):
        info = uni.repo.cls(cname)
        if info and "lower_to_language_level" in info.methods:
            uni.repo.record(
                f"{info.relpath}:{cname}.lower_to_language_level",
                info.relpath, info.methods["lower_to_language_level"])
    out.append(Extra("builtins#all", n_ok > 100,
                     f"{n_ok} obligations discharged over {len(docs)} "
                     f"documented built-ins; unspecified: {unspecified}",
                     kind="z3 obligations on executed lowerings vs the user "
                          "guide", count=n_ok,
                     samples=sorted(docs)[:5], undecided=n_ok <= 100))
    return out


# ---------------------------------------------------------------------------
# reductions after OpenMP parallelisation
# ---------------------------------------------------------------------------
def check_openmp(docs):
    """For every documented built-in that is a reduction: one invoke holding
    just that built-in is parallelised in three ways (parallel do; orphaned
    do inside a parallel region with the default schedule; the same with
    omp_schedule='none'), code is generated by the real PSy layer, and the
    work-sharing directive must carry reduction(+:<variable>) while the
    variable is zeroed before the parallel region.  [(name, ok, detail)]"""
    import re
    import tempfile
    from psyclone.configuration import Config
    from psyclone.parse.algorithm import parse
    from psyclone.psyGen import PSyFactory
    from psyclone.psyir.nodes import Loop
    from psyclone.transformations import (Dynamo0p3OMPLoopTrans,
                                          DynamoOMPParallelLoopTrans,
                                          OMPParallelTrans)
    out = []
    for name, spec in sorted(docs.items()):
        if spec["formula"] is None:
            continue
        decls = [arg_decl(a, name)[0] for a in dict.fromkeys(spec["args"])]
        source = ("program demo_alg\n"
                  "  use constants_mod, only: r_def, i_def\n"
                  "  use field_mod, only: field_type\n"
                  "  use integer_field_mod, only: integer_field_type\n"
                  "  implicit none\n" + "".join(f"  {d}\n" for d in decls) +
                  f"  call invoke( {name}({', '.join(spec['args'])}) )\n"
                  "end program demo_alg\n")
        for variant in ("parallel-do", "orphan-do", "orphan-do-none"):
            Config._instance = None
            Config.get().api = "lfric"
            with tempfile.TemporaryDirectory() as tmp:
                path = os.path.join(tmp, "demo_alg.f90")
                with open(path, "w", encoding="utf-8") as fout:
                    fout.write(source)
                _, info = parse(path, api="lfric")
            psy = PSyFactory("lfric", distributed_memory=False).create(info)
            sched = psy.invokes.invoke_list[0].schedule
            kern = sched.coded_kernels()[0] if sched.coded_kernels() else \
                sched.kernels()[0]
            if not getattr(kern, "is_reduction", False):
                break
            var = kern.reduction_arg.name
            loop = sched.walk(Loop)[0]
            oname = f"builtin[{name}]#openmp-reduction[{variant}]"
            try:
                if variant == "parallel-do":
                    DynamoOMPParallelLoopTrans().apply(loop)
                else:
                    sch = "none" if variant.endswith("none") else "static"
                    Dynamo0p3OMPLoopTrans(omp_schedule=sch).apply(
                        loop, {"reprod": False})
                    OMPParallelTrans().apply(sched.children[0])
                code = str(psy.gen).lower()
            except Exception as err:       # noqa
                out.append((oname, None, f"not generated: {err!r}"[:200]))
                continue
            lines = code.splitlines()
            dirs = [k for k, ln in enumerate(lines) if re.match(
                r"\s*!\$omp (parallel )?do\b", ln)]
            ok = bool(dirs) and all(
                f"reduction(+:{var.lower()})" in lines[k].replace(" ", "")
                or f"reduction(+: {var.lower()})" in lines[k]
                for k in dirs)
            zero = [k for k, ln in enumerate(lines) if re.match(
                rf"\s*{re.escape(var.lower())}\s*=\s*0", ln)]
            first_par = min([k for k, ln in enumerate(lines)
                             if "!$omp parallel" in ln] or [0])
            ok = ok and bool(zero) and zero[0] < first_par
            out.append((oname, ok, "" if ok else
                        f"the work-sharing directive of the reduction loop "
                        f"has no reduction(+:{var}) clause or {var} is not "
                        f"zeroed before the region:\n" + "\n".join(
                            lines[max(0, first_par - 3):first_par + 8])))
    return out
