"""Realiser for C13: real ACCDataTrans on small regions with hand-stated
ground truth (what must be copied in / may be copied out)."""
import re

CASES = [
    # name, decls, region, must be in copyin|copy, must be in copyout|copy,
    # must NOT be copyout-only (partially written), class
    ("partial-first-write", "real :: a(10), b(10)",
     "a(1) = 0.0\nb(:) = a(:)", {"a"}, {"a", "b"}, {"a"},
     "partial-first-write"),
    ("partial-write-only", "real :: a(10), c(10)",
     "a(1:5) = c(1:5)", {"c"}, {"a"}, {"a"}, "partial-write-only"),
    ("read-then-write", "real :: a(10), b(10)",
     "b(:) = a(:)\na(:) = 1.0", {"a"}, {"a", "b"}, set(), "other"),
    ("full-write-then-read", "real :: a(10), b(10)",
     "a(:) = 1.0\nb(:) = a(:)", set(), {"a", "b"}, set(), "other"),
    ("partial-write-then-call", "real :: a(10), b(10)\ninteger :: n",
     "a(1) = 0.0\ncall smooth(a, n)\nb(:) = 2.0*a(:)", {"a"}, {"a", "b"},
     {"a"}, "other"),
    ("update", "real :: a(10)",
     "a(:) = a(:) + 1.0", {"a"}, {"a"}, set(), "other"),
]


def clauses(decls, stmts):
    from psyclone.psyir.frontend.fortran import FortranReader
    from psyclone.psyir.backend.fortran import FortranWriter
    from psyclone.psyir.nodes import Routine
    from psyclone.transformations import ACCDataTrans
    from psyclone.psyir.transformations import ACCKernelsTrans
    code = (f"subroutine region()\n{decls}\n{stmts}\n"
            f"end subroutine region\n")
    psyir = FortranReader().psyir_from_source(code)
    routine = psyir.walk(Routine)[0]
    try:
        ACCKernelsTrans().apply(routine.children[:])
    except Exception:      # noqa  (e.g. a call inside the region)
        pass
    ACCDataTrans().apply(routine.children[:])
    text = FortranWriter()(psyir)
    out = {}
    for kind in ("copyin", "copyout", "copy"):
        m = re.search(r"!\$acc data.*?\b" + kind + r"\(([^)]*)\)", text)
        out[kind] = {x.strip() for x in m.group(1).split(",")} if m else set()
    return out, text


def run(only=None):
    for name, decls, stmts, need_in, need_out, not_wo, cls in CASES:
        if only and cls != only:
            continue
        cl, text = clauses(decls, stmts)
        missing_in = need_in - (cl["copyin"] | cl["copy"])
        if missing_in:
            return {"confirmed": True, "input_class": cls,
                    "input": {"case": name, "region": stmts},
                    "observed": f"clauses {cl}: {sorted(missing_in)} is read "
                    "before being fully written but is not copied in"}
        missing_out = need_out - (cl["copyout"] | cl["copy"])
        if missing_out:
            return {"confirmed": True, "input_class": "outputs:" + cls,
                    "input": {"case": name, "region": stmts},
                    "observed": f"clauses {cl}: {sorted(missing_out)} is "
                    "modified but not copied out"}
        bad = not_wo & cl["copyout"]
        if bad:
            return {"confirmed": True, "input_class": cls,
                    "input": {"case": name, "region": stmts},
                    "observed": f"clauses {cl}: {sorted(bad)} is only "
                    "partially written but copyout-only: undefined device "
                    "values overwrite host data"}
    return {"confirmed": False}
