"""C13 — OpenACC data regions move all data the region needs.

Contract on the real body of Directive.create_data_movement_deep_copy_refs
(the classification of every accessed non-scalar into copyin / copyout /
copy), over the abstract access view of C12 (real access types + ghost
'covers the whole variable' / 'unconditional' attributes), for signatures
that are not structure accesses.
"""
import z3
from pyvc.interp import Contract, LoopSpec
from pyvc.values import VRef, VFunc, VBool, VStr, NONE, Ref, STR, EnumDesc

ID = "C13"
LEVEL = "proof"
DV = "psyir/nodes/directive.py"
NULLC = z3.Const("null", Ref)


def build(uni):
    info = uni.repo.cls("AccessType", "core/access_type.py")
    uni.enums["AccessType"] = EnumDesc("AccessType", list(info.consts))
    uni.fields.update({
        "_accesses": "list[AccessInfo]", "_access_type": "enum:AccessType",
        "_node": "Reference", "_symbol": "DataSymbol", "_datatype": "DataType",
        "$full": "bool", "$uncond": "bool", "$var_name": "str",
        "$is_structure": "bool",
    })
    SIGS = z3.Function("all_signatures_of", Ref, Ref)
    SVAI = z3.Function("var_info_of", Ref, Ref, Ref)
    LOOKUP = z3.Function("table_lookup", Ref, STR, Ref)
    TABLE = z3.Function("scope_table_of", Ref, Ref)
    AL0 = z3.Const("H0_$alloc", z3.ArraySort(Ref, z3.BoolSort()))
    THE_VI = [None]

    def field_hook(attr):
        def h(it, selfv, args, kw, st, fr):
            return it.getattr(VRef(selfv.e, "Obj"), attr, st, fr)
        return h

    def h_sigs(it, selfv, args, kw, st, fr):
        return VRef(SIGS(selfv.e), "list", "Signature")

    def h_getitem(it, selfv, args, kw, st, fr):
        return VRef(SVAI(selfv.e, args[0].e), "SingleVariableAccessInfo")

    def h_scope(it, selfv, args, kw, st, fr):
        return VRef(selfv.e, "ScopeOf")

    def h_symtab(it, selfv, args, kw, st, fr):
        return VRef(TABLE(selfv.e), "SymbolTable")

    def h_lookup(it, selfv, args, kw, st, fr):
        r = LOOKUP(selfv.e, args[0].e)
        st.assume(r != NULLC)
        return VRef(r, "DataSymbol")

    def construct_hook(it, cname, args, kw, st, fr):
        if cname == "VariablesAccessInfo":
            # the access information of the region: an arbitrary (but
            # well-formed) abstract view, fixed for the run
            return VRef(z3.Const("the_var_info", Ref), "VariablesAccessInfo")
        if cname == "Reference":
            obj = it.alloc(st, "Reference", None, "reference")
            st.write("_symbol", obj.e, it.to_z3(args[0]), "ref")
            return obj
        return None
    uni.construct_hook = construct_hook
    uni.consts["OrderedDict"] = VFunc(
        "hook", fn=lambda it, a, k, st, fr: it.new_container(
            st, "dict", ("Signature", "Reference"), "odict"))
    uni.method_hooks.update({
        "VariablesAccessInfo.all_signatures": h_sigs,
        "VariablesAccessInfo.__getitem__": h_getitem,
        "AccessInfo.access_type": field_hook("_access_type"),
        "AccessInfo.node": field_hook("_node"),
        "SingleVariableAccessInfo.all_accesses": field_hook("_accesses"),
        "Signature.var_name": field_hook("$var_name"),
        "Signature.is_structure": field_hook("$is_structure"),
        "Reference.symbol": field_hook("_symbol"),
        "DataSymbol.datatype": field_hook("_datatype"),
        "Node.scope": h_scope,
        "SymbolTable.lookup": h_lookup,
        "Node.reference_accesses": lambda it, s, a, k, st, fr: NONE,
    })
    uni.method_hooks["Directive.reference_accesses"] = \
        uni.method_hooks["Node.reference_accesses"]
    uni.fields["symbol_table"] = "SymbolTable"
    uni.note_assumption(
        "assumed models (engine hooks): the VariablesAccessInfo filled by "
        "reference_accesses is an arbitrary well-formed access view (C11 "
        "link assumed); all_signatures / [sig] / accessors return stored "
        "attributes; scope.symbol_table.lookup is a function of (table, "
        "name) that finds the symbol; signatures are distinct objects")
    VI = z3.Const("the_var_info", Ref)
    uni.consts["VI"] = VFunc("hook", fn=lambda it, a, k, st, fr: VRef(
        VI, "VariablesAccessInfo"))
    uni.consts["SIGS"] = VFunc("hook", fn=lambda it, a, k, st, fr: VRef(
        SIGS(VI), "list", "Signature"))
    uni.consts["ACC"] = VFunc("hook", fn=lambda it, a, k, st, fr: it.getattr(
        VRef(SVAI(VI, a[0].e), "SVAIObj"), "_accesses", st, fr))
    uni.consts["SYM"] = VFunc("hook", fn=lambda it, a, k, st, fr: VRef(
        LOOKUP(st.read("symbol_table", a[0].e, "ref"),
               st.read("$var_name", a[1].e, "str")), "DataSymbol"))
    uni.consts["var_info"] = VFunc("hook", fn=lambda it, a, k, st, fr: VRef(
        SVAI(VI, a[0].e), "SingleVariableAccessInfo"))
    uni.axioms.append(VI != NULLC)
    uni.consts["getattr"] = VFunc("hook", fn=lambda it, a, k, st, fr: (
        it.from_field(it.concrete(a[1]), st.read(
            it.concrete(a[1]), a[0].e, uni.field_tag(it.concrete(a[1]))))))
    uni.axioms.append(z3.Select(AL0, SIGS(VI)))
    x = z3.Const("ax", Ref)
    uni.axioms.append(z3.ForAll([x], z3.Select(AL0, SVAI(VI, x)),
                                patterns=[SVAI(VI, x)]))
    uni.preds.update({
        "READS": (["a"], "a._access_type == AccessType.READ or "
                         "a._access_type == AccessType.READWRITE or "
                         "a._access_type == AccessType.INC or "
                         "a._access_type == AccessType.READINC"),
        "WRITES": (["a"], "a._access_type == AccessType.WRITE or "
                          "a._access_type == AccessType.READWRITE or "
                          "a._access_type == AccessType.INC or "
                          "a._access_type == AccessType.READINC or "
                          "a._access_type == AccessType.SUM"),
        "KILLS": (["a"], "a._access_type == AccessType.WRITE and "
                         "getattr(a, '$full') and getattr(a, '$uncond')"),
        "EXPOSED": (["s"], """
            exists(lambda i: 0 <= i and i < len(ACC(s)) and
                READS(at(ACC(s), i)) and
                forall(lambda j: implies(0 <= j and j < i,
                                         not KILLS(at(ACC(s), j)))))
            """),
        "MODIFIED": (["s"], "exists(lambda i: 0 <= i and i < len(ACC(s)) and "
                            "WRITES(at(ACC(s), i)))"),
        "FULLW": (["s"], "exists(lambda i: 0 <= i and i < len(ACC(s)) and "
                         "KILLS(at(ACC(s), i)))"),
        "NONSCALAR": (["s"], "not isinstance(SYM(self, s)._datatype, "
                             "ScalarType)"),
        # recorded known class: the first access is a write that does not
        # define the whole array (partial or conditional)
        "KF1": (["s"], "at(ACC(s), 0)._access_type == AccessType.WRITE and "
                       "not KILLS(at(ACC(s), 0)) and "
                       "not exists(lambda i: 0 <= i and i < len(ACC(s)) and "
                       "at(ACC(s), i)._access_type == AccessType.READWRITE)"),
        "WF": ([], """
            SIGS() is not None and len(SIGS()) >= 0 and
            forall(lambda p, q: implies(0 <= p and p < q and q < len(SIGS()),
                at(SIGS(), p) is not at(SIGS(), q))) and
            forall(lambda p: implies(0 <= p and p < len(SIGS()),
                at(SIGS(), p) is not None and
                var_info(at(SIGS(), p)) is not None and
                not getattr(at(SIGS(), p), '$is_structure') and
                ACC(at(SIGS(), p)) is not None and
                len(ACC(at(SIGS(), p))) >= 1 and
                forall(lambda q: implies(0 <= q and
                    q < len(ACC(at(SIGS(), p))),
                    at(ACC(at(SIGS(), p)), q) is not None and
                    (READS(at(ACC(at(SIGS(), p)), q)) or
                     WRITES(at(ACC(at(SIGS(), p)), q))) and
                    at(ACC(at(SIGS(), p)), q)._node is not None))))
            """),
    })
    RO, WO, RW = "result[0]", "result[1]", "result[2]"

    def allsig(body):
        return (f"forall(lambda p: implies(0 <= p and p < len(SIGS()) and "
                f"NONSCALAR(at(SIGS(), p)), {body}))")
    S = "at(SIGS(), p)"
    c = Contract(
        f"{DV}:Directive.create_data_movement_deep_copy_refs",
        params={"self": "Directive"},
        requires=[("wf", "WF() and self.symbol_table is not None")],
        ensures=[
            ("inputs_copied_in_outside_known_class", allsig(
                f"implies(EXPOSED({S}) and not KF1({S}), "
                f"{S} in {RO} or {S} in {RW})")),
            ("inputs_copied_in", allsig(
                f"implies(EXPOSED({S}), {S} in {RO} or {S} in {RW})")),
            ("outputs_copied_out", allsig(
                f"implies(MODIFIED({S}), {S} in {WO} or {S} in {RW})")),
            ("copyin_only_is_not_modified", allsig(
                f"implies({S} in {RO}, not MODIFIED({S}))")),
            ("copyout_only_is_written", allsig(
                f"implies({S} in {WO}, MODIFIED({S}))")),
            ("copyout_only_is_fully_written", allsig(
                f"implies({S} in {WO}, FULLW({S}))")),
            ("one_clause_each", allsig(
                f"({S} in {RO}) + ({S} in {WO}) + ({S} in {RW}) == 1")),
        ],
        raises={}, modifies=["$dom.ref", "$map.ref.ref", "$card"],
        covers=[("some_copyout", "exists(lambda p: 0 <= p and "
                                 "p < len(SIGS()) and "
                                 f"at(SIGS(), p) in {WO})"),
                ("some_copy", "exists(lambda p: 0 <= p and "
                              f"p < len(SIGS()) and at(SIGS(), p) in {RW})")])
    uni.contracts["Directive.create_data_movement_deep_copy_refs"] = c

    def inv(body):
        return (f"forall(lambda p: implies(0 <= p and p < _k and "
                f"NONSCALAR(at(_iter, p)), {body}))")
    T = "at(_iter, p)"
    uni.local_types["Directive.create_data_movement_deep_copy_refs"] = {
        "access_dict": "dict[Signature,Reference]"}
    uni.loopspecs["Directive.create_data_movement_deep_copy_refs"] = {
        0: LoopSpec(invariants=[
            ("iter", "_iter is SIGS() and var_info is VI()"),
            ("dicts", "fresh(read_only) and fresh(write_only) and "
                      "fresh(readwrites) and read_only is not write_only and "
                      "read_only is not readwrites and "
                      "write_only is not readwrites"),
            ("later", "forall(lambda p: implies(_k <= p and p < len(_iter), "
                      "not (at(_iter, p) in read_only) and "
                      "not (at(_iter, p) in write_only) and "
                      "not (at(_iter, p) in readwrites)))"),
            ("in1", inv(f"implies(EXPOSED({T}) and not KF1({T}), "
                        f"{T} in read_only or {T} in readwrites)")),
            ("out", inv(f"implies(MODIFIED({T}), "
                        f"{T} in write_only or {T} in readwrites)")),
            ("ro", inv(f"implies({T} in read_only, not MODIFIED({T}))")),
            ("wo", inv(f"implies({T} in write_only, MODIFIED({T}))")),
            ("one", inv(f"({T} in read_only) + ({T} in write_only) + "
                        f"({T} in readwrites) == 1")),
        ], modifies=["$dom.ref", "$map.ref.ref", "$card"]),
    }
    return [c]


TRUSTED = [
    "pyvc VC generator and z3; dict model",
    "the abstract access view (C11 link assumed)",
    "NOT under contract: structure (derived-type) signatures -- the "
    "deep-copy branch of the function is excluded by the precondition --, "
    "ACCDataDirective._update_data_movement_clauses (clauses = the three "
    "dicts), ACCDataTrans.validate; scalars are outside the property",
]
EXPLANATION = (
    "For every non-scalar, non-structure signature and every access "
    "sequence: a variable whose incoming value can be read is in copyin or "
    "copy (outside the recorded known class), a modified variable is in "
    "copyout or copy, copyin-only variables are not modified, copyout-only "
    "ones are written, each variable is in exactly one clause; the clause "
    "'copyout-only implies fully written' fails for a partially written "
    "array and is recorded as a known finding together with the "
    "partial-first-write input class.")


def replay(name, ob, model, uni):
    from realise import C13 as R
    if name.endswith("inputs_copied_in") or \
            name.endswith("fully_written"):
        return R.run()
    return R.run("other")


def replay_known(k, uni):
    kid = k.get("id", "")
    if kid.startswith("device-"):
        from realise import acc_model as A
        return A.run_case(kid[len("device-"):])[0] == "differs"
    from realise import C13 as R
    rp = R.run(kid)
    return bool(rp.get("confirmed"))


def bounded(uni, tier, seed):
    """bounded stand-in used only when a deductive obligation is undecided"""
    from realise import C13 as R
    return R.run("other")


def extra(uni, tier, seed):
    """BOUNDED stand-in (never counted as proved): the region wrapped by the
    real ACCDataTrans is executed on a separate device memory with exactly
    the generated copyin / copyout / copy movements (realise/acc_model.py)
    and the host arrays are compared with a host-only run"""
    from pyvc.runner import Extra
    from realise import acc_model as A
    out, n_ok = [], 0
    for cid, verdict, detail, src in A.cases():
        if verdict == "differs":
            out.append(Extra(
                f"bounded#device-memory[{cid}]", False, detail[:300],
                bounded=True, kind="bounded run-time contract: region "
                "executed on device memory with the generated clauses",
                replay={"confirmed": True, "case": cid,
                        "input": {"source": src}, "observed": detail}))
        else:
            n_ok += 1
    out.append(Extra("bounded#device-memory", True,
                     f"{n_ok} regions give the host-only result",
                     kind="bounded run-time contract: 8 regions on the "
                          "device-memory model", count=n_ok, bounded=True))
    # the generated movements are those of the region as written: a region
    # edited after the directive was created (in the tree or in a copy)
    n_ok = 0
    for cid, ok, detail in A.edited_region_cases():
        if ok:
            n_ok += 1
            continue
        out.append(Extra(
            f"bounded#clauses-of-edited-region[{cid}]", False, detail[:300],
            bounded=True, kind="bounded run-time contract: clauses after "
            "the region body was edited",
            replay={"confirmed": True, "case": cid, "observed": detail}))
    out.append(Extra("bounded#clauses-of-edited-region", True,
                     f"{n_ok} edited regions move the newly used arrays",
                     kind="bounded run-time contract: region edited in the "
                          "tree, a copy and a copy of a copy", count=n_ok,
                     bounded=True))
    out += copy_chain(uni)
    return out


def copy_chain(uni):
    """the clauses of a data region in a COPIED tree are refreshed only if
    the copy has tree updates enabled: that postcondition of
    Node._refine_copy (contract of C15) is part of the chain; its VCs are
    generated from the current source and discharged here as well"""
    import hashlib
    from pyvc.runner import Extra
    from pyvc.extract import Repo
    from pyvc.interp import Universe
    from pyvc.verify import verify_function
    from pyvc.smt import _solve
    from contracts import C15
    from realise import acc_model as A
    u2 = Universe(Repo())
    u2.kf_classes = {}
    c = [c for c in C15.build(u2) if c.name.endswith("Node._refine_copy")][0]
    rep = verify_function(u2, c)
    out, n_ok = [], 0
    for ob in rep.obligations:
        if "tree_updates_enabled" not in ob.name:
            continue
        text = ob.smt2()
        _, r, _, _ = _solve((hashlib.sha256(text.encode()).hexdigest(),
                             text, 20000, True))
        if r == "unsat":
            n_ok += 1
            continue
        bad = [x for x in A.edited_region_cases() if not x[1]]
        out.append(Extra(
            f"C15:{ob.name}", False, f"solver: {r}",
            kind="VC of Node._refine_copy (contract of C15)",
            undecided=(r != "sat"),
            replay={"confirmed": bool(bad), "obligation": ob.name,
                    "solver": r,
                    "observed": bad[0][2] if bad else "not reproduced"}))
    for k, v in u2.repo.used.items():
        uni.repo.used[k] = v
    out.append(Extra(
        "C15:Node._refine_copy#tree_updates_enabled",
        bool(out) or (n_ok > 0 and not rep.unsupported),
        f"{n_ok} obligations discharged",
        kind="VCs of the Node._refine_copy contract (shared with C15)",
        count=n_ok, undecided=bool(rep.unsupported)))
    return out
