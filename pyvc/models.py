"""z3 models of Python built-in data-structure operations.

Lists are (Array Int T, len).  All definitions are pointwise lambdas.  Every
model here is differentially tested against CPython by
``pyvc/selftest_models.py`` (exhaustive small scope); a mismatch is a checker
error (exit 3), never a verdict.
"""
import z3

I = z3.IntSort()

# Encoding switch: pointwise-defined arrays are either z3 lambdas or fresh
# array constants with a quantified definitional axiom (collected in AXIOMS,
# which the interpreter moves into the path condition).
USE_LAMBDA = False
AXIOMS = []
_n = [0]


def define(fn, sample):
    """array a with a[j] = fn(j) for all j; sample gives the element sort"""
    j = z3.Int("j")
    if USE_LAMBDA:
        return z3.Lambda([j], fn(j))
    _n[0] += 1
    a = z3.Const(f"arr!{_n[0]}", z3.ArraySort(I, sample.sort()))
    AXIOMS.append(z3.ForAll([j], a[j] == fn(j), patterns=[a[j]]))
    return a


def norm_index(idx, n):
    """Python index normalisation for getitem/pop/del (no clamping)."""
    return z3.If(idx >= 0, idx, n + idx)


def in_range(idx, n):
    return z3.And(-n <= idx, idx < n)


def clamp_insert(idx, n):
    """list.insert position: negative -> max(0, n+idx); > n -> n."""
    return z3.If(idx < 0, z3.If(n + idx < 0, 0, n + idx),
                 z3.If(idx > n, n, idx))


def _j(name="j"):
    return z3.Int(name)


def list_pop(items, n, k):
    """remove position k (already normalised, 0<=k<n)."""
    return define(lambda j: z3.If(j < k, items[j], items[j + 1]),
                  items[0]), n - 1


def list_insert(items, n, k, x):
    """insert x before position k (already clamped, 0<=k<=n)."""
    return (define(lambda j: z3.If(j < k, items[j],
                                   z3.If(j == k, x, items[j - 1])),
                   items[0]), n + 1)


def list_append(items, n, x):
    return z3.Store(items, n, x), n + 1


def list_set(items, n, k, x):
    return z3.Store(items, k, x), n


def list_extend(items, n, other, m):
    return define(lambda j: z3.If(j < n, items[j], other[j - n]),
                  items[0]), n + m


def list_reverse(items, n):
    return define(lambda j: items[n - 1 - j], items[0]), n


def list_slice(items, n, lo, hi):
    """items[lo:hi] with lo,hi already clamped to 0<=lo, hi<=n."""
    length = z3.If(hi > lo, hi - lo, 0)
    return define(lambda j: items[j + lo], items[0]), length


def clamp_slice(idx, n):
    """slice bound normalisation (step 1)."""
    return z3.If(idx < 0, z3.If(n + idx < 0, 0, n + idx),
                 z3.If(idx > n, n, idx))
