"""Symbolic values and z3 sorts used by the VC generator."""
import z3

Ref = z3.DeclareSort("Ref")
NULL = z3.Const("null", Ref)
INT = z3.IntSort()
BOOL = z3.BoolSort()
STR = z3.StringSort()

# strings that the code only compares / hashes (names used as keys) may be
# modelled as atoms of an uninterpreted sort: any string operation on an atom
# is 'unsupported', so the abstraction cannot hide behaviour.
ATOM = z3.DeclareSort("Atom")

SORTS = {"int": INT, "bool": BOOL, "str": STR, "ref": Ref, "atom": ATOM}


def sort_of(tag):
    """'int' | 'bool' | 'str' | 'ref' | 'set[str]' | 'map[str,ref]' ..."""
    tag = tag.strip()
    if tag in SORTS:
        return SORTS[tag]
    if tag.startswith("set[") and tag.endswith("]"):
        return z3.ArraySort(sort_of(tag[4:-1]), BOOL)
    if tag.startswith("arr[") and tag.endswith("]"):
        return z3.ArraySort(INT, sort_of(tag[4:-1]))
    if tag.startswith("map[") and tag.endswith("]"):
        k, v = split_top(tag[4:-1])
        return z3.ArraySort(sort_of(k), sort_of(v))
    raise KeyError(f"unknown sort tag {tag}")


def split_top(text):
    depth = 0
    for i, ch in enumerate(text):
        if ch == "[":
            depth += 1
        elif ch == "]":
            depth -= 1
        elif ch == "," and depth == 0:
            return text[:i], text[i + 1:]
    raise KeyError(text)


class V:
    """Base class of symbolic values."""
    tag = "?"


class VInt(V):
    tag = "int"

    def __init__(self, e):
        self.e = z3.IntVal(e) if isinstance(e, int) else e

    def __repr__(self):
        return f"VInt({self.e})"


class VBool(V):
    tag = "bool"

    def __init__(self, e):
        self.e = z3.BoolVal(e) if isinstance(e, bool) else e

    def __repr__(self):
        return f"VBool({self.e})"


class VStr(V):
    tag = "str"

    def __init__(self, e):
        self.e = z3.StringVal(e) if isinstance(e, str) else e

    def __repr__(self):
        return f"VStr({self.e})"


class VAtom(V):
    tag = "atom"

    def __init__(self, e):
        self.e = e

    def __repr__(self):
        return f"VAtom({self.e})"


class VRef(V):
    """Reference to a heap object. cls = static class name (or 'list',
    'dict', 'set'); elem = element tag for containers; for dicts
    elem = (keytag, valtag)."""
    tag = "ref"

    def __init__(self, e, cls=None, elem=None):
        self.e = e
        self.cls = cls
        self.elem = elem

    def __repr__(self):
        return f"VRef({self.e}:{self.cls}{'['+str(self.elem)+']' if self.elem else ''})"


class VNone(V):
    tag = "none"

    def __repr__(self):
        return "VNone"


NONE = VNone()


class VTuple(V):
    tag = "tuple"

    def __init__(self, items):
        self.items = list(items)

    def __repr__(self):
        return f"VTuple({self.items})"


class VPy(V):
    """A concrete Python object used as an immutable constant (dict/list of
    literals extracted from the source, classes, enum members...)."""
    tag = "py"

    def __init__(self, obj):
        self.obj = obj

    def __repr__(self):
        return f"VPy({self.obj!r})"


class VClass(V):
    tag = "class"

    def __init__(self, name):
        self.name = name

    def __repr__(self):
        return f"VClass({self.name})"


class VExc(V):
    """Exception instance; only its class is modelled."""
    tag = "exc"

    def __init__(self, cls):
        self.cls = cls

    def __repr__(self):
        return f"VExc({self.cls})"


class VFunc(V):
    """Callable: kind in {'method','function','builtin','listop','super',
    'callback','uf'}."""
    tag = "func"

    def __init__(self, kind, **kw):
        self.kind = kind
        self.__dict__.update(kw)

    def __repr__(self):
        return f"VFunc({self.kind},{ {k:v for k,v in self.__dict__.items() if k!='kind'} })"


class VTerm(V):
    """Free constructor term (used for structural reasoning about produced
    PSyIR): ctor name + argument values."""
    tag = "term"

    def __init__(self, ctor, args, kwargs=None):
        self.ctor = ctor
        self.args = list(args)
        self.kwargs = dict(kwargs or {})

    def __repr__(self):
        return f"{self.ctor}({', '.join(map(repr, self.args))})"


class VEnum(V):
    """Member of a finite enumeration with a symbolic index."""
    tag = "enum"

    def __init__(self, enum, e):
        self.enum = enum            # EnumSort descriptor (name, members)
        self.e = z3.IntVal(e) if isinstance(e, int) else e

    def __repr__(self):
        return f"VEnum({self.enum.name},{self.e})"


class EnumDesc:
    def __init__(self, name, members):
        self.name = name
        self.members = list(members)

    def index(self, member):
        return self.members.index(member)


def is_concrete(e):
    return z3.is_int_value(e) or z3.is_true(e) or z3.is_false(e) or \
        z3.is_string_value(e)


def simp(e):
    return z3.simplify(e)
