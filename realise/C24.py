"""C24 bounded family: the real generator (psyclone.generator.generate, LFRic
API) on generated algorithm files; the generated algorithm-layer call and the
generated PSy-layer routine are compared position by position with the
invoke as written in the source (oracle: realise/alg_psy_oracle.py).
Bounded: the five hand-written scenarios of the oracle plus N generated
ones (arguments drawn from plain, case-varied, array-element,
structure-component, multi-index and literal texts; 1-3 invokes, named or
not, keyword in any case)."""
import random

FIELDS = ["f1", "F1", "f2", "m1", "M2", "m2", "fv(1)", "fv( 2 )", "FV(3)",
          "fv(i)", "state%f1", "state % f2", "STATE%M1", "other%m2",
          "state%vec(2)", "state%vec(i)", "grid(1,2)", "grid(2, 1)",
          "grid(i, i)", "state_f2"]
SCALARS = ["a", "A", "b(1)", "b( 2 )"]
LITERALS = ["=0.0_r_def", "=1.5_r_def", "=-1.0_r_def"]
KEYWORDS = ["invoke", "Invoke", "INVOKE"]


def generated(seed, count):
    rng = random.Random(seed)
    out = {}
    for n in range(count):
        invokes = []
        for k in range(rng.randint(1, 3)):
            kernels = []
            def distinct(k):
                picked, seen = [], set()
                while len(picked) < k:
                    f = rng.choice(FIELDS)
                    key = f.lower().replace(" ", "")
                    if key not in seen:
                        seen.add(key)
                        picked.append(f)
                return picked
            for _ in range(rng.randint(1, 4)):
                kind = rng.choice(["setval_c", "setval_x", "testkern_type"])
                if kind == "setval_c":
                    kernels.append((kind, distinct(1) +
                                    [rng.choice(LITERALS)]))
                elif kind == "setval_x":
                    kernels.append((kind, distinct(2)))
                else:
                    kernels.append((kind, [rng.choice(SCALARS)] +
                                    distinct(4)))
            name = rng.choice([None, None, f"Named_{n}_{k}"])
            invokes.append((rng.choice(KEYWORDS), name, kernels))
        out[f"gen{seed}_{n}"] = invokes
    return out


def scenario_problems(name, invokes):
    from realise import alg_psy_oracle as O
    try:
        return O.check(name + "_alg", invokes), O.build_source(
            name + "_alg", invokes)
    except Exception as err:       # noqa: the generator refuses or crashes
        return None, f"{type(err).__name__}: {err}"[:300]


def family(seed=0, count=24):
    """[(name, verdict, problems-or-reason, source)], verdict in
    ok / violated / refused"""
    from realise import alg_psy_oracle as O
    scen = dict(O.SCENARIOS)
    scen.update(generated(seed, count))
    out = []
    for name, invokes in scen.items():
        probs, src = scenario_problems(name, invokes)
        if probs is None:
            out.append((name, "refused", src, ""))
        elif probs:
            out.append((name, "violated", probs, src))
        else:
            out.append((name, "ok", [], src))
    return out
