"""Realiser / bounded run-time contract for C02: operator trees written by
the real FortranWriter and read back by the real FortranReader."""
import itertools

REL = ("EQ", "NE", "GT", "LT", "GE", "LE")


def _env():
    from psyclone.psyir.nodes import (BinaryOperation, UnaryOperation,
                                      Reference, Literal)
    from psyclone.psyir.symbols import (DataSymbol, REAL_TYPE, SymbolTable,
                                        INTEGER_TYPE)
    tab = SymbolTable()
    syms = [DataSymbol(n, REAL_TYPE) for n in "abcd"]
    for s in syms:
        tab.add(s)
    return BinaryOperation, UnaryOperation, Reference, Literal, tab, syms


def known_class(node):
    """name of the recorded known class the (sub)tree falls in, or None"""
    from psyclone.psyir.nodes import BinaryOperation, UnaryOperation
    B, U = BinaryOperation.Operator, UnaryOperation.Operator
    for n in node.walk((BinaryOperation, UnaryOperation)):
        p = n.parent
        if not isinstance(p, BinaryOperation) or p.children[0] is not n:
            continue
        if isinstance(n, BinaryOperation):
            if n.operator == B.POW and p.operator == B.POW:
                return "pow-left-child"
            if n.operator.name in REL and p.operator.name in REL:
                return "rel-left-child"
        else:
            if n.operator in (U.MINUS, U.PLUS) and \
                    p.operator in (B.MUL, B.DIV):
                return "sign-left-of-mul"
            if n.operator == U.PLUS and p.operator == B.POW:
                return "plus-left-of-pow"
            if n.operator == U.NOT and p.operator.name in \
                    ("ADD", "SUB", "MUL", "DIV", "POW") + REL:
                return "not-left-of-arith"
    return None


def check_tree(tree, tab):
    from psyclone.psyir.backend.fortran import FortranWriter
    from psyclone.psyir.frontend.fortran import FortranReader
    text = FortranWriter()(tree)
    try:
        back = FortranReader().psyir_from_expression(text, tab)
    except Exception as err:      # noqa
        return f"written {text!r}; reader: {type(err).__name__}"
    if back != tree:
        return (f"written {text!r}; read back as "
                f"{FortranWriter()(back)!r} with a different tree")
    return None


def trees(depth2_ops=None):
    B, U, Ref, Lit, tab, syms = _env()
    bops = [o for o in B.Operator if o.name != "REM"]
    uops = list(U.Operator)

    def leaf(i):
        return Ref(syms[i])

    def level1():
        for o in bops:
            yield lambda o=o: B.create(o, leaf(0), leaf(1))
        for o in uops:
            yield lambda o=o: U.create(o, leaf(0))
    for mk in level1():
        yield mk(), tab
    for o in bops:
        for mk in level1():
            yield B.create(o, mk(), leaf(2)), tab
            yield B.create(o, leaf(2), mk()), tab
    for o in uops:
        for mk in level1():
            yield U.create(o, mk()), tab
    # grandparent cases: x op1 ((unary a) op2 b)
    for o1 in bops:
        for o2 in bops:
            for u in uops:
                yield B.create(o1, leaf(2), B.create(
                    o2, U.create(u, leaf(0)), leaf(1))), tab


def roundtrip(tier="quick", skip_known=True, only=None):
    n = skipped = 0
    samples = []
    for tree, tab in trees():
        cls = known_class(tree)
        if cls and skip_known:
            skipped += 1
            continue
        n += 1
        bad = check_tree(tree, tab)
        if bad:
            return {"confirmed": True, "cases": n,
                    "input_class": cls or "other",
                    "input": {"tree": tree.debug_string()},
                    "observed": bad}
        if len(samples) < 3:
            samples.append(tree.debug_string())
    return {"confirmed": False, "cases": n, "skipped_known": skipped,
            "samples": samples}


def known(kid):
    B, U, Ref, Lit, tab, syms = _env()
    a, b, c = (lambda: Ref(syms[0])), (lambda: Ref(syms[1])), \
        (lambda: Ref(syms[2]))
    O, V = B.Operator, U.Operator
    from psyclone.psyir.symbols import INTEGER_TYPE
    cases = {
        "pow-left-child": lambda: B.create(O.POW, B.create(O.POW, a(), b()),
                                           c()),
        "rel-left-child": lambda: B.create(O.EQ, B.create(O.EQ, a(), b()),
                                           c()),
        "sign-left-of-mul": lambda: B.create(O.MUL, U.create(V.MINUS, a()),
                                             b()),
        "plus-left-of-pow": lambda: B.create(O.POW, U.create(V.PLUS, a()),
                                             b()),
        "not-left-of-arith": lambda: B.create(O.EQ, U.create(V.NOT, a()),
                                              b()),
        "negative-literal-operand": lambda: B.create(
            O.SUB, a(), Lit("-1", INTEGER_TYPE)),
    }
    if kid not in cases:
        return None
    return check_tree(cases[kid](), tab) is not None
