#!/bin/sh
# run every registered thorough check on the current tree; one line each
cd /verif
for p in $(.venv/bin/python -c "import json; print(' '.join(c['property_id'] for c in json.load(open('MANIFEST.json'))['checks']))"); do
  /usr/bin/time -f "$p wall=%es" ./check $p --tier thorough 2>&1 | grep -E "^(VIOLATION|UNDECIDED|CHECKER|$p:|$p wall)" | cut -c1-200
done
