"""print the prompt given to a fresh sub-agent for property <ID> (property text only)"""
import json, sys
pid = sys.argv[1]; n = int(sys.argv[2]) if len(sys.argv) > 2 else 2
for l in open('/verif/properties.jsonl'):
    d = json.loads(l)
    if d['id'] == pid:
        break
wt = f"/tmp/wt_{pid}"
print(f"""You are helping to evaluate a verification tool for the open-source project PSyclone (a Python source-to-source Fortran compiler). Your job: produce {n} DIFFERENT small, realistic code changes ("seeded defects") to PSyclone that each BREAK the semantic property below while the code still imports and the existing test suite still passes.

PROPERTY ({pid}): {d['title']}
Statement: {d['statement']}
Quantifier: {d['quantifier']['text']}
Relevant source files (hints): {', '.join(d['anchors']['files'])}
Mechanisms (hints): {'; '.join(m['name']+' in '+m['where'] for m in d['anchors']['mechanism'])}

WORKSPACE: a scratch git worktree of the repository at {wt} (detached HEAD). Work ONLY there. Never touch /repo or /verif (do not even read /verif). Python: run code as
  cd {wt} && PYTHONPATH={wt}/src PSYCLONE_CONFIG={wt}/config/psyclone.cfg /venv/bin/python <script>
and tests as
  cd {wt} && PYTHONPATH={wt}/src PSYCLONE_CONFIG={wt}/config/psyclone.cfg /venv/bin/python -m pytest -q -p no:cacheprovider -n 4 <paths>
(there is no network; everything needed is installed; verify with `python -c "import psyclone; print(psyclone.__file__)"` that the worktree copy is the one imported).

REQUIREMENTS for each change:
1. It edits only files under {wt}/src/psyclone (NOT tests), is small (a few lines), and looks like a plausible maintenance slip (off-by-one, wrong comparison, dropped/reordered check, wrong table entry, wrong operator, missing case, stale cache, wrong variable), not sabotage.
2. It must need something SPECIFIC to manifest: an unusual input, a particular index/sign/edge value, a multi-step sequence of operations, a particular combination of options, or two cooperating sites that each look fine alone. Ordinary use should NOT expose it at once - and the existing test-suite must still pass. Run the test directories relevant to the files you touched first, and at the end run the full suite once per change: `... -m pytest -q -p no:cacheprovider -n 6 --timeout=900 src/psyclone/tests` (takes several minutes; report the final summary line). If a test fails because of your change, pick a different change.
3. A demonstration script demo.py (plain python using the psyclone API, exit code 0 = property holds on this input, exit code 1 = property violated) that exits 0 WITHOUT the change and exits 1 WITH it. The demo must exercise the real PSyclone code and check the property as stated, not an internal detail.
4. The two changes should break the property through different mechanisms/functions if possible.

DELIVERABLES: for change k (k=1..{n}) create directory {wt}/_seed/k/ containing: patch.diff (output of `git diff` for that change alone, relative to the unmodified HEAD, applicable with `git apply` from the repository root), demo.py, notes.md (what it breaks, what is needed to manifest, the exact commands you ran and their results incl. the test summary lines). After writing each patch, restore the tree (`git checkout -- src`) so that the worktree is clean at the end apart from _seed/. Finally reply with a short summary (one paragraph per change).""")
