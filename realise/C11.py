"""Realiser for C11: real VariablesAccessInfo on small statements with a
hand-stated list of names that must be reported as read."""


def run(name=""):
    from psyclone.psyir.frontend.fortran import FortranReader
    from psyclone.core import VariablesAccessInfo
    from psyclone.psyir.nodes import Routine
    cases = [
        ("n = len_trim(names(lens(k)))",
         "character(len=8) :: names(4)\n integer :: lens(4), k, n",
         {"names", "lens", "k"}),
        ("call relax(grid(ib)%tile(jt)%dat, n)",
         "use types_mod\n type(grid_type) :: grid(4)\n integer :: ib, jt, n",
         {"ib", "jt", "n"}),
        ("a(i) = b(j) + c", "real :: a(4), b(4), c\n integer :: i, j",
         {"b", "j", "c", "i"}),
        ("do i = lo, hi, st\n a(idx(i)) = 1.0\n end do",
         "real :: a(4)\n integer :: i, lo, hi, st, idx(4)",
         {"lo", "hi", "st", "idx", "i"}),
    ]
    for stmt, decls, must_read in cases:
        code = f"subroutine s()\n {decls}\n {stmt}\nend subroutine s\n"
        rt = FortranReader().psyir_from_source(code).walk(Routine)[0]
        vai = VariablesAccessInfo(rt.children)
        read = {str(s).split("%")[0] for s in vai.all_signatures
                if vai[s].is_read()}
        missing = must_read - read
        if missing:
            return {"confirmed": True, "input": {"statement": stmt},
                    "observed": f"{sorted(missing)} are read by the "
                    f"statement but not reported as read ({sorted(read)})"}
    # options given to the caller's collector must reach the collector of an
    # assignment's target: with COLLECT-ARRAY-SHAPE-READS an array that is
    # only inquired about in the target's index expression is read
    code = ("subroutine s()\n real :: a(4), b(4)\n"
            " a(size(b)) = 1.0\nend subroutine s\n")
    rt = FortranReader().psyir_from_source(code).walk(Routine)[0]
    vai = VariablesAccessInfo(rt.children,
                              options={"COLLECT-ARRAY-SHAPE-READS": True})
    names = {str(s) for s in vai.all_signatures}
    if "b" not in names:
        return {"confirmed": True,
                "input": {"statement": "a(size(b)) = 1.0",
                          "options": {"COLLECT-ARRAY-SHAPE-READS": True}},
                "observed": "with COLLECT-ARRAY-SHAPE-READS the array b "
                "inquired about in the index of the assigned element is "
                f"not reported ({sorted(names)}): the options of the "
                "caller's collector did not reach the target's collector"}
    return {"confirmed": False}
