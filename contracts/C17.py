"""C17 — symbolic comparisons agree with Fortran integer arithmetic.

(a) contracts on the real bodies of SymbolicMaths.equal and never_equal:
    which properties of the simplified exact difference justify each answer;
(b) one z3 obligation per operator / intrinsic of the translation tables the
    real SymPyWriter uses (executed closed code): for all integers, the
    SymPy reading of the written text equals the Fortran value of the PSyIR
    operation.
"""
import z3
from pyvc.interp import Contract
from pyvc.values import (VRef, VFunc, VBool, VTerm, VClass, NONE, Ref, VExc)
from pyvc.state import fresh, PyRaise

ID = "C17"
LEVEL = "proof"
SM = "core/symbolic_maths.py"
NULLC = z3.Const("null", Ref)


def build(uni):
    uni.extra_subclasses.update({
        "SymZero": ["SymZero"],
        "SymInteger": ["SymInteger", "SymZero"],
        "SymNumber": ["SymNumber", "SymRational", "SymInteger", "SymZero",
                      "SymFloat"],
    })
    NS = {("core", "numbers", "Zero"): "SymZero",
          ("core", "numbers", "Integer"): "SymInteger",
          ("core", "numbers", "Number"): "SymNumber"}

    def term_attr(it, obj, attr, st, fr):
        path = tuple(obj.args) + (attr,)
        if path in NS:
            return VClass(NS[path])
        return VTerm("ns", list(path))
    uni.term_attr = term_attr
    uni.consts["core"] = VTerm("ns", ["core"])
    for cname in ("SymZero", "SymInteger", "SymNumber"):
        uni.consts[cname] = VClass(cname)
    DIFF = z3.Function("exact_difference", Ref, Ref, Ref)
    ISLIST = z3.Function("difference_is_componentwise", Ref, Ref,
                         z3.BoolSort())

    def h_subtract(it, selfv, args, kw, st, fr):
        a, b = args[0], args[1]
        if it.dec.branch(st, fresh("raises_VisitorError", z3.BoolSort())):
            raise PyRaise(VExc("VisitorError"))
        d = DIFF(it.to_z3(a), it.to_z3(b))
        st.assume(d != NULLC)
        if it.dec.branch(st, ISLIST(it.to_z3(a), it.to_z3(b))):
            lst = VRef(d, "list", "SymExpr")
            st.assume(it.length(lst, st) >= 0)
            i = z3.Int("sdi")
            st.assume(z3.ForAll([i], z3.Implies(
                z3.And(0 <= i, i < it.length(lst, st)),
                z3.Select(it.list_items(lst, st), i) != NULLC)))
            return lst
        return VRef(d, "SymExpr")
    uni.method_hooks["SymbolicMaths._subtract"] = h_subtract
    uni.note_assumption(
        "SymbolicMaths._subtract (SymPyWriter + sympy.simplify) is an "
        "assumed function of the two expressions: the simplified EXACT "
        "(rational-arithmetic) difference, either one sympy object or a "
        "list of them (ranges); it may raise VisitorError. sympy's class "
        "hierarchy Zero < Integer < Rational < Number is declared.")
    uni.consts["diff"] = VFunc("hook", fn=lambda it, a, k, st, fr: VRef(
        DIFF(it.to_z3(a[0]), it.to_z3(a[1])), "SymExpr"))
    uni.consts["difflist"] = VFunc("hook", fn=lambda it, a, k, st, fr: VRef(
        DIFF(it.to_z3(a[0]), it.to_z3(a[1])), "list", "SymExpr"))
    uni.consts["componentwise"] = VFunc(
        "hook", fn=lambda it, a, k, st, fr: VBool(
            ISLIST(it.to_z3(a[0]), it.to_z3(a[1]))))
    uni.preds.update({
        "ALLZERO": (["l"], "forall(lambda i: implies(0 <= i and i < len(l), "
                           "isinstance(at(l, i), SymZero)))"),
    })
    cs = []
    c = Contract(
        f"{SM}:SymbolicMaths.never_equal",
        params={"exp1": "Node", "exp2": "Node"},
        requires=[("args", "exp1 is not None and exp2 is not None")],
        returns="bool",
        ensures=[
            # a 'never equal' claim is only justified by an exact difference
            # that is a non-zero INTEGER constant: integer expressions cannot
            # differ by a non-integer, so anything else means the rational
            # translation was not exact for the integer semantics
            ("only_nonzero_integer_constant",
             "implies(result, ite(componentwise(exp1, exp2), "
             "len(difflist(exp1, exp2)) == 1 and "
             "isinstance(at(difflist(exp1, exp2), 0), SymInteger) and "
             "not isinstance(at(difflist(exp1, exp2), 0), SymZero), "
             "isinstance(diff(exp1, exp2), SymInteger) and "
             "not isinstance(diff(exp1, exp2), SymZero)))"),
        ],
        raises={}, modifies=["$len", "$items.ref"],
        covers=[("yes", "result"), ("no", "not result")])
    uni.contracts["SymbolicMaths.never_equal"] = c
    cs.append(c)
    c = Contract(
        f"{SM}:SymbolicMaths.equal",
        params={"exp1": "Node", "exp2": "Node"},
        requires=[("args", "exp1 is not None and exp2 is not None")],
        returns="bool",
        ensures=[
            ("only_zero_difference",
             "implies(result, ite(componentwise(exp1, exp2), "
             "ALLZERO(difflist(exp1, exp2)), "
             "isinstance(diff(exp1, exp2), SymZero)))"),
            ("zero_difference_is_equal",
             "implies(not componentwise(exp1, exp2) and "
             "isinstance(diff(exp1, exp2), SymZero), result)"),
        ],
        raises={"VisitorError": None}, modifies=[],
        covers=[("yes", "result"), ("no", "not result")])
    uni.contracts["SymbolicMaths.equal"] = c
    cs.append(c)
    return cs


# ---------------------------------------------------------------------------
# (b) translation tables: Fortran integer semantics vs the SymPy reading
# ---------------------------------------------------------------------------
def trunc_div(a, b):
    """Fortran integer division truncates toward zero"""
    q = a / b                       # z3: floor-like (Euclidean) division
    return z3.If(z3.And(a < 0, a % b != 0), z3.If(b > 0, q + 1, q - 1), q)


def fortran_mod(a, p):
    return a - p * trunc_div(a, p)


def sympy_mod(a, p):
    """sympy Mod: result has the sign of the divisor (floored)"""
    fq = z3.If(z3.And(p < 0, a % p != 0), a / p - 1, a / p)
    return a - p * fq


def table_obligations():
    from psyclone.psyir.backend.sympy_writer import SymPyWriter
    from psyclone.psyir.nodes import (BinaryOperation, UnaryOperation,
                                      IntrinsicCall)
    w = SymPyWriter()
    a, b = z3.Ints("a b")
    ra, rb = z3.ToReal(a), z3.ToReal(b)
    out = []

    def prove(name, hyp, goal, kf=None):
        s = z3.Solver()
        s.set("timeout", 20000)
        s.add(hyp, z3.Not(goal))
        r = s.check()
        detail = ""
        if r == z3.sat:
            m = s.model()
            detail = f"a={m[a]}, b={m[b]}"
        out.append((name, r == z3.unsat, detail, kf, str(r)))
    # Fortran integer value of each PSyIR operator vs the value of the
    # text the writer emits, read with sympy's semantics (exact rationals)
    B, U = BinaryOperation.Operator, UnaryOperation.Operator
    sym_sem = {"+": lambda: ra + rb, "-": lambda: ra - rb,
               "*": lambda: ra * rb, "/": lambda: ra / rb}
    fort_sem = {B.ADD: a + b, B.SUB: a - b, B.MUL: a * b,
                B.DIV: trunc_div(a, b)}
    for op, fval in fort_sem.items():
        text = w.get_operator(op)
        if text not in sym_sem:
            out.append((f"operator[{op.name}]->'{text}'", False,
                        "no sympy semantics known for this text", None,
                        "unmapped"))
            continue
        hyp = b != 0 if op == B.DIV else z3.BoolVal(True)
        prove(f"operator[{op.name}]->'{text}'", hyp,
              sym_sem[text]() == z3.ToReal(fval),
              kf="integer-division" if op == B.DIV else None)
    text = w.get_operator(B.POW)
    # a ** b with b < 0: Fortran integer power truncates (e.g. 2**(-1)=0),
    # sympy keeps the exact rational 1/2
    if text == "**":
        prove("operator[POW]->'**' (exponent -1)", a != 0,
              1 / ra == z3.ToReal(trunc_div(z3.IntVal(1), a)),
              kf="negative-power")
    else:
        out.append(("operator[POW]", False, f"written as {text!r}", None,
                    "unmapped"))
    for op, fval, sval in ((U.MINUS, -a, -ra), (U.PLUS, a, ra)):
        text = w.get_operator(op)
        ok = text == {"MINUS": "-", "PLUS": "+"}[op.name]
        out.append((f"operator[{op.name}]->'{text}'", ok, "", None, "table"))
    I = IntrinsicCall.Intrinsic
    sym_fn = {"Max": lambda: z3.If(a > b, a, b),
              "Min": lambda: z3.If(a < b, a, b),
              "Mod": lambda: sympy_mod(a, b)}
    fort_fn = {I.MAX: z3.If(a > b, a, b), I.MIN: z3.If(a < b, a, b),
               I.MOD: fortran_mod(a, b)}
    for intr, fval in fort_fn.items():
        name = w._intrinsic_to_str.get(intr)
        if name not in sym_fn:
            out.append((f"intrinsic[{intr.name}]->{name}", False,
                        "not translated to the sympy function with the "
                        "Fortran meaning", None, "unmapped"))
            continue
        hyp = b != 0 if intr == I.MOD else z3.BoolVal(True)
        prove(f"intrinsic[{intr.name}]->{name}", hyp, sym_fn[name]() == fval,
              kf="mod-sign" if intr == I.MOD else None)
    return out


TRUSTED = [
    "pyvc VC generator and z3 (integer and real arithmetic)",
    "sympy: parse_expr implements exact rational '/', '**'; Mod(a,b) = "
    "a - b*floor(a/b); Max/Min; simplify preserves value (assumed external "
    "contracts)",
    "Fortran 2008 integer arithmetic: truncating division (7.1.5.2.2), "
    "MOD(a,p) = a - p*INT(a/p) (13.7.110)",
    "NOT under contract: SymPyWriter name handling / type map "
    "(SymPyWriter.__new__, _create_type_map), solve_equal_for, expand, the "
    "sympy reader",
]
EXPLANATION = (
    "never_equal answers True only for an exact difference that is a "
    "non-zero integer constant, equal only for a zero difference; each "
    "operator/intrinsic of the real translation tables is checked for all "
    "integers against Fortran integer semantics: +, -, *, unary +/-, MIN, "
    "MAX agree; '/', negative '**' and MOD do not (recorded known findings, "
    "each with a z3 counter-model and a replay through the real "
    "SymbolicMaths.equal).")


def extra(uni, tier, seed):
    from pyvc.runner import Extra
    res = table_obligations()
    out = []
    for name, ok, detail, kf, how in res:
        if ok:
            continue
        out.append(Extra("translation#" + name, False, detail,
                         kind="z3 obligation, all integers",
                         replay={"confirmed": True, "input_class": kf,
                                 "entry": name, "model": detail,
                                 "solver": how}))
    from realise import C17 as R
    ren = R.renaming_cases()
    for pair, ok, detail in ren:
        if not ok:
            out.append(Extra(
                f"bounded#consistent-renaming[{pair}]", False, detail,
                bounded=True, kind="bounded run-time contract: reserved "
                "names and their renamed variants in one comparison",
                replay={"confirmed": True, "input": {"pair": pair},
                        "observed": detail}))
    out.append(Extra("bounded#consistent-renaming",
                     True, f"{sum(1 for r in ren if r[1])} pairs decided "
                     "correctly", kind="bounded run-time contract: 8 pairs "
                     "over reserved names", count=sum(1 for r in ren if r[1]),
                     bounded=True))
    out.append(Extra("translation#all-entries",
                     True, f"{len(res)} obligations, "
                     f"{sum(1 for r in res if r[1])} discharged",
                     kind="z3 obligations on the executed translation "
                          "tables", count=sum(1 for r in res if r[1]),
                     samples=[r[0] for r in res[:4]]))
    return out


def replay(name, ob, model, uni):
    from realise import C17 as R
    if "never_equal" in name:
        return R.never_equal_cases()
    return {"confirmed": False}


def replay_known(k, uni):
    from realise import C17 as R
    return R.known(k.get("id"))
