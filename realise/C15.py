"""Bounded run-time contract for C15 on real copies."""


def _trees():
    from psyclone.psyir.frontend.fortran import FortranReader
    srcs = [
        ("subroutine s(a, n)\n integer :: n, i\n real :: a(n), tmp\n"
         " do i = 1, n\n  tmp = a(i)\n  a(i) = tmp + 1.0\n end do\n"
         "end subroutine s\n"),
        ("module m\n integer :: counter\ncontains\n subroutine s(b)\n"
         "  real :: b(10)\n  integer :: j\n  do j = 1, 10\n"
         "   b(j) = b(j) + counter\n  end do\n end subroutine s\n"
         "end module m\n"),
        ("subroutine t(x)\n use somemod\n real :: x\n integer, save :: it\n"
         " do it = 1, 3\n  x = x + Tmp_Sum\n end do\nend subroutine t\n"),
    ]
    for src in srcs:
        yield src, FortranReader().psyir_from_source(src)


def check_copy(orig):
    from psyclone.psyir.nodes import Reference, Loop, ScopingNode
    from psyclone.psyir.backend.fortran import FortranWriter
    cp = orig.copy()
    onodes = {id(n) for n in orig.walk(object)}
    for n in cp.walk(object):
        if id(n) in onodes:
            return "the copy shares a node with the original"
    if cp != orig:
        return "the copy is not equal to the original"
    from psyclone.psyir.nodes import Node
    for n in cp.walk(Node):
        if getattr(n, "_disable_tree_update", False):
            return ("tree updates are left disabled on a node of the copy "
                    f"({type(n).__name__})")
    # every symbol declared in a copied scope and used in the copy must be
    # the copy's own symbol
    osyms = {id(s) for sc in orig.walk(ScopingNode)
             for s in sc.symbol_table.symbols}
    for n in cp.walk((Reference, Loop)):
        sym = n.symbol if isinstance(n, Reference) else n.variable
        if id(sym) in osyms:
            return (f"'{sym.name}' used in the copy is the original's "
                    f"symbol object")
    w = FortranWriter()
    before_cp, before_or = w(cp), w(orig)

    def used_by_types(tree):
        """symbols referenced from datatypes / shapes / initial values of
        other symbols: the recorded known class, excluded here"""
        from psyclone.psyir.symbols import DataSymbol
        from psyclone.psyir.nodes import Node
        out = set()
        for sc in tree.walk(ScopingNode):
            for s in sc.symbol_table.symbols:
                dt = getattr(s, "datatype", None)
                prec = getattr(dt, "precision", None)
                if isinstance(prec, DataSymbol):
                    out.add(id(prec))
                for dim in getattr(dt, "shape", []) or []:
                    for b in (getattr(dim, "lower", None),
                              getattr(dim, "upper", None)):
                        if isinstance(b, Node):
                            for r in b.walk(Reference):
                                out.add(id(r.symbol))
                iv = getattr(s, "initial_value", None)
                if isinstance(iv, Node):
                    for r in iv.walk(Reference):
                        out.add(id(r.symbol))
        return out
    # renaming in the original must not show in the copy and vice versa
    for tree, other in ((orig, cp), (cp, orig)):
        text = w(other)
        skip = used_by_types(tree)
        for sc in tree.walk(ScopingNode):
            for s in list(sc.symbol_table.symbols):
                if id(s) in skip:
                    continue
                try:
                    sc.symbol_table.rename_symbol(s, s.name + "_rn")
                except Exception:     # noqa (arguments, imports ...)
                    continue
        if w(other) != text:
            return "renaming symbols in one tree changed the other's code"
    return None


def search():
    n = 0
    for src, tree in _trees():
        n += 1
        bad = check_copy(tree)
        if bad:
            return {"confirmed": True, "cases": n, "input_class": "other",
                    "input": {"source": src}, "observed": bad}
    return {"confirmed": False, "cases": n}


def known(kid):
    if kid != "types-share-symbols":
        return None
    from psyclone.psyir.frontend.fortran import FortranReader
    from psyclone.psyir.backend.fortran import FortranWriter
    from psyclone.psyir.nodes import Routine
    src = ("subroutine s()\n integer, parameter :: wp = 8, n = 4\n"
           " real(kind=wp) :: x(n)\n x(1) = 1.0_wp\nend subroutine s\n")
    rt = FortranReader().psyir_from_source(src).walk(Routine)[0]
    cp = rt.copy()
    before = FortranWriter()(cp)
    tab = rt.symbol_table
    tab.rename_symbol(tab.lookup("wp"), "dp")
    tab.rename_symbol(tab.lookup("n"), "m")
    return FortranWriter()(cp) != before
