"""C23 — LFRic shared-DoF increments are only parallelised over colours.

Contracts on the real bodies of
  PSyLoop.has_inc_arg                      (nested loops, invariants)
  DynamoOMPParallelLoopTrans.validate      (guard)
  Dynamo0p3OMPLoopTrans.validate           (guard)
  LFRicLoop.independent_iterations         (the path generic OpenACC/OpenMP
                                            loop transformations take)
  Dynamo0p3ColourTrans.apply               (no colouring under a parallel
                                            directive)
"""
import z3
from pyvc.interp import Contract, LoopSpec
from pyvc.values import VRef, VFunc, VBool, VClass, NONE, Ref, EnumDesc
from pyvc.state import fresh, PyRaise, Unsupported
from pyvc.values import VExc

ID = "C23"
LEVEL = "proof"
PL = "domain/common/psylayer/psyloop.py"
TR = "transformations.py"
LL = "domain/lfric/lfric_loop.py"
NULLC = z3.Const("null", Ref)


def build(uni):
    info = uni.repo.cls("AccessType", "core/access_type.py")
    members = [k for k in info.consts]
    uni.enums["AccessType"] = EnumDesc("AccessType", members)
    uni.fields.update({
        "_arguments": "Arguments", "_args": "list[Argument]",
        "_access": "enum:AccessType", "_loop_type": "str",
        "_field_space": "FunctionSpace", "_orig_name": "str",
        "_kern": "Kern", "VALID_DISCONTINUOUS_NAMES": "list[str]",
        "_is_reduction": "bool",
    })
    CK = z3.Function("coded_kernels_of", Ref, Ref)
    ANC_OMP = z3.Function("ancestor_omp_directive", Ref, Ref)
    ANC_ACC = z3.Function("ancestor_acc_directive", Ref, Ref)
    CONST = z3.Const("the_lfric_constants", Ref)

    def field_hook(attr, cls=None):
        def h(it, selfv, args, kw, st, fr):
            return it.getattr(VRef(selfv.e, "Obj_" + attr), attr, st, fr)
        return h

    AL0 = z3.Const("H0_$alloc", z3.ArraySort(Ref, z3.BoolSort()))

    def h_coded(it, selfv, args, kw, st, fr):
        # the list of kernels exists at entry (it is not a fresh object)
        st.assume(z3.Select(AL0, CK(selfv.e)))
        return VRef(CK(selfv.e), "list", "CodedKern")

    def h_consts(it, selfv, args, kw, st, fr):
        return NONE

    def h_ancestor(it, selfv, args, kw, st, fr):
        cls = args[0].name if isinstance(args[0], VClass) else None
        if cls == "OMPDirective":
            return VRef(ANC_OMP(selfv.e), "OMPDirective")
        raise Unsupported(f"ancestor({args[0]})")

    uni.method_hooks.update({
        "Node.coded_kernels": h_coded,
        "Kern.arguments": field_hook("_arguments"),
        "Arguments.args": field_hook("_args"),
        "Argument.access": field_hook("_access"),
        "PSyLoop.loop_type": field_hook("_loop_type"),
        "PSyLoop.field_space": field_hook("_field_space"),
        "PSyLoop.kernel": field_hook("_kern"),
        "FunctionSpace.orig_name": field_hook("_orig_name"),
        "Kern.is_reduction": field_hook("_is_reduction"),
        "Node.ancestor": h_ancestor,
        "LFRicConstants.__init__": h_consts,
    })
    uni.note_assumption(
        "assumed models (engine hooks): Node.coded_kernels() is a function "
        "of the node returning a list; Kern.arguments, Arguments.args, "
        "Argument.access, PSyLoop.loop_type/field_space/kernel, "
        "FunctionSpace.orig_name, Kern.is_reduction return the stored "
        "attribute; Node.ancestor(OMPDirective) is a function of the node; "
        "LFRicConstants().VALID_DISCONTINUOUS_NAMES is one fixed list")
    def h_K(it, a, k, st, fr):
        st.assume(z3.Select(AL0, CK(a[0].e)))
        return VRef(CK(a[0].e), "list", "CodedKern")
    uni.consts["K"] = VFunc("hook", fn=h_K)
    uni.consts["under_omp"] = VFunc("hook", fn=lambda it, a, k, st, fr: VBool(
        ANC_OMP(a[0].e) != NULLC))
    uni.consts["under_acc"] = VFunc("hook", fn=lambda it, a, k, st, fr: VBool(
        ANC_ACC(a[0].e) != NULLC))
    uni.preds.update({
        # the property's words: increment or read-then-increment access
        "INCISH": (["a"], "a._access == AccessType.INC or "
                          "a._access == AccessType.READINC"),
        "HASINC": (["lp"], "exists(lambda i, j: 0 <= i and i < len(K(lp)) "
                           "and 0 <= j and "
                           "j < len(at(K(lp), i)._arguments._args) and "
                           "INCISH(at(at(K(lp), i)._arguments._args, j)))"),
        "KWF": (["lp"], """
            K(lp) is not None and len(K(lp)) >= 0 and
            forall(lambda i: implies(0 <= i and i < len(K(lp)),
                at(K(lp), i) is not None and
                at(K(lp), i)._arguments is not None and
                at(K(lp), i)._arguments._args is not None and
                len(at(K(lp), i)._arguments._args) >= 0 and
                forall(lambda j: implies(0 <= j and
                    j < len(at(K(lp), i)._arguments._args),
                    at(at(K(lp), i)._arguments._args, j) is not None))))
            """),
        "DISC": (["lp"], "exists(lambda q: 0 <= q and "
                         "q < len(consts().VALID_DISCONTINUOUS_NAMES) and "
                         "at(consts().VALID_DISCONTINUOUS_NAMES, q) == "
                         "lp._field_space._orig_name)"),
    })
    uni.consts["consts"] = VFunc("hook", fn=lambda it, a, k, st, fr: VRef(
        CONST, "LFRicConstantsObj"))
    cs = []

    # ------------------------------------------------------------ has_inc_arg
    c = Contract(
        f"{PL}:PSyLoop.has_inc_arg", params={"self": "PSyLoop"},
        requires=[("kernels", "KWF(self)")], returns="bool",
        ensures=[("iff", "result == HASINC(self)")],
        raises={}, modifies=[],
        covers=[("true", "result"), ("false", "not result")])
    uni.contracts["PSyLoop.has_inc_arg"] = c
    uni.loopspecs["PSyLoop.has_inc_arg"] = {
        0: LoopSpec(invariants=[
            ("none_yet", "forall(lambda i, j: implies(0 <= i and i < _k and "
                         "0 <= j and "
                         "j < len(at(K(self), i)._arguments._args), "
                         "not INCISH(at(at(K(self), i)._arguments._args, "
                         "j))))"),
            ("iter", "_iter is K(self)")], modifies=[]),
        1: LoopSpec(invariants=[
            ("none_here", "forall(lambda j: implies(0 <= j and j < _k, "
                          "not INCISH(at(_iter, j))))"),
            ("iter", "_iter is kern_call._arguments._args")], modifies=[]),
    }
    cs.append(c)

    # the two LFRic OpenMP validators -------------------------------------
    def h_super_validate(it, selfv, args, kw, st, fr):
        flag = fresh("raises_TransformationError", z3.BoolSort())
        if it.dec.branch(st, flag):
            raise PyRaise(VExc("TransformationError"))
        return NONE
    uni.method_hooks["ParallelLoopTrans.validate"] = h_super_validate
    uni.method_hooks["OMPParallelLoopTrans.validate"] = h_super_validate
    uni.method_hooks["OMPLoopTrans.validate"] = h_super_validate
    uni.method_hooks["LoopTrans.validate"] = h_super_validate
    uni.method_hooks["ColourTrans.apply"] = h_super_validate
    uni.note_assumption(
        "the base-class validate()/apply() reached through super() may "
        "raise TransformationError or return, and change nothing the "
        "contracts speak about")

    def h_name(it, selfv, args, kw, st, fr):
        from pyvc.values import VStr, STR
        return VStr(fresh("name", STR))
    uni.method_hooks["Transformation.name"] = h_name

    def h_cfg(it, selfv, args, kw, st, fr):
        st.assume(z3.Const("the_config", Ref) != NULLC)
        return VRef(z3.Const("the_config", Ref), "ConfigObj")
    uni.method_hooks["Config.get"] = h_cfg
    uni.fields["reproducible_reductions"] = "bool"
    uni.fields["distributed_memory"] = "bool"

    class_consts = {"LFRicConstants": CONST}

    def construct_hook(it, cname, args, kw, st, fr):
        if cname in class_consts:
            st.assume(class_consts[cname] != NULLC)
            lst = st.read("VALID_DISCONTINUOUS_NAMES", class_consts[cname],
                          "ref")
            st.assume(lst != NULLC)
            return VRef(class_consts[cname], "LFRicConstantsObj")
        return None
    uni.construct_hook = construct_hook

    c = Contract(
        f"{TR}:DynamoOMPParallelLoopTrans.validate",
        params={"self": "DynamoOMPParallelLoopTrans", "node": "PSyLoop",
                "options": "none"},
        requires=[("kernels", "implies(node is not None, KWF(node))"),
                  ("space", "implies(node is not None and "
                            "isinstance(node, LFRicLoop), "
                            "node._field_space is not None)")],
        ensures=[("coloured_or_safe",
                  # from the property: an increment means colouring,
                  # whatever space the *loop* is associated with (GH_INC is
                  # only legal on continuous / unknown spaces)
                  "isinstance(node, LFRicLoop) and ("
                  "node._loop_type == 'colour' or not HASINC(node))")],
        raises={"TransformationError": None}, modifies=[],
        covers=[("accept_colour", "node._loop_type == 'colour' and "
                                  "HASINC(node)"),
                ("accept_noinc", "not HASINC(node) and "
                                 "node._loop_type == ''"),
                ("refuse", "raise:TransformationError")])
    uni.contracts["DynamoOMPParallelLoopTrans.validate"] = c
    cs.append(c)

    c = Contract(
        f"{TR}:Dynamo0p3OMPLoopTrans.validate",
        params={"self": "Dynamo0p3OMPLoopTrans", "node": "PSyLoop",
                "options": "none"},
        requires=[("kernels", "node is not None and KWF(node)")],
        ensures=[("coloured_or_safe",
                  "node._loop_type == 'colour' or not HASINC(node)")],
        raises={"TransformationError": None}, modifies=[],
        covers=[("accept_colour", "node._loop_type == 'colour' and "
                                  "HASINC(node)"),
                ("accept_noinc", "not HASINC(node) and "
                                 "node._loop_type == ''"),
                ("refuse", "raise:TransformationError")])
    uni.contracts["Dynamo0p3OMPLoopTrans.validate"] = c
    cs.append(c)

    # ------------------------------------------- LFRicLoop.independent_iterations
    def h_can_par(it, selfv, args, kw, st, fr):
        for exc in ("InternalError", "KeyError"):
            if it.dec.branch(st, fresh("raises_" + exc, z3.BoolSort())):
                raise PyRaise(VExc(exc))
        return VBool(fresh("can_par", z3.BoolSort()))
    uni.method_hooks["DependencyTools.can_loop_be_parallelised"] = h_can_par
    uni.method_hooks["DependencyTools._add_message"] = \
        lambda it, s, a, k, st, fr: NONE
    uni.method_hooks["DependencyTools.__init__"] = \
        lambda it, s, a, k, st, fr: NONE
    uni.method_hooks["Kern.name"] = h_name
    uni.note_assumption(
        "DependencyTools.can_loop_be_parallelised may return either answer "
        "or raise InternalError/KeyError (the generic analysis is C08's "
        "subject); _add_message has no effect on the contracts")
    c = Contract(
        f"{LL}:LFRicLoop.independent_iterations",
        params={"self": "LFRicLoop", "test_all_variables": "bool",
                "signatures_to_ignore": "none", "dep_tools": "none"},
        requires=[("kernels", "KWF(self)"),
                  ("kern", "self._kern is not None")],
        returns="bool",
        ensures=[
            # colours loops are never reported independent; a loop over
            # all cells ('' type) only if no kernel increments shared DoFs
            # -- unless the *generic* analysis already proved independence
            ("colours_serial", "implies(self._loop_type == 'colours' or "
                               "self._loop_type == 'null', not result)"),
            ("cells_need_no_inc",
             "implies(result and self._loop_type == '' and HASINC(self), "
             "generic_says_independent())"),
        ],
        raises={"InternalError": "not (self._loop_type == 'colours' or "
                "self._loop_type == 'null' or self._loop_type == 'colour' "
                "or self._loop_type == 'dof' or self._loop_type == '')"},
        modifies=[],
        covers=[("cells_true", "result and self._loop_type == ''"),
                ("cells_false", "not result and self._loop_type == '' and "
                                "HASINC(self)"),
                ("colour_true", "result and self._loop_type == 'colour'"),
                ("colours_false", "not result and "
                                  "self._loop_type == 'colours'")])
    # ghost: did the generic analysis answer True / raise on this path?
    uni.consts["generic_says_independent"] = VFunc(
        "hook", fn=lambda it, a, k, st, fr: VBool(z3.Bool("generic_ok")))

    def h_can_par2(it, selfv, args, kw, st, fr):
        g = z3.Bool("generic_ok")
        for exc in ("InternalError", "KeyError"):
            if it.dec.branch(st, fresh("raises_" + exc, z3.BoolSort())):
                st.assume(g)
                raise PyRaise(VExc(exc))
        r = fresh("can_par", z3.BoolSort())
        st.assume(r == g)
        return VBool(r)
    uni.method_hooks["DependencyTools.can_loop_be_parallelised"] = h_can_par2
    uni.contracts["LFRicLoop.independent_iterations"] = c
    cs.append(c)

    # ------------------------------------------------ Dynamo0p3ColourTrans.apply
    c = Contract(
        f"{TR}:Dynamo0p3ColourTrans.apply",
        params={"self": "Dynamo0p3ColourTrans", "node": "LFRicLoop",
                "options": "none"},
        requires=[("node", "node is not None and KWF(node) and "
                           "node._field_space is not None")],
        ensures=[("not_in_omp_region", "not under_omp(node)"),
                 # property: 'loops over colours are never placed inside a
                 # parallel region' -- OpenACC regions included (the code
                 # does not look: recorded known finding)
                 ("not_in_acc_region", "not under_acc(node)"),
                 ("cells_only", "node._loop_type == ''"),
                 ("continuous", "not DISC(node)")],
        raises={"TransformationError": None}, modifies=[],
        covers=[("accept", "HASINC(node)"),
                ("refuse", "raise:TransformationError")])
    uni.contracts["Dynamo0p3ColourTrans.apply"] = c
    cs.append(c)
    return cs


TRUSTED = [
    "pyvc VC generator and z3",
    "accessor properties and tree queries as engine hooks (listed in the "
    "assumptions)",
    "NOT under contract: ParallelLoopTrans.validate (refusal of 'colours' "
    "loops), ParallelRegionTrans.validate, ACC transformations' own "
    "bodies; the invoke-level induction over transformation sequences",
]
EXPLANATION = (
    "has_inc_arg is verified to return exactly 'some kernel argument has "
    "increment or read-then-increment access'; the two LFRic OpenMP loop "
    "validators accept a loop only if it is over a single colour, or has no "
    "such argument (or, for the parallel-loop variant, iterates over a "
    "discontinuous space); LFRicLoop.independent_iterations, which the "
    "generic OpenACC/OpenMP loop transformations consult, never reports a "
    "'colours' loop independent and reports a loop over all cells "
    "independent only without such an argument unless the generic analysis "
    "itself proved independence; Dynamo0p3ColourTrans.apply refuses inside "
    "an OpenMP directive, for non-cell loops and discontinuous spaces.")


def replay(name, ob, model, uni):
    from realise import C23 as R
    rp = R.run()
    if not rp.get("confirmed"):
        rp = R.special_kernels()
    if not rp.get("confirmed"):
        rp = R.fused_loop()
    return rp


def replay_known(k, uni):
    from realise import C23 as R
    if k.get("id") == "colour-inside-acc-parallel":
        return R.colour_inside_acc()
    return None
