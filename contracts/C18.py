"""C18 — line-length limiting keeps the program and respects the limit.

Contracts on the real code of src/psyclone/line_length.py:
find_break_point (all strings, all key lists), FortLineLength._get_line_type
(regex classification) and FortLineLength.process (length bound, unchanged
short text, termination, exceptions).
"""
import z3
from pyvc.interp import Contract, LoopSpec
from pyvc.values import VFunc, STR, INT, BOOL

ID = "C18"
LEVEL = "proof"
LL = "line_length.py"

FNW = "(len(line) - len(line.lstrip()))"
SPLIT = "fortran_in.split('\\n')"
PREDS = {
    "NOKEY": (["k"], f"line.rfind(k, {FNW} + 1, max_index) <= 0"),
    "SHORT_UPTO": (["lst", "n"], "forall(lambda i: implies(0 <= i and i < n, "
                                 "len(at(lst, i)) <= self._line_length))"),
}


def build(uni):
    uni.fields.update({"_line_length": "int"})
    uni.preds.update(PREDS)
    lines_ok = uni.uf("lines_ok", ["str", "int"], "bool")
    uni.consts["lines_ok"] = VFunc("uf", name="lines_ok",
                                   argtags=["str", "int"], ret="bool")
    uni.consts["join_prefix"] = VFunc("uf", name="join_prefix",
                                      argtags=["ref", "int"], ret="str")
    nonl = uni.uf("nonl", ["str"], "bool")
    uni.consts["nonl"] = VFunc("uf", name="nonl", argtags=["str"],
                               ret="bool")
    a, b = z3.Strings("a b")
    i, n = z3.Ints("i n")
    lim = z3.Int("lim")
    nl = z3.StringVal("\n")
    uni.axioms.append(z3.ForAll([lim], lines_ok(z3.StringVal(""), lim)))
    for shape in (lambda: z3.Concat(a, b, nl),
                  lambda: z3.Concat(a, z3.Concat(b, nl)),
                  lambda: z3.Concat(z3.Concat(a, b), nl)):
        t = shape()
        uni.axioms.append(z3.ForAll([a, b, lim], z3.Implies(
            z3.And(lines_ok(a, lim), nonl(b), z3.Length(b) <= lim),
            lines_ok(t, lim)), patterns=[lines_ok(t, lim)]))
    # nonl(s): 's contains no newline' -- closure facts
    uni.axioms.append(z3.ForAll([a, i, n], z3.Implies(
        nonl(a), nonl(z3.SubString(a, i, n))),
        patterns=[nonl(z3.SubString(a, i, n))]))
    uni.axioms.append(z3.ForAll([a, b], z3.Implies(
        z3.And(nonl(a), nonl(b)), nonl(z3.Concat(a, b))),
        patterns=[nonl(z3.Concat(a, b))]))
    uni.axioms.append(nonl(z3.StringVal("")))
    info = uni.repo.cls("FortLineLength", LL)
    import ast as _ast
    for node in _ast.walk(info.node):
        if isinstance(node, _ast.Constant) and isinstance(node.value, str) \
                and len(node.value) < 40 and "\n" not in node.value:
            uni.axioms.append(nonl(z3.StringVal(node.value)))
    uni.note_assumption(
        "nonl(s) ('s contains no newline') is an uninterpreted predicate "
        "with its closure facts: substrings and concatenations of "
        "newline-free strings are newline-free; the elements of "
        "s.split('\\n') are newline-free; literal strings without a "
        "newline are newline-free (checked on the literals of the class)")
    uni.note_assumption(
        "lines_ok(s, L) ('s is a sequence of newline-terminated lines of "
        "length <= L') is an uninterpreted predicate with its two defining "
        "closure facts: lines_ok('') and lines_ok(a) & no-newline(b) & "
        "|b|<=L => lines_ok(a+b+'\\n')")
    from pyvc.regex import match_prefix
    from pyvc.values import VStr, VBool
    import re as _re
    uni.consts["OMP"] = VStr(r"^\s*!\$omp")
    uni.consts["ACC"] = VStr(r"^\s*!\$acc")
    uni.consts["BANG"] = VStr(r"^\s*!")
    uni.consts["re_match"] = VFunc(
        "hook", fn=lambda it, args, kw, st, fr: VBool(match_prefix(
            it.concrete(args[0]), _re.I, args[1].e)))
    cs = []

    # ---------------------------------------------------- find_break_point
    c = Contract(
        f"{LL}:find_break_point", name="find_break_point",
        params={"line": "str", "max_index": "int", "key_list": "list[str]"},
        requires=[("args", "0 <= max_index and key_list is not None and "
                           "len(key_list) >= 0"),
                  ("keys", "forall(lambda q: implies(0 <= q and "
                           "q < len(key_list), len(at(key_list, q)) >= 1))")],
        returns="int",
        ensures=[
            ("bounds", "2 <= result and result <= max_index and "
                       "result <= len(line)"),
            ("at_key", f"exists(lambda q: 0 <= q and q < len(key_list) and "
                       f"result - len(at(key_list, q)) > {FNW} and "
                       f"substr(line, result - len(at(key_list, q)), "
                       f"len(at(key_list, q))) == at(key_list, q) and "
                       f"forall(lambda p: implies(0 <= p and p < q, "
                       f"NOKEY(at(key_list, p)))))"),
        ],
        raises={"InternalError": ("iff",
                "forall(lambda q: implies(0 <= q and q < len(key_list), "
                "NOKEY(at(key_list, q))))")},
        modifies=[],
        # callers (process) only rely on the bounds
        call_ensures=["bounds"], call_raises={"InternalError": None})
    uni.contracts["standalone:find_break_point"] = c
    uni.contracts["find_break_point"] = c
    uni.loopspecs["find_break_point"] = {0: LoopSpec(invariants=[
        ("none_yet", "forall(lambda p: implies(0 <= p and p < _k, "
                     "line.rfind(at(key_list, p), first_non_whitespace + 1, "
                     "max_index) <= 0))"),
        ("fnw", f"first_non_whitespace == {FNW}")], modifies=[])}
    cs.append(c)

    # ------------------------------------------------------ _get_line_type
    c = Contract(
        f"{LL}:FortLineLength._get_line_type",
        params={"self": "FortLineLength", "line": "str"}, returns="str",
        ensures=[
            ("total", "result == 'statement' or result == 'openmp_directive'"
                      " or result == 'openacc_directive' or "
                      "result == 'comment' or result == 'unknown'"),
            # free-form source: a line whose first non-blank character is
            # '!' is a comment line, unless it starts with a directive
            # sentinel (OpenMP 5.0 s2.1.2 / OpenACC 3.0 s2.1: sentinel
            # followed by anything, including the continuation '&')
            ("omp", "(result == 'openmp_directive') == re_match(OMP, line)"),
            ("acc", "(result == 'openacc_directive') == re_match(ACC, line)"),
            ("comment", "(result == 'comment') == (re_match(BANG, line) and "
                        "not re_match(OMP, line) and "
                        "not re_match(ACC, line))"),
            ("code", "(result == 'statement' or result == 'unknown') == "
                     "(not re_match(BANG, line))"),
        ], raises={}, modifies=[], call_ensures=["total"])
    uni.contracts["FortLineLength._get_line_type"] = c
    cs.append(c)

    # ------------------------------------------------------------- process
    c = Contract(
        f"{LL}:FortLineLength.process",
        params={"self": "FortLineLength", "fortran_in": "str"},
        requires=[("limit", "40 <= self._line_length and "
                            "self._line_length <= 132")],
        returns="str",
        ensures=[
            ("limit", "lines_ok(result + '\\n', self._line_length)"),
            ("short_unchanged",
             f"implies(SHORT_UPTO({SPLIT}, len({SPLIT})), "
             f"result == fortran_in)"),
        ],
        # KNOWN FINDING: a long line without any break key in the window
        raises={"InternalError": None}, modifies=[])
    uni.contracts["FortLineLength.process"] = c
    INV = [("ok", "lines_ok(fortran_out, self._line_length)"),
           ("nl", "fortran_out == '' or fortran_out.endswith('\\n')")]
    uni.loopspecs["FortLineLength.process"] = {
        0: LoopSpec(invariants=INV + [
            ("nonempty", "implies(_k > 0, len(fortran_out) > 0)"),
            ("same", "implies(SHORT_UPTO(_iter, _k), "
                     "fortran_out == join_prefix(_iter, _k))")],
            modifies=[]),
        1: LoopSpec(invariants=INV + [
            ("line", "nonl(line)"),
            ("bp", "len(fortran_out) > 0")],
            modifies=[], decreases="len(line)"),
    }
    cs.append(c)
    return cs
