"""OpenACC data-region execution model for C13 (bounded part).  The region
wrapped by the real ACCDataTrans is executed on a separate "device memory":
arrays named in copyin / copy start as copies of the host arrays, every other
array is undefined on the device; after the region the arrays named in
copyout / copy are copied back element by element (undefined elements
poison the host).  Scalars are taken from the host (OpenACC copies them
implicitly to compute constructs).  The statement evaluator is the one of
realise/omp_model.py."""
import re

N = 6
HEAD = """subroutine s(a, b, c, d, n)
  integer, intent(in) :: n
  real, intent(inout) :: a(6), b(6), c(6), d(6)
  real :: t
  integer :: i
"""

PROGRAMS = {
    "full-write-then-read":
        "  do i = 1, 6\n    a(i) = c(i) * 2.0\n  end do\n"
        "  do i = 1, 6\n    b(i) = a(i) + d(i)\n  end do\n",
    "read-modify-write":
        "  do i = 1, 6\n    a(i) = a(i) + c(i)\n  end do\n",
    "read-only-and-write-only":
        "  do i = 1, 6\n    b(i) = c(i) - d(i)\n  end do\n",
    "scalar-temporary":
        "  do i = 1, 6\n    t = c(i) * 0.5\n    a(i) = t + d(i)\n  end do\n",
    "conditional-full-write":
        "  do i = 1, 6\n    if (c(i) > 2.0) then\n      a(i) = c(i)\n"
        "    else\n      a(i) = d(i)\n    end if\n  end do\n",
    "partial-first-write":
        "  a(1) = 0.0\n  do i = 1, 6\n    b(i) = a(i)\n  end do\n",
    "partial-write-only":
        "  do i = 1, 3\n    a(i) = c(i)\n  end do\n",
    "conditional-write-only":
        "  do i = 1, 6\n    if (c(i) > 2.0) then\n      a(i) = d(i)\n"
        "    end if\n  end do\n",
}


def clauses(text):
    out = {"copyin": [], "copyout": [], "copy": []}
    for line in text.splitlines():
        low = line.strip().lower()
        if not low.startswith("!$acc data"):
            continue
        for key in out:
            for m in re.finditer(r"(?<![a-z])" + key + r"\(([^)]*)\)", low):
                out[key] += [x.strip() for x in m.group(1).split(",")
                             if x.strip()]
    return out


def run_case(cid):
    """(verdict, detail, source): refused / equal / differs"""
    from psyclone.psyir.backend.fortran import FortranWriter
    from psyclone.psyir.frontend.fortran import FortranReader
    from psyclone.psyir.nodes import ACCDataDirective, Routine
    from psyclone.transformations import ACCDataTrans, TransformationError
    from realise import omp_model as M
    M.QUIET = True
    src = HEAD + PROGRAMS[cid] + "end subroutine s\n"
    psy = FortranReader().psyir_from_source(src)
    rt = psy.walk(Routine)[0]

    def inputs():
        vec = lambda f: M.array((N,), f)      # noqa: E731
        return dict(a=vec(lambda i: 10.0 + i), b=vec(lambda i: 20.0 + i),
                    c=vec(lambda i: float(i)), d=vec(lambda i: 0.5 * i),
                    n=N, t=-1.0, i=0)
    want = M.run_serial(rt, inputs())
    try:
        ACCDataTrans().apply(rt.children)
    except TransformationError as err:
        return "refused", str(err.value)[-150:], src
    text = FortranWriter()(psy)
    cl = clauses(text)
    host = inputs()
    arrays = [k for k, v in host.items() if isinstance(v, dict)]
    for child in rt.children:
        if not isinstance(child, ACCDataDirective):
            M.drain(M.run(child, M.Thread(0, M.Env(host), None)))
            continue
        device = {k: v for k, v in host.items() if not isinstance(v, dict)}
        for name in arrays:
            device[name] = dict(host[name]) \
                if name in cl["copyin"] + cl["copy"] else {}
        thread = M.Thread(0, M.Env(device), None)
        try:
            for stmt in child.dir_body.children:
                M.drain(M.run(stmt, thread))
        except RuntimeError as err:
            return "differs", f"the region cannot run on the device: {err} "\
                f"(clauses {cl})", src
        for name in arrays:
            if name in cl["copyout"] + cl["copy"]:
                host[name] = {idx: device[name].get(idx, M.UNDEF)
                              for idx in host[name]}
        for k, v in device.items():
            if not isinstance(v, dict):
                host[k] = v
    bad = [k for k in arrays if host[k] != want[k]]
    if bad:
        return "differs", (f"host arrays {bad} differ from the host-only "
                           f"run with the generated clauses {cl}"), src
    return "equal", f"clauses {cl}", src


def cases():
    return [(cid,) + run_case(cid) for cid in PROGRAMS]


def edited_region_cases():
    """The clauses PSyclone generates are the ones of the region as it is
    when the code is written: a data region is created, then its body is
    edited (a statement reading a further array and writing another is
    added) - in the original tree and in a copy of the tree - and the
    written directive must move the newly used arrays.
    Yields (case id, ok, detail)."""
    from psyclone.psyir.frontend.fortran import FortranReader
    from psyclone.psyir.backend.fortran import FortranWriter
    from psyclone.psyir.nodes import Routine, ACCDataDirective, Assignment
    from psyclone.transformations import ACCDataTrans
    src = ("subroutine s(a, b, c, d)\n  real, intent(inout) :: a(6), b(6), "
           "c(6), d(6)\n  integer :: i\n  do i = 1, 6\n    a(i) = b(i)\n"
           "  end do\n  do i = 1, 6\n    d(i) = c(i)\n  end do\n"
           "end subroutine s\n")
    for where in ("original", "copy", "copy-of-copy"):
        psyir = FortranReader().psyir_from_source(src)
        rt = psyir.walk(Routine)[0]
        ACCDataTrans().apply(rt.children[0])
        tree = psyir
        for _ in range({"original": 0, "copy": 1, "copy-of-copy": 2}[where]):
            tree = tree.copy()
        rt2 = tree.walk(Routine)[0]
        region = rt2.walk(ACCDataDirective)[0]
        second = [n for n in rt2.children if n is not region][0]
        region.dir_body.addchild(second.detach())
        text = FortranWriter()(tree).lower()
        line = [ln for ln in text.split("\n") if "!$acc data" in ln]
        line = line[0] if line else ""
        import re
        moved = {}
        for kind, names in re.findall(r"(copyin|copyout|copy)\(([^)]*)\)",
                                      line):
            for nm in names.split(","):
                moved[nm.strip()] = kind
        ok = moved.get("c") in ("copyin", "copy") and \
            moved.get("d") in ("copyout", "copy") and \
            moved.get("b") in ("copyin", "copy") and \
            moved.get("a") in ("copyout", "copy")
        yield (where, ok, f"data region over 'a(i) = b(i)' created, then "
               f"the loop 'd(i) = c(i)' moved into it in the {where} tree; "
               f"written directive: '{line.strip()}'")
