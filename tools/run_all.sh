#!/bin/sh
# run every registered quick check on the current tree; print one line each
cd /verif
for p in $(.venv/bin/python -c "import json; print(' '.join(c['property_id'] for c in json.load(open('MANIFEST.json'))['checks']))"); do
  ./check $p --tier quick 2>&1 | grep -E "^(VIOLATION|UNDECIDED|CHECKER|$p:)" | cut -c1-200
done
# CPython cross-check of the engine's container / arithmetic models
.venv/bin/python tools/selftest.py 2>&1 | grep -E "^(selftest|  DISAGREE)" | cut -c1-200
