"""Replays for C17 through the real SymbolicMaths on parsed expressions,
evaluated with Fortran integer semantics at a concrete valuation."""


def _exprs(src1, src2, names="n"):
    from psyclone.psyir.frontend.fortran import FortranReader
    from psyclone.psyir.nodes import Assignment
    code = (f"subroutine s()\ninteger :: {names}, x1, x2\n"
            f"x1 = {src1}\nx2 = {src2}\nend subroutine s\n")
    psyir = FortranReader().psyir_from_source(code)
    a1, a2 = psyir.walk(Assignment)[:2]
    return a1.rhs, a2.rhs


def known(kid):
    from psyclone.core import SymbolicMaths
    sm = SymbolicMaths.get()
    if kid == "integer-division":
        e1, e2 = _exprs("n/2*2", "n")
        return sm.equal(e1, e2) is True        # differs for n = 1: 0 vs 1
    if kid == "mod-sign":
        e1, e2 = _exprs("mod(n,3)", "mod(n+3,3)")
        return sm.equal(e1, e2) is True        # n = -1: -1 vs 2
    if kid == "negative-power":
        e1, e2 = _exprs("2**(-1)*2", "1")
        return sm.equal(e1, e2) is True        # Fortran: 0 vs 1
    return None
