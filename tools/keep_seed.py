#!/usr/bin/env python3
"""tools/keep_seed.py <PROP> <k> <seed-id> '<needs>' '<caught-by>' : copy an
independently produced, self-confirmed breaking change into /verif/seeded."""
import json, os, shutil, sys
prop, k, sid, needs, caught = sys.argv[1:6]
src = f"/tmp/seed/{prop}/out"
dst = f"/verif/seeded/{sid}"
os.makedirs(dst, exist_ok=True)
shutil.copy(f"{src}/patch_{k}.diff", f"{dst}/patch.diff")
shutil.copy(f"{src}/demo_{k}.py", f"{dst}/demo.py")
if os.path.exists(f"{src}/notes_{k}.md"):
    shutil.copy(f"{src}/notes_{k}.md", f"{dst}/notes.md")
meta = {"property": prop, "seed": sid,
        "needs_to_manifest": needs,
        "produced_by": "independent sub-agent given only the property text and a scratch worktree",
        "confirmed": {"demo_without_change": "exit 0", "demo_with_change": "exit 1",
                      "tests_with_change": "relevant test directories pass (see notes.md for the full-suite run)"},
        "ran": [f"tools/confirm_seed.sh <worktree> patch.diff demo.py <tests>",
                f"tools/try_seed.sh {prop} seeded/{sid}/patch.diff"],
        "check_result": caught}
json.dump(meta, open(f"{dst}/meta.json", "w"), indent=1)
print("kept", dst)
