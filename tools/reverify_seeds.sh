#!/bin/sh
# tools/reverify_seeds.sh: apply every kept seeded change to /repo in turn, run
# the property's quick check, undo the change; one line per seed.
cd /verif
for d in seeded/*/; do
  s=$(basename $d); p=$(echo $s | cut -c1-3)
  patch=/verif/$d/patch.diff
  [ -f /verif/$d/patch_rebased.diff ] && patch=/verif/$d/patch_rebased.diff
  cd /repo
  if ! git apply --check $patch 2>/dev/null; then echo "$s: patch does not apply"; cd /verif; continue; fi
  git apply $patch
  cp /verif/evidence/$p.json /verif/.work/evidence_$p.bak 2>/dev/null
  out=$(/verif/check $p 2>&1 | grep -E "^(VIOLATION|$p:)" )
  git -C /repo checkout -- .
  cp /verif/.work/evidence_$p.bak /verif/evidence/$p.json 2>/dev/null
  cd /verif
  nv=$(echo "$out" | grep -c "^VIOLATION")
  ex=$(echo "$out" | grep "^$p:" | sed 's/.*exit=\([0-9]\).*/\1/')
  echo "$s: exit=$ex violations=$nv $(echo "$out" | grep '^VIOLATION' | head -1 | sed 's/.*replays\///' | cut -c1-90)"
done
git -C /repo status --short
