"""Realiser / bounded run-time contract for C18 on the real FortLineLength.

Used (a) to confirm counter-models of failed obligations with a concrete
input, (b) as the bounded stand-in for the clause that is not under a
deductive contract (content preservation of wrapped lines), (c) to show that
the recorded known findings still reproduce.
"""
import itertools
import re


def _mk():
    from psyclone import line_length
    return line_length


CONT = {"statement": ("&", "&"), "unknown": ("&", "&"),
        "openmp_directive": ("!$omp& ", " &"),
        "openacc_directive": ("!$acc& ", " &"),
        "comment": ("!& ", "")}


def spec_type(line):
    """free-form classification from the standards (not from the code):
    first non-blank '!' => comment unless it opens a directive sentinel"""
    s = line.lstrip(" \t\n\r\x0b\x0c")
    if s[:5].lower() == "!$omp":
        return "openmp_directive"
    if s[:5].lower() == "!$acc":
        return "openacc_directive"
    if s[:1] == "!":
        return "comment"
    return "code"


def join_continuations(out_lines, kind):
    """undo the wrapping: strip the continuation markers of `kind`"""
    c_start, c_end = CONT[kind]
    text = ""
    for n, ln in enumerate(out_lines):
        body = ln
        if n > 0:
            if not body.startswith(c_start):
                return None
            body = body[len(c_start):]
        if n < len(out_lines) - 1:
            if c_end and not body.endswith(c_end):
                return None
            if c_end:
                body = body[:-len(c_end)]
        text += body
    return text


def check_line(line, limit):
    """None if the contract holds for this one-line input, else text;
    ('KF', text) for the recorded no-break-key failure class."""
    ll = _mk()
    from psyclone.errors import InternalError
    fll = ll.FortLineLength(limit)
    kind_code = fll._get_line_type(line)
    want = spec_type(line)
    if want == "code":
        if kind_code not in ("statement", "unknown"):
            return f"line classified {kind_code}, spec says code"
    elif kind_code != want:
        return f"line classified {kind_code}, spec says {want}"
    calls = []
    orig = ll.find_break_point

    def spy(ln, max_index, keys):
        calls.append((ln, max_index, list(keys)))
        return orig(ln, max_index, keys)
    ll.find_break_point = spy
    try:
        try:
            out = fll.process(line)
        finally:
            ll.find_break_point = orig
    except InternalError as err:
        if len(line) <= limit:
            return f"InternalError on a short line: {err}"
        ln, mx, keys = calls[-1]
        first = len(ln) - len(ln.lstrip())
        if all(ln.rfind(k, first + 1, mx) <= 0 for k in keys):
            return ("KF", "no break key in the window")
        return f"InternalError although a key was available: {err}"
    except Exception as err:      # noqa
        return f"raised {type(err).__name__}: {err}"
    outs = out.split("\n")
    for o in outs:
        if len(o) > limit:
            return f"output line of {len(o)} > {limit} characters: {o!r}"
    if len(line) <= limit:
        if out != line:
            return "short line changed"
        return None
    if fll.process(out) != out:
        return "not idempotent"
    joined = join_continuations(outs, kind_code)
    if joined is None:
        return f"continuation markers missing in {outs!r}"
    if joined != line and joined != line.lstrip():
        return f"content changed: {joined!r} != {line!r}"
    return None


def corpus(tier):
    heads = ["", "  ", "call ", "!$omp parallel do ", "!$acc& copyin(",
             "!$omp& private(", "! ", "      ", "integer :: ", "!$ACC kernels "]
    toks = ["a", "bb, ", "ccc,", "dd ", "e=f+g", "(hh)", "x%y", "'s t'",
            ". "]
    lines = []
    reps = (6, 14) if tier == "quick" else (4, 6, 9, 14, 22)
    for h in heads:
        for t in toks:
            for r in reps:
                lines.append(h + t * r)
                lines.append(h + ("zz" * 9 + t) * max(2, r // 3))
    for ind in (38, 39, 41, 45, 59, 61):
        lines.append(" " * ind + "call sub(arg1, arg2, arg3)")
        lines.append(" " * ind + "x = 1")
    return lines


def search(tier="quick", limits=None):
    limits = limits or ((40, 41, 60, 132) if tier == "quick"
                        else (40, 41, 45, 60, 72, 80, 100, 131, 132))
    n = kf = 0
    for limit in limits:
        # the strip-indentation-and-retry path: keys ending around the limit
        edge = []
        for ind in (limit - 1, limit + 5):
            for head, key in (("call s(", ", "), ("!$omp do p(", " "),
                              ("! c", ". "), ("x=f(", ",")):
                for end in (limit - 2, limit - 1, limit, limit + 1):
                    fill = end - len(head) - len(key)
                    if fill > 0:
                        edge.append(" " * ind + head + "a" * fill + key +
                                    "b" * 12 + ")")
        for line in corpus(tier) + edge:
            for pad in (0, limit - len(line) - 1, limit - len(line),
                        limit - len(line) + 1):
                if pad < 0:
                    continue
                text = line + "q" * pad if pad else line
                n += 1
                bad = check_line(text, limit)
                if isinstance(bad, tuple):
                    kf += 1
                    continue
                if bad:
                    return {"confirmed": True, "cases": n,
                            "input": {"line": text, "limit": limit},
                            "observed": bad}
    return {"confirmed": False, "cases": n, "known_class_hits": kf}


def known_nokey():
    """long line with no break key in the window -> InternalError"""
    r = check_line("call foo('" + "a" * 80 + "')", 60)
    return isinstance(r, tuple) and r[0] == "KF"


def known_trailing_comment():
    """a statement with a trailing comment is wrapped with code
    continuation markers inside the comment"""
    ll = _mk()
    line = "x = y + 1 ! " + "word " * 20
    out = ll.FortLineLength(60).process(line).split("\n")
    return len(out) > 1 and out[1].startswith("&") and "!" not in out[1]
