"""C26 — a rejected transformation leaves the code unchanged.

Deductive part, for the composite LoopTiling2DTrans (whose apply() runs
sub-transformations one after the other, so a refusal by a later one would
leave the earlier ones applied):
  LoopTiling2DTrans.validate  returns normally only if LoopSwapTrans accepts
      the nest and ChunkLoopTrans accepts BOTH loops with the chunk size
      that apply() is going to use (the requested tile size, 32 by default)
  LoopTiling2DTrans.apply     calls validate first, and every
      ChunkLoopTrans.apply it then performs has been validated with exactly
      the options it is given (call-site obligation on the sub-apply)
BOUNDED part (never counted as proved): every transformation class that can
be constructed without arguments is applied to every node of five small
programs under five option sets; whenever apply() raises, the written code
and the symbol-table view must equal those before the attempt.
"""
import z3
from pyvc.interp import Contract
from pyvc.values import (VRef, VFunc, VBool, VInt, NONE, Ref, VExc)
from pyvc.state import PyRaise

ID = "C26"
LEVEL = "proof"
TILE = "psyir/transformations/loop_tiling_2d_trans.py"
NULLC = z3.Const("null", Ref)
BOOL = z3.BoolSort()
INT = z3.IntSort()


def build(uni):
    uni.exact_fstrings = False
    uni.fields.update({"_children": "list[Loop]", "_parent": "Schedule"})
    AL0 = z3.Const("H0_$alloc", z3.ArraySort(Ref, BOOL))
    CHUNKOK = z3.Function("chunk_trans_accepts", Ref, INT, BOOL)
    SWAPOK = z3.Function("swap_trans_accepts", Ref, BOOL)
    BODY = z3.Function("loop_body_of", Ref, Ref)
    x = z3.Const("ax", Ref)
    uni.axioms.append(z3.ForAll([x], z3.And(
        BODY(x) != NULLC, z3.Select(AL0, BODY(x))), patterns=[BODY(x)]))

    def field_hook(attr):
        def h(it, selfv, args, kw, st, fr):
            return it.getattr(VRef(selfv.e, "Obj"), attr, st, fr)
        return h

    def chunk_size(it, kw, st, fr):
        opts = kw.get("options")
        if opts is None:
            return z3.IntVal(32)
        got = it.call(it.getattr(opts, "get", st, fr),
                      [it.lift("chunksize"), VInt(z3.IntVal(32))], {}, st,
                      fr, None)
        return it.as_int(got)

    def h_chunk_validate(it, selfv, args, kw, st, fr):
        cs = chunk_size(it, kw, st, fr)
        if it.dec.branch(st, CHUNKOK(args[0].e, cs)):
            return NONE
        raise PyRaise(VExc("TransformationError"))

    def h_chunk_apply(it, selfv, args, kw, st, fr):
        cs = chunk_size(it, kw, st, fr)
        # the sub-transformation must not be able to refuse: its validate
        # has accepted this node with these options
        it.oblige(fr, st, "callpre", "ChunkLoopTrans.apply.validated",
                  CHUNKOK(args[0].e, cs))
        return NONE

    def h_swap_validate(it, selfv, args, kw, st, fr):
        if it.dec.branch(st, SWAPOK(args[0].e)):
            return NONE
        raise PyRaise(VExc("TransformationError"))

    def construct_hook(it, cname, args, kw, st, fr):
        if cname in ("ChunkLoopTrans", "LoopSwapTrans"):
            return it.alloc(st, cname, None, cname.lower())
        return None
    uni.construct_hook = construct_hook
    uni.method_hooks.update({
        "ChunkLoopTrans.validate": h_chunk_validate,
        "ChunkLoopTrans.apply": h_chunk_apply,
        "LoopSwapTrans.validate": h_swap_validate,
        "LoopSwapTrans.apply": lambda it, s, a, k, st, fr: NONE,
        "LoopTrans.validate": lambda it, s, a, k, st, fr: NONE,
        "Loop.loop_body": lambda it, s, a, k, st, fr: VRef(BODY(s.e),
                                                           "Schedule"),
        "Schedule.children": field_hook("_children"),
        "Loop.parent": field_hook("_parent"),
        "Node.parent": field_hook("_parent"),
        "Loop.position": lambda it, s, a, k, st, fr: VInt(z3.IntVal(0)),
        "Node.position": lambda it, s, a, k, st, fr: VInt(z3.IntVal(0)),
        "Schedule.__getitem__": lambda it, s, a, k, st, fr: VRef(s.e, "Loop"),
        "Loop.walk": lambda it, s, a, k, st, fr: it.getattr(
            VRef(BODY(s.e), "Obj"), "_children", st, fr),
        "Node.walk": lambda it, s, a, k, st, fr: it.getattr(
            VRef(BODY(s.e), "Obj"), "_children", st, fr),
    })
    uni.consts.update({
        "CHUNKOK": VFunc("hook", fn=lambda it, a, k, st, fr: VBool(
            CHUNKOK(a[0].e, it.as_int(a[1])))),
        "SWAPOK": VFunc("hook", fn=lambda it, a, k, st, fr: VBool(
            SWAPOK(a[0].e))),
        "INNER": VFunc("hook", fn=lambda it, a, k, st, fr: it.getitem(
            it.getattr(VRef(BODY(a[0].e), "Obj"), "_children", st, fr),
            VInt(z3.IntVal(0)), st, fr)),
    })
    uni.preds.update({
        "TS": (["o"], "ite(o is not None and 'tilesize' in o, "
                      "o['tilesize'], 32)"),
        "NEST": (["n"], "n is not None and "
                 "getattr_children(n) is not None"),
    })
    uni.consts["getattr_children"] = VFunc(
        "hook", fn=lambda it, a, k, st, fr: it.getattr(
            VRef(BODY(a[0].e), "Obj"), "_children", st, fr))
    PRE = ("node is not None and getattr_children(node) is not None and "
           "len(getattr_children(node)) >= 1 and "
           "INNER(node) is not None and node._parent is not None")
    cv = Contract(
        f"{TILE}:LoopTiling2DTrans.validate",
        params={"self": "LoopTiling2DTrans", "node": "Loop",
                "options": "dict[str,int]"},
        requires=[("nest", PRE)],
        ensures=[
            ("every_sub_transformation_accepts_what_apply_will_do",
             "SWAPOK(node) and CHUNKOK(node, TS(options)) and "
             "CHUNKOK(INNER(node), TS(options))"),
        ],
        raises={"TransformationError": None, "AttributeError": None,
                "IndexError": None},
        modifies=["$len", "$items.ref", "$dom.str", "$map.str.int", "$card"],
        covers=[("accepts", "True")])
    cv.keep_guards = []
    uni.contracts["LoopTiling2DTrans.validate:top"] = cv
    uni.contracts["LoopTiling2DTrans.validate"] = cv
    ca = Contract(
        f"{TILE}:LoopTiling2DTrans.apply",
        params={"self": "LoopTiling2DTrans", "node": "Loop",
                "options": "dict[str,int]"},
        requires=[("nest", PRE)],
        ensures=[("validated", "SWAPOK(node)")],
        raises={"TransformationError": None, "AttributeError": None,
                "IndexError": None},
        modifies=["$len", "$items.ref", "$dom.str", "$map.str.int", "$card"],
        covers=[("applies", "True")])
    uni.contracts["LoopTiling2DTrans.apply:top"] = ca
    uni.note_assumption(
        "ChunkLoopTrans.validate / LoopSwapTrans.validate are used through "
        "their answers (uninterpreted predicates of node and chunk size); a "
        "sub-transformation's apply refuses only what its validate refuses; "
        "chunking the outer loop does not change whether the inner loop can "
        "be chunked; the final LoopSwapTrans.apply on the re-arranged nest "
        "is not covered")
    return [cv, ca] + build_omp_loop(uni)


def build_omp_loop(uni):
    """OMPLoopTrans.apply: whatever raises, the routine's symbol table has
    not been touched (the reproducible-reduction symbols are only added
    after validation has accepted the node)"""
    OMPL = "psyir/transformations/omp_loop_trans.py"
    uni.fields.update({"$table_version": "int"})
    WORLD = z3.Const("the_tables", Ref)
    VALIDOK = z3.Function("omp_loop_validate_accepts", Ref, BOOL)
    HASTAG = z3.Function("has_tag", z3.StringSort(), BOOL)
    uni.axioms.append(WORLD != NULLC)

    def h_validate(it, selfv, args, kw, st, fr):
        if it.dec.branch(st, VALIDOK(args[0].e)):
            return NONE
        raise PyRaise(VExc("TransformationError"))

    def h_lookup_tag(it, selfv, args, kw, st, fr):
        if it.dec.branch(st, HASTAG(it.to_z3(args[0]))):
            return VRef(z3.Const("some_symbol", Ref), "DataSymbol")
        raise PyRaise(VExc("KeyError"))

    def h_new_symbol(it, selfv, args, kw, st, fr):
        st.write("$table_version", WORLD,
                 st.read("$table_version", WORLD, "int") + 1, "int")
        return VRef(z3.Const("new_symbol", Ref), "DataSymbol")

    def h_super_apply(it, selfv, args, kw, st, fr):
        # ParallelLoopTrans.apply validates first and refuses exactly what
        # validate refuses: after a successful validate it does not raise
        if it.dec.branch(st, VALIDOK(args[0].e)):
            st.write("$table_version", WORLD,
                     st.read("$table_version", WORLD, "int") + 1, "int")
            return NONE
        raise PyRaise(VExc("TransformationError"))
    from pyvc.values import VInt as _VInt
    uni.method_hooks.update({
        "OMPLoopTrans.validate": h_validate,
        "ParallelLoopTrans.apply": h_super_apply,
        "SymbolTable.lookup_with_tag": h_lookup_tag,
        "SymbolTable.new_symbol": h_new_symbol,
        "Node.ancestor": lambda it, s, a, k, st, fr: VRef(s.e, "Routine"),
        "Loop.ancestor": lambda it, s, a, k, st, fr: VRef(s.e, "Routine"),
        "Routine.symbol_table": lambda it, s, a, k, st, fr: VRef(
            s.e, "SymbolTable"),
        "Config.get": lambda it, s, a, k, st, fr: VRef(
            z3.Const("the_config", Ref), "Config"),
        "Config.reproducible_reductions":
            lambda it, s, a, k, st, fr: VBool(
                z3.Const("config_reprod", BOOL)),
    })
    uni.axioms.append(z3.Const("the_config", Ref) != NULLC)
    uni.consts["TABLES"] = VFunc("hook", fn=lambda it, a, k, st, fr: _VInt(
        st.read("$table_version", WORLD, "int")))
    uni.consts["INTEGER_TYPE"] = VRef(z3.Const("integer_type", Ref), "Obj")
    c = Contract(
        f"{OMPL}:OMPLoopTrans.apply",
        params={"self": "OMPLoopTrans", "node": "Loop",
                "options": "dict[str,bool]"},
        requires=[("node", "node is not None")],
        ensures=[("applied", "TABLES() >= old(TABLES())")],
        raises={"TransformationError": None},
        on_raise=[("symbol_tables_untouched", "TABLES() == old(TABLES())")],
        modifies=["$table_version", "_reprod", "$dom.str", "$map.str.bool",
                  "$card"],
        covers=[("applies", "TABLES() > old(TABLES())"),
                ("raise:TransformationError", "True")])
    uni.fields.update({"_reprod": "bool"})
    uni.contracts["OMPLoopTrans.apply:top"] = c
    uni.note_assumption(
        "OMPLoopTrans.apply: validate / ParallelLoopTrans.apply through an "
        "uninterpreted acceptance predicate (the super apply refuses exactly "
        "what validate refuses); every SymbolTable.new_symbol and the super "
        "apply bump a ghost table version; lookup_with_tag is pure")
    return [c]


TRUSTED = [
    "pyvc VC generator and z3",
    "NOT under contract: every other transformation (only the bounded "
    "family exercises them), the effect of statements that precede "
    "self.validate() in some apply() bodies",
]
EXPLANATION = (
    "LoopTiling2DTrans.validate accepts only if every sub-transformation "
    "accepts exactly what apply() will ask of it, and apply() validates "
    "first; the bounded part checks code and symbol tables before / after "
    "every refused apply() of 59 transformation classes on five programs.")


def extra(uni, tier, seed):
    """BOUNDED stand-in, never counted as proved"""
    from pyvc.runner import Extra
    from realise import C26 as R
    n_ok, bad = R.summary_parallel(thorough=(tier == "thorough"))
    out = []
    groups = {}
    for cname, rows in bad.items():
        for r in rows:
            key = cname + ":" + ",".join(sorted(r[3] or {"none": 0}))
            groups.setdefault(key, []).append(r)
    for key, rows in sorted(groups.items()):
        r = rows[0]
        out.append(Extra(
            f"bounded#refused-apply-leaves-tree-unchanged[{key}]", False,
            r[5][:400], bounded=True,
            kind="bounded run-time contract: view before / after a refused "
                 "apply()",
            replay={"confirmed": True, "transformation": r[0],
                    "input": {"program": r[6], "node_index": r[2],
                              "options": r[3]},
                    "observed": r[5], "other_cases": len(rows) - 1}))
    out.append(Extra(
        "bounded#refused-apply-leaves-tree-unchanged", True,
        f"{n_ok} refused apply() calls left code and symbol tables unchanged",
        kind="bounded run-time contract: 5 programs x every node x 5 option "
             "sets x every constructible transformation class",
        count=n_ok, bounded=True))
    return out


def replay(name, ob, model, uni):
    from realise import C26 as R
    only = ["OMPLoopTrans"] if "OMPLoopTrans" in name else \
        ["LoopTiling2DTrans"]
    n_ok, bad = R.summary_parallel(only=only)
    for cname, rows in bad.items():
        r = rows[0]
        return {"confirmed": True, "transformation": cname,
                "input": {"program": r[6], "node_index": r[2],
                          "options": r[3]}, "observed": r[5]}
    return {"confirmed": False}


def replay_known(k, uni):
    return None
