"""Per-function verification: enumerate paths of the real body under its
contract, collect obligations, discharge them."""
import time
import z3
from .values import *
from .state import (State, Decider, Obligation, Unsupported, PathEnd, PyRaise,
                    fresh)
from .common import *
from .common import _Return, _Break, _Continue
from .interp import Interp, Contract, LoopSpec, Universe


class FunctionReport:
    def __init__(self, contract):
        self.contract = contract
        self.obligations = []
        self.paths = 0
        self.covered_exits = 0
        self.unsupported = None
        self.bounded = False
        self.exits = {"return": 0, "raise": {}}
        self.wall = 0.0
        self.covered = set()
        self.cover_unknown = set()


def explore_path(uni, contract, prefix, rep=None):
    """One symbolic path of the real body (decision prefix given).  Returns
    (obligations, new prefixes to explore, report of this path)."""
    rep = rep or FunctionReport(contract)
    fn, info = uni.repo.function(contract.func)
    key = contract.func.split(":")[1]
    dec = Decider()
    dec.start_path(prefix)
    dec.todo = []
    it = Interp(uni, dec)
    it.bounded = False
    try:
        run_path(uni, it, contract, fn, info, key, rep)
    except PathEnd:
        pass
    except Unsupported as err:
        rep.unsupported = str(err)
    rep.bounded = rep.bounded or it.bounded
    rep.paths += 1
    # reachability of the declared cover points on this path
    for label, fmls in it.covers:
        if label in rep.covered:
            continue
        s = z3.Solver()
        s.set("timeout", 5000)
        for f in fmls:
            s.add(f)
        r = s.check()
        if r == z3.sat:
            rep.covered.add(label)
        elif r == z3.unknown:
            # quantified path conditions: not refuted (the path itself was
            # kept by the feasibility check); counted as reachable-unknown
            rep.covered.add(label)
            rep.cover_unknown.add(label)
    return it.obls, dec.todo, rep


def verify_function(uni, contract, max_paths=4000):
    """Symbolically execute the real body of contract.func on every path."""
    t0 = time.time()
    rep = FunctionReport(contract)
    todo = [[]]
    while todo:
        prefix = todo.pop()
        obls, more, _ = explore_path(uni, contract, prefix, rep)
        rep.obligations.extend(obls)
        if rep.unsupported:
            break
        todo.extend(more)
        if rep.paths > max_paths:
            rep.unsupported = f"more than {max_paths} paths"
            break
    rep.wall = time.time() - t0
    return rep


def _raise_only(s):
    """statement that can only raise or fall through: no assignment, no
    return/break/continue, no expression statement other than a docstring"""
    import ast
    if isinstance(s, (ast.Raise, ast.Pass)):
        return True
    if isinstance(s, ast.Expr):
        return isinstance(s.value, ast.Constant)
    if isinstance(s, ast.If):
        return all(_raise_only(x) for x in s.body + s.orelse)
    if isinstance(s, ast.For):
        return all(_raise_only(x) for x in s.body + s.orelse)
    return False


def slice_guards(uni, c, fn, keep):
    """MECHANICAL SLICE for ensures-on-normal-return obligations: top-level
    `if` / `for` statements whose bodies can only raise (guards) are dropped
    unless their source text contains one of the `keep` strings.  Dropping a
    guard can only ADD normal-return paths, so a postcondition proved for
    the slice on every normal return holds for the real function on every
    normal return - provided the guard conditions have no side effect (they
    are property reads and pure queries here; stated as an assumption).
    Exception-related obligations (raises / noexc) are NOT meaningful for a
    sliced function and must not be stated in such a contract."""
    import ast
    out, dropped = [], []
    for s in fn.body:
        if isinstance(s, (ast.If, ast.For)) and _raise_only(s):
            src = ast.unparse(s)
            if not any(k in src for k in keep):
                dropped.append(s.lineno)
                continue
        out.append(s)
    uni.note_assumption(
        f"{c.name}: verified on a mechanical slice of the real body - "
        f"{len(dropped)} top-level guard statements that can only raise "
        f"(at lines {dropped}) are dropped; their conditions are assumed "
        "free of side effects; only postconditions on normal return are "
        "claimed for this function")
    return out


def slice_range(uni, c, fn, rng):
    """MECHANICAL STATEMENT RANGE: only the top-level statements from the
    last one whose text starts with rng[0] up to (excluding) the last one
    whose text starts with rng[1] are executed; everything the range reads
    from earlier statements is an arbitrary entry state (parameters and
    heap).  The postconditions then describe the state where the range
    ends; that the dropped tail does not touch the attributes named in
    c.range_frame is checked syntactically here."""
    import ast
    texts = [ast.unparse(s) for s in fn.body]
    try:
        b = max(i for i, t in enumerate(texts) if t.startswith(rng[1]))
        a = max(i for i, t in enumerate(texts)
                if i < b and t.startswith(rng[0]))
    except (StopIteration, ValueError):
        raise Unsupported(f"statement range {rng} not found in {c.name}")
    for t in texts[b:]:
        for attr in getattr(c, "range_frame", ()):
            if attr in t:
                raise Unsupported(
                    f"{c.name}: '{attr}' is used after the verified "
                    f"statement range")
    uni.note_assumption(
        f"{c.name}: verified on a mechanical statement range of the real "
        f"body (lines {fn.body[a].lineno}-{fn.body[b].lineno - 1}); the "
        f"{a} statements before it only determine the entry state (taken "
        f"as arbitrary), the {len(texts) - b} statements after it do not "
        f"mention {list(getattr(c, 'range_frame', ()))} (checked)")
    return fn.body[a:b]


def run_path(uni, it, c, fn, info, key, rep):
    st = State()
    st.heap_sorts = {}
    for f, t in uni.fields.items():
        st.heap_sorts[f] = base_tag(t)
    # ghost heap fields of non-reference sort (e.g. 'set[ref]') declared by
    # the property module
    for f, t in getattr(uni, "heap_extra", {}).items():
        st.heap_sorts[f] = t
    cname = info.name if info else None
    fr = Frame(c.name, cname, c, env={})
    fr.fn_node = fn
    fr.fn_key = key
    fr.relpath = c.func.split(":")[0]
    # parameters
    names = [a.arg for a in fn.args.args] + [a.arg for a in
                                             fn.args.kwonlyargs]
    for n in names:
        tag = c.params.get(n)
        if tag is None:
            if n == "self" and cname:
                tag = cname
            else:
                raise Unsupported(f"parameter {n} of {key} has no type")
        fr.env[n] = it.sym(n, tag, st)
    if "self" in fr.env:
        fr.self_val = fr.env["self"]
        if isinstance(fr.self_val, VRef):
            st.assume(fr.self_val.e != NULL)
    for g, tag in c.ghost.items():
        fr.env[g] = it.sym(g, tag, st)
    entry_env = dict(fr.env)
    it.entry_refs = [v.e for v in entry_env.values() if isinstance(v, VRef)]
    # preconditions
    pre = Frame(c.name, cname, c, env=dict(entry_env), spec=True)
    for label, text, _ in c.requires:
        st.assume(it.truth(it.ev(parse_expr(text), st, pre), st))
    fr.old = st.snapshot()
    fr.old.pc = list(st.pc)
    it.entry_frame, it.entry_state = pre, fr.old
    it.entry_z3 = {n: v.e for n, v in entry_env.items() if hasattr(v, "e")}
    outcome, value = "return", NONE
    body = fn.body
    rng = getattr(c, "stmt_range", None)
    if rng is not None:
        body = slice_range(uni, c, fn, rng)
    keep = getattr(c, "keep_guards", None)
    if keep is not None:
        body = slice_guards(uni, c, fn, keep)
    try:
        it.exec_block(body, st, fr)
    except _Return as ret:
        value = ret.value
    except PyRaise as pr:
        outcome, value = "raise", pr.exc
    post = Frame(c.name, cname, c, env=dict(entry_env), spec=True)
    if rng is not None:
        # the postconditions of a statement range describe the state where
        # the range ends: its locals are visible (entry names keep their
        # entry meaning unless the range rebinds them)
        post.env = dict(fr.env)
    post.old = fr.old
    if outcome == "return":
        rep.exits["return"] += 1
        post.result = value
        # reachability points are evaluated before the postconditions are
        # (obliged and then) assumed
        for label, text, _ in c.covers:
            if text.startswith("raise:"):
                continue
            g = it.truth(it.ev(parse_expr(text), st, post), st)
            it.covers.append((label, list(uni.axioms) + list(st.pc) + [g]))
        for label, text, lemmas in c.ensures:
            for n, lem in enumerate(lemmas):
                g = it.truth(it.ev(parse_expr(lem), st, post), st)
                it.oblige(fr, st, "lemma", f"{label}.{n}", g)
            g = it.truth(it.ev(parse_expr(text), st, post), st)
            it.oblige(fr, st, "ensures", label, g)
        for exc, cond in c.raises.items():
            if isinstance(cond, tuple) and cond[0] == "iff":
                g = it.truth(it.ev(parse_expr(cond[1]), fr.old, pre), fr.old)
                it.oblige(fr, st, "raises-iff", exc, z3.Not(g))
        it.frame_check(fr, st, fr.old, c.modifies, "exit")
    else:
        rep.exits["raise"][value.cls] = rep.exits["raise"].get(value.cls,
                                                               0) + 1
        for label, text, _ in c.covers:
            if text == "raise:" + value.cls:
                it.covers.append((label, list(uni.axioms) + list(st.pc)))
        decl = None
        anc = set(uni.repo.mro(value.cls)) | {value.cls}
        for exc in c.raises:
            if exc in anc:
                decl = exc
        if decl is None:
            it.oblige(fr, st, "noexc", value.cls, z3.BoolVal(False),
                      note="undeclared exception escapes")
        else:
            cond = c.raises[decl]
            text = cond[1] if isinstance(cond, tuple) else cond
            if text is not None:
                g = it.truth(it.ev(parse_expr(text), fr.old, pre), fr.old)
                it.oblige(fr, st, "raises-only-if", decl, g)
            for label, text, _ in c.on_raise:
                g = it.truth(it.ev(parse_expr(text), st, post), st)
                it.oblige(fr, st, "onraise", label, g)
