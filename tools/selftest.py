#!/usr/bin/env python3
"""tools/selftest.py: differential test of the pyvc container / arithmetic
models against CPython on an exhaustive small scope (see
selftest/models_under_test.py).  Exit 0 if the engine proves CPython's
result for every input, 1 otherwise."""
import copy
import itertools
import sys

sys.path.insert(0, "/verif")
import z3                                              # noqa: E402
from pyvc.extract import Repo                          # noqa: E402
from pyvc.interp import Universe, Contract             # noqa: E402
from pyvc.verify import verify_function                # noqa: E402
sys.path.insert(0, "/verif/selftest")
import models_under_test as M                          # noqa: E402

LISTS = [[], [5], [5, 7], [7, 5, 7], [1, 2, 3, 4]]
INTS = [-5, -2, -1, 0, 1, 2, 3, 5, 7]
CASES = {
    "f_pop": (("xs", "i"), [(xs, i) for xs in LISTS for i in INTS]),
    "f_insert_len": (("xs", "i", "v"),
                     [(xs, i, 9) for xs in LISTS for i in INTS]),
    "f_remove": (("xs", "v"), [(xs, v) for xs in LISTS for v in (5, 7, 9)]),
    "f_index": (("xs", "v"), [(xs, v) for xs in LISTS for v in (5, 7, 9)]),
    "f_slice_sum": (("xs", "a", "b"),
                    [(xs, a, b) for xs in LISTS[2:]
                     for a in (-3, -1, 0, 1, 5) for b in (-2, 0, 1, 2, 9)]),
    "f_filter": (("xs", "t"), [(xs, t) for xs in LISTS for t in (0, 5, 7)]),
    "f_any_all": (("xs", "t"), [(xs, t) for xs in LISTS for t in (0, 5, 7)]),
    "f_set_subset": (("a", "b", "c"),
                     list(itertools.product((1, 2), repeat=3))),
    "f_in_list": (("xs", "v"), [(xs, v) for xs in LISTS for v in (5, 9)]),
    "f_negative_index": (("xs", "i"),
                         [(xs, i) for xs in LISTS for i in INTS]),
    "f_bool_ops": (("a", "b", "c"),
                   list(itertools.product((-1, 1), repeat=3))),
    "f_floor_div_mod": (("a", "b"),
                        [(a, b) for a in INTS for b in INTS]),
    "f_dict": (("a", "b", "c"), list(itertools.product((1, 2, 3), repeat=3))),
    "f_set_remove": (("a", "b", "c"),
                     list(itertools.product((1, 2, 3), repeat=3))),
    "f_append_extend": (("xs", "ys"),
                        [(xs, ys) for xs in LISTS for ys in LISTS]),
    "f_str_ops": (("a", "b"), [(a, b) for a in (1, 2, 12) for b in (1, 12)]),
    "f_chain_compare": (("a", "b", "c"),
                        list(itertools.product((1, 2, 3), repeat=3))),
    "f_min_max_abs": (("a", "b"), [(a, b) for a in INTS for b in INTS]),
}
LOCAL_TYPES = {"f_dict": {"d": "dict[int,int]"},
               "f_set_remove": {"s": "set[int]"},
               "f_set_subset": {"s": "set[int]", "u": "set[int]"},
               "f_append_extend": {"zs": "list[int]"}}


def pin(name, val):
    if isinstance(val, list):
        parts = [f"{name} is not None", f"len({name}) == {len(val)}"]
        parts += [f"at({name}, {k}) == {v}" for k, v in enumerate(val)]
        return " and ".join(parts)
    return f"{name} == {val}"


def run_engine(fname, params, args, ens, raises, boolres, tmo=10000):
    """returns (error text or None, [z3 verdict per obligation])"""
    uni = Universe(Repo(src="/verif/selftest"))
    uni.kf_classes = {}
    uni.local_types.update(LOCAL_TYPES)
    ptypes = {p: ("list[int]" if isinstance(a, list) else "int")
              for p, a in zip(params, args)}
    req = " and ".join(pin(p, a) for p, a in zip(params, args))
    c = Contract(f"models_under_test.py:{fname}", params=ptypes,
                 requires=[("pin", req)], ensures=ens, raises=raises,
                 returns="bool" if boolres else "int",
                 modifies=["$len", "$items.int", "$set.int", "$card",
                           "$dom.int", "$map.int.int"])
    try:
        rep = verify_function(uni, c)
    except Exception as err:       # noqa
        return f"engine error {err!r}", []
    if rep.unsupported:
        return "unsupported: " + rep.unsupported, []
    out = []
    for ob in rep.obligations:
        s = z3.Solver()
        s.set("timeout", tmo)
        for p in uni.axioms + list(ob.pc):
            s.add(p)
        s.add(z3.Not(ob.goal))
        out.append((ob.name, s.check()))
    return None, out


def one_function(fname):
    """positive: the engine PROVES CPython's outcome for the pinned input;
    negative control: it does NOT prove a different outcome for the same
    input (proving both would mean the path condition is contradictory, i.e.
    the positive proof vacuous)"""
    bad, n = [], 0
    if True:
        params, inputs = CASES[fname]
        fn = getattr(M, fname)
        for args in inputs:
            try:
                want = ("ok", fn(*copy.deepcopy(list(args))))
            except Exception as err:       # noqa
                want = ("raise", type(err).__name__)
            boolres = isinstance(want[1], bool)
            if want[0] == "ok":
                ens, raises = [("same", f"result == {want[1]}")], {}
                wrong = (f"result == {not want[1]}" if boolres else
                         f"result == {want[1] + 1}")
                nens, nraises = [("other", wrong)], {}
            else:
                ens, raises = [], {want[1]: ("iff", "True")}
                nens, nraises = [("other", "result == 0")], {}
            n += 1
            err, obs = run_engine(fname, params, args, ens, raises, boolres)
            if err:
                bad.append((fname, args, err))
                continue
            if not obs:
                bad.append((fname, args, "no obligation generated"))
                continue
            fails = [o for o in obs if o[1] != z3.unsat]
            if fails:
                bad.append((fname, args, f"{fails[0][0]}: {fails[0][1]} "
                            f"(CPython: {want})"))
                continue
            err, obs = run_engine(fname, params, args, nens, nraises,
                                  boolres, tmo=1500)
            if err or not any(o[1] != z3.unsat for o in obs):
                bad.append((fname, args, f"negative control not refuted: "
                            f"{err or obs} (CPython: {want})"))
    return n, bad


def main():
    import multiprocessing as mp
    with mp.Pool(min(16, len(CASES))) as pool:
        res = pool.map(one_function, list(CASES))
    n = sum(r[0] for r in res)
    bad = [b for r in res for b in r[1]]
    print(f"selftest: {n} (function, input) cases, each proved equal to "
          f"CPython and a different outcome not provable; {len(bad)} disagreements")
    for b in bad:
        print("  DISAGREE", b)
    return 3 if bad else 0


if __name__ == "__main__":
    sys.exit(main())
