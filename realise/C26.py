"""C26 bounded run-time contract: every transformation class that can be
constructed without arguments is applied to every node of a few small
programs with a few option sets; whenever apply() raises, the written code
and the symbol-table view must be identical to before the attempt.
Bounded: 5 programs, 6 option sets (14 in the thorough tier), one
application per (class, node)."""
import importlib
import inspect
import pkgutil

PROGRAMS = {
    "nest": '''subroutine work(a, b, n)
  integer, intent(in) :: n
  real, intent(inout) :: a(n,n), b(n)
  integer :: i, j
  real :: t
  do j = 1, n, 8
    do i = 1, n
      t = b(i)
      a(i,j) = a(i,j) + t
    end do
  end do
  b(:) = 0.0
end subroutine work
''',
    "nest-inner-stride": '''subroutine work(a, n)
  integer, intent(in) :: n
  real, intent(inout) :: a(n,n)
  integer :: i, j
  do i = 1, n
    do j = 1, n, 8
      a(j,i) = a(j,i) + 1.0
    end do
  end do
end subroutine work
''',
    "calls": '''module m
contains
  subroutine scale(y, x)
    real, intent(inout) :: y
    real, intent(in) :: x
    real :: scale_tmp
    scale_tmp = 2.0
    y = y + scale_tmp*x
  end subroutine scale
  subroutine work(a, b, n)
    integer, intent(in) :: n
    real, intent(inout) :: a(n)
    real, intent(in) :: b(n)
    integer :: i
    do i = 1, n
      call scale(a(i), b(i))
      call scale(a(i), x=b(i))
    end do
  end subroutine work
end module m
''',
    "intrinsics": '''subroutine work(a, b, c, n)
  integer, intent(in) :: n
  real, intent(inout) :: a(n,n), b(n,n), c(n)
  real :: s
  integer :: i
  a = matmul(a, b)
  s = sum(c)
  c(2:n) = c(1:n-1) + abs(s)
  do i = 1, n
    if (c(i) > 0.0) then
      c(i) = min(c(i), s)
    end if
  end do
end subroutine work
''',
    "while": '''subroutine work(a, n)
  integer, intent(in) :: n
  real, intent(inout) :: a(n)
  integer :: i
  i = 1
  do while (i < n)
    a(i) = a(i) + 1.0
    i = i + 1
  end do
  if (n > 3) return
  a(1) = 0.0
end subroutine work
''',
}
OPTIONS = [None, {"tilesize": 4}, {"chunksize": 4}, {"force": True},
           {"collapse": 2}, {"reprod": True}]
MORE_OPTIONS = [{"independent": False},
                {"sequential": True}, {"collapse": 3}, {"tilesize": 0},
                {"chunksize": -1}, {"region_name": ("m", "r")},
                {"node-type-check": False}]
THOROUGH = False


def transformation_classes():
    from psyclone.psyGen import Transformation
    import psyclone.psyir.transformations as T
    import psyclone.transformations as T2
    seen, out = set(), []
    mods = [T, T2]
    for info in pkgutil.walk_packages(T.__path__, T.__name__ + "."):
        try:
            mods.append(importlib.import_module(info.name))
        except Exception:      # noqa
            pass
    for mod in mods:
        for name, cls in inspect.getmembers(mod, inspect.isclass):
            if not issubclass(cls, Transformation) or cls in seen or \
                    inspect.isabstract(cls):
                continue
            seen.add(cls)
            try:
                cls()
            except Exception:  # noqa: needs constructor arguments
                continue
            out.append(cls)
    return sorted(out, key=lambda c: c.__name__)


def view(psyir):
    from psyclone.psyir.backend.fortran import FortranWriter
    from psyclone.psyir.nodes import ScopingNode
    try:
        text = FortranWriter()(psyir)
    except Exception as err:       # noqa
        text = f"<writer fails: {type(err).__name__}>"
    tabs = []
    for sc in psyir.walk(ScopingNode):
        tabs.append(sorted(sc.symbol_table.symbols_dict))
    return text, tabs


def attempts(only=None, programs=None):
    """[(class name, program, node index, options, verdict, detail, src)]"""
    from psyclone.psyir.frontend.fortran import FortranReader
    from psyclone.psyir.nodes import Node
    classes = transformation_classes()
    out = []
    for pname, src in PROGRAMS.items():
        if programs and pname not in programs:
            continue
        base = FortranReader().psyir_from_source(src)
        n_nodes = len(base.walk(Node))
        for cls in classes:
            if only and cls.__name__ not in only:
                continue
            for opts in OPTIONS + (MORE_OPTIONS if THOROUGH else []):
                for k in range(n_nodes):
                    psyir = base.copy()
                    node = psyir.walk(Node)[k]
                    before = view(psyir)
                    try:
                        cls().apply(node, dict(opts) if opts else opts)
                    except Exception as err:      # noqa: any refusal
                        after = view(psyir)
                        if after != before:
                            kind = "code" if after[0] != before[0] else \
                                "symbol tables"
                            out.append((
                                cls.__name__, pname, k, opts, "changed",
                                f"{type(err).__name__}: "
                                f"{str(err)[:160]} -- {kind} differ after "
                                f"the refused apply on "
                                f"{type(node).__name__} #{k}",
                                src))
                        else:
                            out.append((cls.__name__, pname, k, opts,
                                        "unchanged", "", src))
    return out


def summary(only=None):
    res = attempts(only)
    refused = [r for r in res if r[4] == "unchanged"]
    bad = {}
    for r in res:
        if r[4] == "changed":
            bad.setdefault(r[0], []).append(r)
    return len(refused), bad


def _job(args):
    cname, pname = args
    return attempts(only=[cname], programs=[pname])


def summary_parallel(only=None, thorough=False):
    import multiprocessing as mp
    global THOROUGH
    THOROUGH = thorough
    names = [c.__name__ for c in transformation_classes()
             if not only or c.__name__ in only]
    jobs = [(c, p) for c in names for p in PROGRAMS]
    with mp.get_context("fork").Pool(min(16, len(jobs))) as pool:
        parts = pool.map(_job, jobs, chunksize=1)
    n_ok, bad = 0, {}
    for res in parts:
        for r in res:
            if r[4] == "changed":
                bad.setdefault(r[0], []).append(r)
            else:
                n_ok += 1
    return n_ok, bad
