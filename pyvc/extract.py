"""Mechanical extraction of the *real* code under verification.

Every check run re-reads the current working tree of /repo (never a cached
copy): files are ``ast.parse``d, functions are pulled out by qualified name,
and the class hierarchy / class-level constants are rebuilt from the ASTs.

What extraction drops (stated in DESIGN.md §2.1): docstrings, comments,
pragmas, decorators other than staticmethod/classmethod/property(+setter),
and the *arguments* of exception constructors in ``raise`` statements.
"""
import ast
import hashlib
import os

REPO = os.environ.get("VERIF_REPO", "/repo")
SRC = os.path.join(REPO, "src", "psyclone")


class ExtractionError(Exception):
    """The named function/class cannot be found in the current tree."""


class ClassInfo:
    def __init__(self, name, relpath, node, bases):
        self.name = name
        self.relpath = relpath
        self.node = node
        self.base_names = bases      # simple names as written
        self.methods = {}            # name -> FunctionDef (plain or static/class)
        self.properties = {}         # name -> FunctionDef (getter)
        self.setters = {}            # name -> FunctionDef
        self.consts = {}             # name -> ast expression (class-level assignment)
        self.kinds = {}              # method name -> 'static' | 'class' | 'plain'
        for item in node.body:
            if isinstance(item, ast.FunctionDef):
                decos = []
                for d in item.decorator_list:
                    if isinstance(d, ast.Name):
                        decos.append(d.id)
                    elif isinstance(d, ast.Attribute):
                        decos.append(d.attr)
                if "property" in decos:
                    self.properties[item.name] = item
                elif "setter" in decos:
                    self.setters[item.name] = item
                else:
                    self.methods[item.name] = item
                    self.kinds[item.name] = (
                        "static" if "staticmethod" in decos else
                        "class" if "classmethod" in decos else "plain")
            elif isinstance(item, ast.Assign):
                for tgt in item.targets:
                    if isinstance(tgt, ast.Name):
                        self.consts[tgt.id] = item.value
            elif isinstance(item, ast.AnnAssign) and item.value is not None:
                if isinstance(item.target, ast.Name):
                    self.consts[item.target.id] = item.value

    def __repr__(self):
        return f"<ClassInfo {self.name} {self.relpath}>"


class Repo:
    """Lazy index over the python sources of the repository."""

    def __init__(self, src=SRC):
        self.src = src
        self._mods = {}       # relpath -> ast.Module
        self._text = {}       # relpath -> str
        self._classes = None  # name -> [ClassInfo]
        self.used = {}        # qualname -> dict(path, lines, sha256)
        self.prefer = []      # relpaths preferred for ambiguous class names

    # -- files ----------------------------------------------------------
    def path(self, relpath):
        return os.path.join(self.src, relpath)

    def text(self, relpath):
        if relpath not in self._text:
            try:
                with open(self.path(relpath), encoding="utf-8") as fin:
                    self._text[relpath] = fin.read()
            except OSError as err:
                raise ExtractionError(f"cannot read {relpath}: {err}")
        return self._text[relpath]

    def module(self, relpath):
        if relpath not in self._mods:
            try:
                self._mods[relpath] = ast.parse(self.text(relpath))
            except SyntaxError as err:
                raise ExtractionError(f"cannot parse {relpath}: {err}")
        return self._mods[relpath]

    def all_py(self):
        out = []
        for root, dirs, files in os.walk(self.src):
            dirs[:] = [d for d in dirs if d not in ("tests", "__pycache__")]
            for fname in files:
                if fname.endswith(".py"):
                    out.append(os.path.relpath(os.path.join(root, fname),
                                               self.src))
        return sorted(out)

    # -- classes --------------------------------------------------------
    def _index(self):
        if self._classes is not None:
            return
        self._classes = {}
        for rel in self.all_py():
            try:
                mod = self.module(rel)
            except ExtractionError:
                continue
            for node in ast.walk(mod):
                if isinstance(node, ast.ClassDef):
                    bases = []
                    for b in node.bases:
                        if isinstance(b, ast.Name):
                            bases.append(b.id)
                        elif isinstance(b, ast.Attribute):
                            bases.append(b.attr)
                    info = ClassInfo(node.name, rel, node, bases)
                    self._classes.setdefault(node.name, []).append(info)

    def classes(self):
        self._index()
        return self._classes

    def cls(self, name, relpath=None):
        """ClassInfo by simple name (optionally disambiguated by file)."""
        self._index()
        cands = self._classes.get(name, [])
        if relpath is not None:
            c2 = [c for c in cands if c.relpath == relpath]
            if c2:
                return c2[0]
        if not cands:
            return None
        if len(cands) > 1:
            # homonymous classes: the property module may name the file it
            # means (repo.prefer); otherwise PSyIR classes win
            for c in cands:
                if c.relpath in self.prefer:
                    return c
            for c in cands:
                if c.relpath.startswith("psyir/"):
                    return c
        return cands[0]

    def mro(self, name, relpath=None):
        """Linearised ancestors (C3 approximated by DFS, first occurrence
        kept, which coincides with Python's MRO for the single-inheritance
        and simple mixin patterns PSyclone uses)."""
        out, seen = [], set()

        def visit(cname, rel):
            info = self.cls(cname, rel)
            if info is None:
                if cname not in seen:
                    seen.add(cname)
                    out.append(cname)     # external base (list, object, Enum…)
                return
            if info.name in seen:
                return
            seen.add(info.name)
            out.append(info.name)
            for b in info.base_names:
                visit(b, None)
        visit(name, relpath)
        # move a diamond base after all of its subclasses
        return out

    def is_subclass(self, name, base):
        return base in self.mro(name)

    def subclasses(self, base):
        """All class names (incl. base) whose MRO contains base."""
        self._index()
        return sorted(n for n in self._classes if base in self.mro(n))

    def find_attr(self, cname, attr):
        """Resolve attr through the MRO: returns (kind, ClassInfo, node)."""
        for c in self.mro(cname):
            info = self.cls(c)
            if info is None:
                continue
            if attr in info.properties:
                return ("property", info, info.properties[attr])
            if attr in info.methods:
                return ("method", info, info.methods[attr])
            if attr in info.consts:
                return ("const", info, info.consts[attr])
        return (None, None, None)

    def overriders(self, cname, attr):
        """Strict subclasses of cname that (re)define attr."""
        out = []
        for sub in self.subclasses(cname):
            if sub == cname:
                continue
            info = self.cls(sub)
            if info and (attr in info.methods or attr in info.properties
                         or attr in info.consts):
                out.append(sub)
        return out

    # -- functions ------------------------------------------------------
    def function(self, spec):
        """spec = 'rel/path.py:Class.method' or 'rel/path.py:func'.
        Returns (FunctionDef, ClassInfo|None) and records provenance."""
        relpath, qual = spec.split(":")
        mod = self.module(relpath)
        parts = qual.split(".")
        node, info = None, None
        if len(parts) == 1:
            for item in mod.body:
                if isinstance(item, ast.FunctionDef) and item.name == parts[0]:
                    node = item
        else:
            info = self.cls(parts[0], relpath)
            if info is not None and info.relpath == relpath:
                mname = parts[1]
                want = parts[2] if len(parts) > 2 else None
                if want == "setter":
                    node = info.setters.get(mname)
                elif mname in info.methods:
                    node = info.methods[mname]
                elif mname in info.properties:
                    node = info.properties[mname]
        if node is None:
            raise ExtractionError(f"{spec}: not found in current tree")
        self.record(spec, relpath, node)
        return node, info

    def record(self, spec, relpath, node):
        seg = ast.get_source_segment(self.text(relpath), node) or ""
        self.used[spec] = {
            "path": os.path.join("src/psyclone", relpath),
            "lines": [node.lineno, node.end_lineno],
            "sha256": hashlib.sha256(seg.encode()).hexdigest()[:16]}

    def module_consts(self, relpath):
        """Top-level NAME = <expr> assignments of a module."""
        out = {}
        for item in self.module(relpath).body:
            if isinstance(item, ast.Assign):
                for tgt in item.targets:
                    if isinstance(tgt, ast.Name):
                        out[tgt.id] = item.value
        return out

    def module_function(self, relpath, name):
        for item in self.module(relpath).body:
            if isinstance(item, ast.FunctionDef) and item.name == name:
                return item
        return None
