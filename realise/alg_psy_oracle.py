'''Position-by-position oracle for C24, used by realise/C24.py.  Written by an
independent sub-agent from the text of property C24 only (it is
seeded/C24a/demo.py, unchanged apart from this paragraph).

Demonstration/check of property C24: the generated algorithm layer and
the generated PSy layer agree on the invoke arguments.

For a small family of LFRic algorithm files (built from the built-ins
setval_c/setval_x and the user kernel testkern_type, with repeated,
case-varied, array-element, structure-component and literal arguments, in
named and un-named invokes) this script runs the real
psyclone.generator.generate() and then checks, using only the two pieces of
generated Fortran, that

 1. every invoke in the source has been replaced (in order) by a call to a
    routine that is declared exactly once in the generated PSy layer;
 2. that call passes exactly as many actual arguments as the routine has
    dummy arguments;
 3. every kernel in that routine operates on the dummy argument whose
    position is the position, in the generated call, of the algorithm
    argument that was written at that place in the source invoke (and on
    the literal that was written, for literal arguments).

Exit code 0: property holds for all files. Exit code 1: violated.
'''
import os
import re
import sys
import tempfile

import psyclone
from psyclone.generator import generate

KERNEL_PATH = os.path.join(os.path.dirname(psyclone.__file__),
                           "tests", "test_files", "dynamo0p3")

HEADER = '''
module {name}
  use constants_mod, only: r_def, i_def
  use field_mod, only: field_type
  use testkern_mod, only: testkern_type
  implicit none
  type :: state_type
    type(field_type) :: f1, f2, m1, m2
    type(field_type) :: vec(3)
  end type state_type
contains
  subroutine run(state, other, grid)
    type(state_type), intent(inout) :: state, other
    type(field_type), intent(inout) :: grid(3, 3)
    type(field_type) :: f1, f2, m1, m2, fv(4), state_f2
    real(r_def) :: a, b(3)
    integer :: i
'''
FOOTER = '''
  end subroutine run
end module {name}
'''

# Each scenario is a list of invokes. An invoke is (keyword, name, kernels),
# a kernel is (functor, [argument texts as written in the source]).
# Literal arguments are marked by a leading '='.
SCENARIOS = {
    # Plain variables, repeated and case varied.
    "plain": [
        ("invoke", None, [("setval_c", ["f1", "=0.0_r_def"]),
                          ("testkern_type", ["a", "F1", "f2", "m1", "m2"]),
                          ("setval_x", ["M1", "f1"])]),
        ("invoke", "second", [("setval_c", ["f2", "=1.0_r_def"]),
                              ("setval_x", ["f1", "F2"])]),
    ],
    # Array elements (also repeated and with different spacing).
    "array_elements": [
        ("invoke", "elems", [("testkern_type",
                              ["b(1)", "fv(1)", "fv(2)", "fv(3)", "FV( 4 )"]),
                             ("setval_x", ["fv(2)", "fv(1)"]),
                             ("setval_c", ["fv( 4 )", "=2.0_r_def"])]),
    ],
    # Structure components, repeated across kernels and mixed with a
    # plain variable whose name is the flattened component name.
    "structure_components": [
        ("invoke", None, [("testkern_type",
                           ["a", "state%f1", "state % f2", "state%m1",
                            "other%m2"]),
                          ("setval_x", ["state_f2", "state%f2"]),
                          ("setval_c", ["STATE%F1", "=0.5_r_def"]),
                          ("setval_x", ["state%vec(i)", "state%vec(2)"]),
                          ("setval_c", ["state%vec(2)", "=-1.0_r_def"])]),
    ],
    # Multi-dimensional array elements repeated across kernels.
    "multi_index": [
        ("invoke", "grid", [("setval_c", ["grid(1,2)", "=0.0_r_def"]),
                            ("setval_x", ["grid(2,1)", "grid(1,2)"]),
                            ("setval_x", ["grid(i, i)", "grid(2, 1)"])]),
    ],
    # Several invokes, named and un-named, with the keyword spelled in
    # different cases.
    "several_invokes": [
        ("Invoke", None, [("setval_c", ["f1", "=0.0_r_def"]),
                          ("setval_c", ["f2", "=0.0_r_def"])]),
        ("invoke", "Named_One", [("testkern_type",
                                  ["a", "f1", "f2", "m1", "m2"])]),
        ("INVOKE", None, [("setval_x", ["m2", "m1"])]),
    ],
}


def norm(text):
    '''Normalise the spelling of a Fortran expression.'''
    return text.lower().replace(" ", "")


def build_source(name, invokes):
    ''' Create the algorithm source for the supplied list of invokes. '''
    lines = [HEADER.format(name=name)]
    for keyword, label, kernels in invokes:
        parts = []
        if label:
            parts.append(f'name="{label}"')
        for functor, args in kernels:
            arg_txt = ", ".join(arg.lstrip("=") for arg in args)
            parts.append(f"{functor}({arg_txt})")
        joined = ", &\n         ".join(parts)
        lines.append(f"    call {keyword}( {joined} )\n")
    lines.append(FOOTER.format(name=name))
    return "".join(lines)


def split_args(text):
    ''' Split a Fortran argument list at its top-level commas. '''
    args, depth, current = [], 0, ""
    for char in text:
        if char == "(":
            depth += 1
        elif char == ")":
            depth -= 1
        if char == "," and depth == 0:
            args.append(current.strip())
            current = ""
        else:
            current += char
    if current.strip():
        args.append(current.strip())
    return args


def psy_routines(psy_code):
    '''Return a dict: routine name -> list of (dummy args, kernel events)
    for every subroutine in the generated PSy layer. A kernel event is
    ("testkern_type", [scalar, field, field, field, field]) or
    ("assign", lhs_field, rhs) where the names are those of the dummy
    arguments that the kernel operates on.'''
    routines = {}
    current = None
    for line in psy_code.split("\n"):
        match = re.match(r"\s*SUBROUTINE (\w+)\((.*)\)\s*$", line, re.I)
        if match:
            current = (split_args(match.group(2).lower()), [])
            routines.setdefault(match.group(1).lower(), []).append(current)
            continue
        if re.match(r"\s*END SUBROUTINE", line, re.I):
            current = None
            continue
        if current is None:
            continue
        match = re.match(r"\s*CALL testkern_code\((.*)\)\s*$", line, re.I)
        if match:
            actuals = split_args(match.group(1).lower())
            # nlayers, scalar, 4 x field data, ...
            names = [actuals[1]] + [re.sub(r"_data$", "", arg)
                                    for arg in actuals[2:6]]
            current[1].append(("testkern_type", names))
            continue
        match = re.match(r"\s*(\w+)_data\(df\) = (.*)$", line, re.I)
        if match:
            rhs = match.group(2).strip().lower()
            rhs_match = re.match(r"(\w+)_data\(df\)$", rhs)
            if rhs_match:
                rhs = rhs_match.group(1)
            current[1].append(("assign", match.group(1).lower(), rhs))
    return routines


def check(name, invokes):
    ''' Generate code for one scenario and check the property.

    :returns: list of violation messages.
    '''
    problems = []
    with tempfile.TemporaryDirectory() as tmpdir:
        path = os.path.join(tmpdir, name + ".f90")
        with open(path, "w", encoding="utf-8") as ffile:
            ffile.write(build_source(name, invokes))
        alg, psy = generate(path, api="dynamo0.3",
                            kernel_paths=[KERNEL_PATH],
                            distributed_memory=False)
    alg_code, psy_code = str(alg), str(psy)
    routines = psy_routines(psy_code)

    calls = re.findall(r"^\s*CALL\s+(\w+)\s*\((.*)\)\s*$", alg_code,
                       re.I | re.M)
    if len(calls) != len(invokes):
        return [f"{len(invokes)} invokes in the source but {len(calls)} "
                f"calls in the generated algorithm layer"]

    for idx, ((_, _, kernels), (rname, actual_txt)) in enumerate(
            zip(invokes, calls)):
        where = f"invoke #{idx} -> 'call {rname}({actual_txt})'"
        decls = routines.get(rname.lower(), [])
        if len(decls) != 1:
            problems.append(f"{where}: routine is declared {len(decls)} "
                            f"times in the PSy layer")
            continue
        dummies, events = decls[0]
        actuals = [norm(arg) for arg in split_args(actual_txt)]
        if len(actuals) != len(dummies):
            problems.append(
                f"{where}: passes {len(actuals)} arguments but the PSy "
                f"routine declares {len(dummies)}: {dummies}")
            continue
        if len(set(dummies)) != len(dummies):
            problems.append(f"{where}: repeated dummy argument in {dummies}")
            continue
        if len(events) != len(kernels):
            problems.append(
                f"{where}: the source invoke has {len(kernels)} kernels but "
                f"the PSy routine executes {len(events)}")
            continue
        for kidx, ((functor, args), event) in enumerate(zip(kernels, events)):
            if functor == "testkern_type":
                kind, used = event[0], event[1]
            else:
                kind, used = event[0], list(event[1:])
            expected_kind = ("testkern_type" if functor == "testkern_type"
                             else "assign")
            if kind != expected_kind:
                problems.append(f"{where}: kernel {kidx} is '{kind}' but "
                                f"'{functor}' was written")
                continue
            for written, psy_name in zip(args, used):
                if written.startswith("="):
                    # A literal: the kernel must use the value as written.
                    if norm(written[1:]) != norm(psy_name):
                        problems.append(
                            f"{where}: kernel {kidx} ({functor}) uses "
                            f"'{psy_name}' instead of literal "
                            f"'{written[1:]}'")
                    continue
                if psy_name not in dummies:
                    problems.append(
                        f"{where}: kernel {kidx} ({functor}) operates on "
                        f"'{psy_name}' which is not a dummy argument")
                    continue
                passed = actuals[dummies.index(psy_name)]
                if passed != norm(written):
                    problems.append(
                        f"{where}: kernel {kidx} ({functor}) argument "
                        f"written as '{written}' operates on dummy "
                        f"'{psy_name}' which receives '{passed}'")
    return problems


def main():
    ''' Check all scenarios. '''
    failed = False
    for name, invokes in SCENARIOS.items():
        try:
            problems = check(name + "_alg", invokes)
        except Exception as err:  # pylint: disable=broad-except
            problems = [f"code generation failed: {type(err).__name__}: "
                        f"{err}"]
        if problems:
            failed = True
            print(f"[{name}] PROPERTY VIOLATED:")
            for problem in problems:
                print(f"    {problem}")
        else:
            print(f"[{name}] ok")
    return 1 if failed else 0


if __name__ == "__main__":
    sys.exit(main())
