"""Bounded run-time contract for C16 on the real SymbolTable (stand-in for
merge, which is not under a deductive contract, and replay of
counter-models)."""


def _view(tab):
    return (sorted((k, id(v), v.name, type(v).__name__)
                   for k, v in tab.symbols_dict.items()),
            sorted((k, id(v)) for k, v in tab.tags_dict.items()))


def search(tier="quick"):
    from psyclone.psyir.symbols import (SymbolTable, DataSymbol, Symbol,
                                        INTEGER_TYPE, SymbolError)
    from psyclone.psyir.nodes import Routine, Schedule
    n = 0
    samples = []
    names = ["a", "Val", "val_1", "X", "x_1", "tmp"]
    # 1. fresh names with mixed case, nested scopes and another table
    for other_names in (["Val"], ["VAL_1", "val"], ["X", "X_1", "x_2"], []):
        for own in (["val"], ["Val", "Val_1"], []):
            for outer in (["VAL_2"], []):
                rt = Routine.create("r", SymbolTable(), [])
                from psyclone.psyir.nodes import IfBlock, Literal
                from psyclone.psyir.symbols import BOOLEAN_TYPE
                ifb = IfBlock.create(Literal("true", BOOLEAN_TYPE), [])
                rt.addchild(ifb)
                inner = ifb.if_body
                for nm in outer:
                    rt.symbol_table.add(DataSymbol(nm, INTEGER_TYPE))
                for nm in own:
                    inner.symbol_table.add(DataSymbol(nm, INTEGER_TYPE))
                other = SymbolTable()
                for nm in other_names:
                    other.add(DataSymbol(nm, INTEGER_TYPE))
                for root in ("val", "VAL", "x"):
                    for shadow in (False, True):
                        n += 1
                        got = inner.symbol_table.next_available_name(
                            root, shadowing=shadow, other_table=other)
                        taken = {k for k in inner.symbol_table.symbols_dict}
                        taken |= {k for k in other.symbols_dict}
                        if not shadow:
                            taken |= {k for k in rt.symbol_table.symbols_dict}
                        if got.lower() in taken:
                            return {"confirmed": True, "cases": n,
                                    "input": {"own": own, "outer": outer,
                                              "other": other_names,
                                              "root": root,
                                              "shadowing": shadow},
                                    "observed": f"next_available_name = "
                                    f"{got!r} clashes with {sorted(taken)}"}
    samples.append({"next_available_name": "mixed-case other table"})
    # 2. merge: complete, unique, and atomic on refusal
    from psyclone.psyir.frontend.fortran import FortranReader
    progs = [
        ("subroutine caller()\n integer :: total, i\n total = 1\n"
         " write(*,*) total\nend subroutine\n"
         "subroutine callee()\n integer :: scratch, total\n total = 2\n"
         " write(*,*) total\nend subroutine\n"),
        ("subroutine caller()\n integer :: a, b\n a = b\nend subroutine\n"
         "subroutine callee()\n integer :: b, c\n c = b\nend subroutine\n"),
        ("subroutine caller()\n integer :: Val, val_1\n Val = val_1\n"
         "end subroutine\n"
         "subroutine callee()\n integer :: VAL, val_1\n VAL = val_1\n"
         "end subroutine\n"),
    ]
    for src in progs:
        n += 1
        psyir = FortranReader().psyir_from_source(src)
        r1, r2 = psyir.walk(Routine)[:2]
        t1, t2 = r1.symbol_table, r2.symbol_table
        before1, before2 = _view(t1), _view(t2)
        other_syms = [s for s in t2.symbols]
        try:
            t1.merge(t2)
        except SymbolError:
            if _view(t1) != before1 or _view(t2) != before2:
                return {"confirmed": True, "cases": n,
                        "input_class": "merge-not-atomic",
                        "input": {"source": src},
                        "observed": "merge raised SymbolError but the "
                        "tables changed"}
            continue
        keys = list(t1.symbols_dict)
        if len(set(keys)) != len(keys) or any(
                k != v.name.lower() for k, v in t1.symbols_dict.items()):
            return {"confirmed": True, "cases": n, "input": {"source": src},
                    "observed": "names not unique / keys not normalised "
                    "after merge"}
        present = {id(v) for v in t1.symbols_dict.values()}
        for s in other_syms:
            if id(s) not in present and s.name.lower() not in \
                    t1.symbols_dict:
                return {"confirmed": True, "cases": n,
                        "input": {"source": src},
                        "observed": f"symbol {s.name} of the other table "
                        "is missing after merge"}
    samples.append({"merge": "clash via CodeBlock use"})
    return {"confirmed": False, "cases": n, "samples": samples}


def merge_specialises_before_refusing():
    """design-time finding: a rejected merge has already specialised
    unresolved symbols in both tables"""
    from psyclone.psyir.symbols import (SymbolTable, Symbol, SymbolError,
                                        UnresolvedInterface)
    a, b = SymbolTable(), SymbolTable()
    for t in (a, b):
        t.add(Symbol("sin", interface=UnresolvedInterface()))
        t.add(Symbol("zz", interface=UnresolvedInterface()))
    before = (_view(a), _view(b))
    try:
        a.merge(b)
    except SymbolError:
        return (_view(a), _view(b)) != before
    return False
