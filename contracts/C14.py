"""C14 — the PSyIR tree stays well-formed under any sequence of edits.

Contracts on every ChildrenList method and the Node editing methods of
src/psyclone/psyir/nodes/node.py.  Top-level postconditions come from the
property text: after an operation every child of the list's node is listed
exactly once, is valid at its position (arbitrary validation callback V) and
points back to the node; an operation that raises leaves the heap unchanged.
"""
from pyvc.interp import Contract, LoopSpec
from pyvc.values import VFunc

ID = "C14"
NODE = "psyir/nodes/node.py"

HEAP = ["_parent", "_has_constructor_parent", "$len", "$items.ref"]
UNCH = "unchanged('_parent', '_has_constructor_parent', '$len', '$items.ref')"
UNCH_LINKS = "unchanged('_parent', '_has_constructor_parent')"

PREDS = {
    # representation invariant of one children list
    "WF": (["cl"], """
        cl._node_reference is not None and len(cl) >= 0
        and forall(lambda i: implies(0 <= i and i < len(cl),
                at(cl, i) is not None
                and at(cl, i)._parent is cl._node_reference
                and not at(cl, i)._has_constructor_parent
                and V(cl._node_reference, i, at(cl, i))))
        and forall(lambda i, j: implies(0 <= i and i < j and j < len(cl),
                at(cl, i) is not at(cl, j)))
        """),
    # every node that names N as its (finalised) parent is listed by N
    "OWN": (["cl"], """
        forall(lambda n: implies(n is not None
                                 and n._parent is cl._node_reference
                                 and not n._has_constructor_parent,
            exists(lambda i: 0 <= i and i < len(cl) and at(cl, i) is n)),
            'Node')
        """),
    "INV": (["cl"], "WF(cl) and OWN(cl)"),
    # element i of list cl in the entry state (cl, i evaluated *now*)
    "OLDAT": (["cl", "i"], "old(at(cl, i))"),
    # an arbitrary *other* list (ghost parameter `other`) of another node
    "OTHER": ([], """
        other is not None and other is not self
        and other._node_reference is not self._node_reference
        """),
    "ORPHAN": (["cl", "x"], """
        (x._parent is None or (x._has_constructor_parent and
                               x._parent is cl._node_reference))
        """),
    # only nodes a, b changed their parent link
    "FRAME_NODES": (["a", "b"], """
        forall(lambda n: implies(n is not a and n is not b,
            n._parent is old(n._parent) and
            n._has_constructor_parent == old(n._has_constructor_parent)),
            'Node')
        """),
    # no list other than self changed
    "FRAME_LISTS": ([], """
        forall(lambda l: implies(l is not self,
            len(l) == old(len(l)) and
            forall(lambda i: at(l, i) is old(at(l, i)))), 'ChildrenList')
        """),
}

# instantiation hints (proved as lemmas first): where the old members of a
# list are found afterwards
L_OTHER = ("forall(lambda n, i0: implies(OTHER() and 0 <= i0 and "
           "i0 < old(len(other)) and old(at(other, i0)) is n, "
           "i0 < len(other) and at(other, i0) is n), ('Node', 'int'))")


def l_moved(gone, delta):
    """every old member except `gone` is now at its old position or at
    old position + delta"""
    return (f"forall(lambda n, i0: implies(0 <= i0 and i0 < old(len(self)) "
            f"and old(at(self, i0)) is n and n is not {gone}, "
            f"(i0 < len(self) and at(self, i0) is n) or "
            f"(0 <= i0 + ({delta}) and i0 + ({delta}) < len(self) and "
            f"at(self, i0 + ({delta})) is n)), ('Node', 'int'))")


COMMON_REQ = [("inv", "INV(self)"),
              ("other", "implies(OTHER(), INV(other))")]
def common_ens(own_lemmas):
    return [("frame_lists", "FRAME_LISTS()"),
            ("wf", "WF(self)"), ("own", "OWN(self)", own_lemmas),
            ("other_wf", "implies(OTHER(), WF(other))"),
            ("other_own", "implies(OTHER(), OWN(other))", [L_OTHER])]
GHOST = {"other": "ChildrenList"}
REFUSE = {"GenerationError": None}
ONRAISE = [("unchanged", UNCH)]


def shift_loop(pos_expr, delta):
    """validation loops of pop/__delitem__/remove/insert"""
    return LoopSpec(invariants=[
        ("valid", f"forall(lambda p: implies(0 <= p and {pos_expr} <= p and "
                  f"p < {pos_expr} + _k, "
                  f"V(self._node_reference, p + ({delta}), at(self, p))))"),
        ("heap", UNCH)], modifies=[])


def build(uni):
    uni.list_classes["ChildrenList"] = "Node"
    uni.fields.update({
        "_parent": "Node", "_has_constructor_parent": "bool",
        "_node_reference": "Node", "_children": "ChildrenList",
        "_validation_text": "str", "_disable_tree_update": "bool",
        "_children_valid_format": "str",
    })
    uni.callbacks["_validation_function"] = ("cb_validate", ["int", "ref"],
                                             "bool")
    uni.callback_owner["_validation_function"] = "_node_reference"
    uni.consts["has_argument_names"] = VFunc("hook", fn=lambda it, args, kw,
                                             st, fr: it.bi_hasattr(
        [args[0], __import__("pyvc.values", fromlist=["VStr"]).VStr(
            "argument_names")], {}, st, fr))
    uni.consts["V"] = VFunc("uf", name="cb_validate",
                            argtags=["ref", "int", "ref"], ret="bool")
    uni.preds.update(PREDS)
    uni.ghost_preds.update({'OTHER', 'NOTHER'})
    uni.note_assumption(
        "Node.update_signal() changes no parent link and no children list "
        "(assumed contract; the only _update_node override, "
        "ACCDataDirective, rewrites clause children through these same "
        "list methods)")
    uni.note_assumption(
        "the validation callback is an arbitrary *pure* predicate "
        "V(node, position, item); the _validate_child overrides are used "
        "only by the realiser")

    cs = []

    def add(name, func=None, **kw):
        kw.setdefault("ghost", GHOST)
        c = Contract(f"{NODE}:{func or name}", name=name, **kw)
        uni.contracts[name] = c
        cs.append(c)
        return c

    uni.contracts["Node.update_signal"] = Contract(
        f"{NODE}:Node.update_signal", params={"self": "Node"},
        modifies=[], assumed=True)

    # ---------------------------------------------------------------- pop
    removal_ens = lambda k, gone: common_ens([l_moved(gone, "-1")]) + [   # noqa
        ("len", "len(self) == old(len(self)) - 1"),
        ("shift", f"forall(lambda j: implies(0 <= j and j < len(self), "
                  f"at(self, j) is old(at(self, ite(j < {k}, j, j + 1)))))"),
    ]
    K = "norm(index, len(self))"
    add("ChildrenList.pop",
        params={"self": "ChildrenList", "index": "int"},
        requires=COMMON_REQ, returns="Node",
        ensures=removal_ens(K, "result") + [
            ("result", f"result is old(at(self, {K}))"),
            ("orphaned", "result._parent is None and "
                         "not result._has_constructor_parent"),
            ("frame_nodes", "FRAME_NODES(result, result)")],
        raises={"IndexError": ("iff", "not (-len(self) <= index and "
                                      "index < len(self))"),
                # only a displaced sibling can make pop() refuse
                "GenerationError": ("if", "not (-len(self) <= index and "
                                    f"index < len(self)) or "
                                    f"exists(lambda p: {K} < p and "
                                    "p < len(self) and not V("
                                    "self._node_reference, p - 1, "
                                    "at(self, p)))")},
        on_raise=ONRAISE, modifies=HEAP)
    uni.loopspecs["ChildrenList.pop"] = {
        0: shift_loop("positiveindex + 1", "-1")}

    add("ChildrenList.__delitem__",
        params={"self": "ChildrenList", "index": "int"},
        requires=COMMON_REQ,
        ensures=removal_ens(K, f"old(at(self, {K}))") + [
            ("orphaned", f"old(at(self, {K}))._parent is None and "
                         f"not old(at(self, {K}))._has_constructor_parent"),
            ("frame_nodes", f"FRAME_NODES(old(at(self, {K})), "
                            f"old(at(self, {K})))")],
        raises={"IndexError": ("iff", "not (-len(self) <= index and "
                                      "index < len(self))"), **REFUSE},
        on_raise=ONRAISE, modifies=HEAP)
    uni.loopspecs["ChildrenList.__delitem__"] = {
        0: shift_loop("positiveindex + 1", "-1")}

    # ------------------------------------------------------------- remove
    add("ChildrenList.remove",
        params={"self": "ChildrenList", "item": "Node"},
        requires=COMMON_REQ + [("item", "item is not None")],
        ensures=common_ens([l_moved("item", "-1")]) + [
            ("len", "len(self) == old(len(self)) - 1"),
            ("gone", "forall(lambda j: implies(0 <= j and j < len(self), "
                     "at(self, j) is not item))"),
            ("orphaned", "item._parent is None and "
                         "not item._has_constructor_parent"),
            ("frame_nodes", "FRAME_NODES(item, item)")],
        raises={"ValueError": None, **REFUSE},
        on_raise=ONRAISE, modifies=HEAP)
    uni.loopspecs["ChildrenList.remove"] = {
        0: LoopSpec(invariants=[
            ("notyet", "forall(lambda q: implies(0 <= q and q < _k, "
                       "at(self, q) is not item))"),
            ("heap", UNCH)], modifies=[]),
        1: shift_loop("index + 1", "-1")}

    # ------------------------------------------------------------- append
    add("ChildrenList.append",
        params={"self": "ChildrenList", "item": "Node"},
        requires=COMMON_REQ + [("item", "item is not None")],
        ensures=common_ens([l_moved("None", "1")]) + [
            ("len", "len(self) == old(len(self)) + 1"),
            ("last", "at(self, len(self) - 1) is item"),
            ("prefix", "forall(lambda j: implies(0 <= j and "
                       "j < len(self) - 1, at(self, j) is old(at(self, j))))"),
            ("frame_nodes", "FRAME_NODES(item, item)")],
        raises=REFUSE, on_raise=ONRAISE, modifies=HEAP)

    # ------------------------------------------------------------- insert
    KI = ("ite(index < 0, ite(len(self) + index < 0, 0, len(self) + index),"
          " ite(index > len(self), len(self), index))")
    add("ChildrenList.insert",
        params={"self": "ChildrenList", "index": "int", "item": "Node"},
        requires=COMMON_REQ + [("item", "item is not None")],
        ensures=common_ens([l_moved("None", "1")]) + [
            ("len", "len(self) == old(len(self)) + 1"),
            ("placed", f"forall(lambda j: implies(0 <= j and j < len(self), "
                       f"at(self, j) is ite(j < old({KI}), old(at(self, j)), "
                       f"ite(j == old({KI}), item, old(at(self, j - 1))))))"),
            ("frame_nodes", "FRAME_NODES(item, item)")],
        raises=REFUSE, on_raise=ONRAISE, modifies=HEAP)
    uni.loopspecs["ChildrenList.insert"] = {
        0: shift_loop("positiveindex", "1")}

    # -------------------------------------------------------- __setitem__
    add("ChildrenList.__setitem__",
        params={"self": "ChildrenList", "index": "int", "item": "Node"},
        requires=COMMON_REQ + [("item", "item is not None")],
        ensures=common_ens([l_moved(f"old(at(self, {K}))", "0")]) + [
            ("len", "len(self) == old(len(self))"),
            ("placed", f"forall(lambda j: implies(0 <= j and j < len(self), "
                       f"at(self, j) is ite(j == old({K}), item, "
                       f"old(at(self, j)))))"),
            ("orphaned", f"old(at(self, {K}))._parent is None and "
                         f"not old(at(self, {K}))._has_constructor_parent"),
            ("frame_nodes", f"FRAME_NODES(item, old(at(self, {K})))")],
        raises={"IndexError": ("iff", "not (-len(self) <= index and "
                                      "index < len(self))"), **REFUSE},
        on_raise=ONRAISE, modifies=HEAP)

    # ------------------------------------------------------------- extend
    add("ChildrenList.extend",
        params={"self": "ChildrenList", "items": "list[Node]"},
        requires=COMMON_REQ + [
            ("items", "items is not None and items is not self and "
                      "len(items) >= 0"),
            ("items_nonnull", "forall(lambda q: implies("
                      "0 <= q and q < len(items), at(items, q) is not None))"),
            ("items_other", "items is not other")],
        ensures=common_ens([l_moved("None", "0")]) + [
            ("len", "len(self) == old(len(self)) + old(len(items))"),
            ("placed", "forall(lambda j: implies(0 <= j and j < len(self), "
                       "at(self, j) is ite(j < old(len(self)), "
                       "old(at(self, j)), "
                       "old(at(items, j - len(self))))))"),
            ("frame_nodes",
             "forall(lambda n: implies(not exists(lambda q: 0 <= q and "
             "q < old(len(items)) and old(at(items, q)) is n), "
             "n._parent is old(n._parent) and n._has_constructor_parent == "
             "old(n._has_constructor_parent)), 'Node')")],
        # extend() refuses only an invalid, non-orphan or repeated item
        raises={"GenerationError": ("if",
                "exists(lambda q: 0 <= q and q < len(items) and ("
                "not V(self._node_reference, len(self) + q, at(items, q)) "
                "or not ORPHAN(self, at(items, q)) or "
                "exists(lambda p: 0 <= p and p < q and "
                "at(items, p) is at(items, q))))")},
        on_raise=ONRAISE, modifies=HEAP)
    uni.loopspecs["ChildrenList.extend"] = {
        0: LoopSpec(invariants=[
            ("checked", "forall(lambda q: implies(0 <= q and q < _k, "
                        "V(self._node_reference, len(self) + q, at(items, q))"
                        " and ORPHAN(self, at(items, q))))"),
            ("distinct", "forall(lambda p, q: implies(0 <= p and p < q and "
                         "q < _k, at(items, p) is not at(items, q)))"),
            ("heap", UNCH)], modifies=[]),
        1: LoopSpec(invariants=[
            ("linked", "forall(lambda q: implies(0 <= q and q < _k, "
                       "at(items, q)._parent is self._node_reference and "
                       "not at(items, q)._has_constructor_parent))"),
            ("rest", "forall(lambda n: implies(not exists(lambda q: 0 <= q "
                     "and q < _k and at(items, q) is n), "
                     "n._parent is old(n._parent) and "
                     "n._has_constructor_parent == "
                     "old(n._has_constructor_parent)), 'Node')"),
            ("lists", "unchanged_since_head('$len', '$items.ref')")],
            modifies=["_parent", "_has_constructor_parent"])}

    # ------------------------------------------------------------ reverse
    add("ChildrenList.reverse",
        params={"self": "ChildrenList"},
        requires=COMMON_REQ,
        ensures=common_ens([
            "forall(lambda n, i0: implies(0 <= i0 and i0 < old(len(self)) "
            "and old(at(self, i0)) is n, at(self, len(self) - 1 - i0) is n),"
            " ('Node', 'int'))"]) + [
            ("len", "len(self) == old(len(self))"),
            ("placed", "forall(lambda j: implies(0 <= j and j < len(self), "
                       "at(self, j) is old(at(self, len(self) - 1 - j))))"),
            ("links", UNCH_LINKS)],
        raises=REFUSE, on_raise=ONRAISE, modifies=HEAP)
    uni.loopspecs["ChildrenList.reverse"] = {
        0: LoopSpec(invariants=[
            ("valid", "forall(lambda q: implies(0 <= q and q < _k, "
                      "V(self._node_reference, len(self) - q - 1, "
                      "at(self, q))))"),
            ("heap", UNCH)], modifies=[])}

    # -------------------------------------------------------------- clear
    add("ChildrenList.clear",
        params={"self": "ChildrenList"},
        requires=COMMON_REQ,
        ensures=common_ens([]) + [
            ("len", "len(self) == 0"),
            ("orphaned", "forall(lambda q: implies(0 <= q and "
                         "q < old(len(self)), "
                         "old(at(self, q))._parent is None and not "
                         "old(at(self, q))._has_constructor_parent))"),
            ("frame_nodes",
             "forall(lambda n: implies(not exists(lambda q: 0 <= q and "
             "q < old(len(self)) and old(at(self, q)) is n), "
             "n._parent is old(n._parent) and n._has_constructor_parent == "
             "old(n._has_constructor_parent)), 'Node')")],
        raises={}, on_raise=ONRAISE, modifies=HEAP)
    uni.loopspecs["ChildrenList.clear"] = {
        0: LoopSpec(invariants=[
            ("unlinked", "forall(lambda q: implies(0 <= q and q < _k, "
                         "at(self, q)._parent is None and "
                         "not at(self, q)._has_constructor_parent))"),
            ("rest", "forall(lambda n: implies(not exists(lambda q: 0 <= q "
                     "and q < _k and at(self, q) is n), "
                     "n._parent is old(n._parent) and "
                     "n._has_constructor_parent == "
                     "old(n._has_constructor_parent)), 'Node')"),
            ("lists", "unchanged('$len', '$items.ref')")],
            modifies=["_parent", "_has_constructor_parent"])}

    # --------------------------------------------------------------- sort
    add("ChildrenList.sort",
        params={"self": "ChildrenList", "reverse": "bool", "key": "Node"},
        requires=COMMON_REQ, ensures=[("never", "False")],
        raises={"NotImplementedError": None}, on_raise=ONRAISE,
        modifies=[])

    # ------------------------------------------------ __iadd__ / __imul__
    add("ChildrenList.__iadd__",
        params={"self": "ChildrenList", "items": "list[Node]"},
        requires=uni.contracts["ChildrenList.extend"].requires,
        returns="ChildrenList",
        ensures=[("self", "result is self")] +
        uni.contracts["ChildrenList.extend"].ensures,
        raises=REFUSE, on_raise=ONRAISE, modifies=HEAP)
    add("ChildrenList.__imul__",
        params={"self": "ChildrenList", "value": "int"},
        requires=COMMON_REQ, ensures=[("never", "False")],
        raises={"NotImplementedError": None}, on_raise=ONRAISE,
        modifies=[])

    # =================================================== Node operations
    uni.consts["Node._children_valid_format"] = \
        __import__("pyvc.values", fromlist=["VStr"]).VStr(
            __import__("z3").String("children_valid_format"))
    NODE_REQ = [
        ("mine", "self._children is not None and "
                 "self._children._node_reference is self"),
        ("inv", "INV(self._children)"),
        ("other", "implies(NOTHER(), INV(other))")]
    uni.preds["NOTHER"] = ([], "other is not None and other is not self._children and "
                               "other._node_reference is not self")
    NODE_ENS = [
        ("wf", "WF(self._children)"), ("own", "OWN(self._children)"),
        ("other_wf", "implies(NOTHER(), WF(other))"),
        ("other_own", "implies(NOTHER(), OWN(other))")]

    for variant, ptype in (("", "int"), ("[index=None]", "none")):
        add("Node.addchild" + variant, func="Node.addchild",
            params={"self": "Node", "child": "Node", "index": ptype},
            requires=NODE_REQ + [("child", "child is not None")],
            ensures=NODE_ENS + [
                ("len", "len(self._children) == old(len(self._children)) + 1"),
                ("listed", "at(self._children, len(self._children) - 1) "
                           "is child" if ptype == "none" else
                           "at(self._children, ite(index < 0, "
                           "ite(old(len(self._children)) + index < 0, 0, "
                           "old(len(self._children)) + index), "
                           "ite(index > old(len(self._children)), "
                           "old(len(self._children)), index))) is child"),
                ("linked", "child._parent is self and "
                           "not child._has_constructor_parent")],
            raises=REFUSE, on_raise=ONRAISE, modifies=HEAP)

    add("Node.pop_all_children", allocates=True,
        params={"self": "Node"},
        requires=NODE_REQ, returns="list[Node]",
        ensures=NODE_ENS + [
            ("empty", "len(self._children) == 0"),
            ("orphaned", "forall(lambda q: implies(0 <= q and "
                         "q < old(len(self._children)), "
                         "old(at(self._children, q))._parent is None and not "
                         "old(at(self._children, q))._has_constructor_parent))"
             ),
            ("no_child_left", "forall(lambda n: implies(n is not None, "
                              "not (n._parent is self and not "
                              "n._has_constructor_parent)), 'Node')"),
            ("same_list", "self._children is old(self._children)"),
            ("result", "fresh(result) and "
                       "len(result) == old(len(self._children)) and "
                       "forall(lambda j: implies(0 <= j and j < len(result), "
                       "at(result, j) is old(at(self._children, j))))"),
            ("links", "forall(lambda n: implies(not exists(lambda q: 0 <= q "
                      "and q < old(len(self._children)) and "
                      "old(at(self._children, q)) is n), "
                      "n._parent is old(n._parent) and "
                      "n._has_constructor_parent == "
                      "old(n._has_constructor_parent)), 'Node')"),
            ("others_same", "forall(lambda l: implies(l is not old(self._children) and not fresh(l), len(l) == old(len(l)) and forall(lambda i: at(l, i) is old(at(l, i)))), 'ChildrenList')")],
        raises={}, modifies=HEAP)
    uni.local_types["Node.pop_all_children"] = {
        "free_children": "list[Node]"}
    uni.loopspecs["Node.pop_all_children"] = {0: LoopSpec(
        invariants=[
            ("wf", "WF(self._children)"), ("own", "OWN(self._children)"),
            ("other", "implies(NOTHER(), INV(other))"),
            ("done", "forall(lambda q: implies(0 <= q and "
                     "q < old(len(self._children)) and "
                     "not exists(lambda i: 0 <= i and i < len(self._children)"
                     " and at(self._children, i) is "
                     "old(at(self._children, q))), "
                     "old(at(self._children, q))._parent is None and not "
                     "old(at(self._children, q))._has_constructor_parent))"),
            ("fresh", "fresh(free_children) and "
                      "free_children is not self._children and "
                      "free_children is not other"),
            ("mine", "self._children._node_reference is self and "
                     "self._children is old(self._children)"),
            ("prefix", "len(self._children) <= old(len(self._children)) and "
                       "forall(lambda j: implies(0 <= j and "
                       "j < len(self._children), at(self._children, j) is "
                       "old(at(self._children, j))))"),
            ("suffix_len", "len(free_children) == old(len(self._children)) - "
                           "len(self._children)"),
            ("suffix", "forall(lambda j: implies(0 <= j and "
                       "j < len(free_children), at(free_children, j) is "
                       "OLDAT(self._children, len(self._children) + j)))"),
            ("links", "forall(lambda n: implies(not exists(lambda q: 0 <= q "
                      "and q < old(len(self._children)) and "
                      "old(at(self._children, q)) is n), "
                      "n._parent is old(n._parent) and "
                      "n._has_constructor_parent == "
                      "old(n._has_constructor_parent)), 'Node')"),
            ("others_same",
             "forall(lambda l: implies(l is not self._children and "
             "l is not free_children and not fresh(l), "
             "len(l) == old(len(l)) and "
             "forall(lambda i: at(l, i) is old(at(l, i)))), 'ChildrenList')")],
        modifies=HEAP, decreases="len(self._children)")}

    add("Node.detach",
        params={"self": "Node"},
        requires=[
            ("parent", "implies(self._parent is not None, "
                       "self._parent._children is not None and "
                       "self._parent._children._node_reference is "
                       "self._parent and INV(self._parent._children))"),
            ("other", "implies(other is not None and self._parent is not None"
                      " and other is not self._parent._children and "
                      "other._node_reference is not self._parent, "
                      "INV(other))"),
            ("finalised", "not self._has_constructor_parent")],
        returns="Node",
        ensures=[
            ("result", "result is self"),
            ("orphan", "self._parent is None and "
                       "not self._has_constructor_parent"),
            ("parent_wf", "implies(old(self._parent) is not None, "
                          "WF(old(self._parent._children)) and "
                          "OWN(old(self._parent._children)))"),
            ("parent_len", "implies(old(self._parent) is not None, "
                           "len(old(self._parent._children)) == "
                           "old(len(self._parent._children)) - 1)"),
            ("other", "implies(other is not None and "
                      "old(self._parent) is not None and "
                      "other is not old(self._parent._children) and "
                      "other._node_reference is not old(self._parent), "
                      "INV(other))")],
        raises=REFUSE, on_raise=ONRAISE, modifies=HEAP)
    add("Node.children.setter",
        params={"self": "Node", "my_children": "list[Node]"},
        requires=NODE_REQ + [
            ("items", "my_children is not None and "
                      "my_children is not self._children and "
                      "my_children is not other and "
                      "len(my_children) >= 0 and forall(lambda q: implies("
                      "0 <= q and q < len(my_children), "
                      "at(my_children, q) is not None))")],
        ensures=NODE_ENS + [
            ("mine", "self._children is not None and "
                     "self._children._node_reference is self"),
            ("len", "len(self._children) == old(len(my_children))"),
            ("placed", "forall(lambda j: implies(0 <= j and "
                       "j < len(self._children), at(self._children, j) is "
                       "old(at(my_children, j))))")],
        raises=REFUSE,
        on_raise=NODE_ENS + [
            ("mine", "self._children is not None and "
                     "self._children._node_reference is self"),
            ("same_len",
             "len(self._children) == old(len(self._children))"),
            ("same_children",
             "forall(lambda j: implies(0 <= j and j < len(self._children), "
             "at(self._children, j) is old(at(self._children, j))))"),
            ("links", UNCH_LINKS),
            ("others_same", "forall(lambda l: implies(l is not old(self._children) and not fresh(l), len(l) == old(len(l)) and forall(lambda i: at(l, i) is old(at(l, i)))), 'ChildrenList')")],
        modifies=HEAP + ["_children", "_node_reference"])

    PARENT_OK = ("self._parent._children is not None and "
                 "self._parent._children._node_reference is self._parent "
                 "and INV(self._parent._children)")
    add("Node.replace_with",
        params={"self": "Node", "node": "Node",
                "keep_name_in_context": "bool"},
        requires=[
            ("parent", f"implies(self._parent is not None, {PARENT_OK})"),
            ("finalised", "not self._has_constructor_parent"),
            ("node", "node is not None and isinstance(node, Node)"),
            # named-argument replacement (Call.replace_named_arg) is not
            # under contract: the parent has no 'argument_names'
            ("unnamed", "implies(self._parent is not None, "
                        "not has_argument_names(self._parent))"),
            ("other", "implies(other is not None and self._parent is not None"
                      " and other is not self._parent._children and "
                      "other._node_reference is not self._parent, "
                      "INV(other))")],
        ensures=[
            ("parent_inv", "INV(old(self._parent._children))"),
            ("orphan", "self._parent is None and "
                       "not self._has_constructor_parent"),
            ("linked", "node._parent is old(self._parent) and "
                       "not node._has_constructor_parent"),
            ("len", "len(old(self._parent._children)) == "
                    "old(len(self._parent._children))"),
            ("placed", "forall(lambda j: implies(0 <= j and "
                       "j < len(old(self._parent._children)), "
                       "at(old(self._parent._children), j) is "
                       "ite(OLDAT(old(self._parent._children), j) is self, "
                       "node, OLDAT(old(self._parent._children), j))))"),
            ("other", "implies(other is not None and "
                      "other is not old(self._parent._children) and "
                      "other._node_reference is not old(self._parent), "
                      "INV(other))")],
        raises={"GenerationError": None},
        on_raise=ONRAISE, modifies=HEAP)
    uni.loopspecs["Node.position"] = {0: LoopSpec(
        invariants=[("notyet", "forall(lambda q: implies(0 <= q and q < _k, "
                               "at(self._parent._children, q) is not self))"),
                    ("heap", UNCH)], modifies=[])}
    return cs


# ---------------------------------------------------------------------------
LEVEL = "proof"
TRUSTED = [
    "pyvc VC generator and z3/cvc5",
    "models of list.insert/pop/append/extend/reverse/__setitem__/index "
    "(cross-checked against CPython by pyvc.selftest_models)",
    "exception-message expressions (f-strings) are not evaluated",
    "Node.replace_with: named-argument path (Call.replace_named_arg) not "
    "under contract",
    "slice indices (children[a:b] = ...) are outside the contract "
    "(index: int)",
]
EXPLANATION = (
    "Every ChildrenList method and the Node editing methods are verified "
    "for all list lengths, all integer indices and an arbitrary validation "
    "predicate against the representation invariant WF+OWN, including the "
    "exceptional frame (unchanged on raise) and the invariant of any other "
    "list (ghost parameter).")

LIST_MUTATORS = ["append", "extend", "insert", "remove", "pop", "clear",
                 "sort", "reverse", "__setitem__", "__delitem__", "__iadd__",
                 "__imul__"]


def extra(uni, tier, seed):
    """structural obligations read from the class AST"""
    import ast
    from pyvc.runner import Extra
    out = []
    info = uni.repo.cls("ChildrenList", NODE)
    missing = [m for m in LIST_MUTATORS if m not in info.methods]
    rp = None
    if missing:
        from realise import C14 as R
        rp = R.search(missing[0])
        rp.setdefault("confirmed", False)
    out.append(Extra("ChildrenList#overrides-all-list-mutators",
                     not missing,
                     f"not overridden: {missing}", "scan", replay=rp,
                     count=len(LIST_MUTATORS),
                     samples=LIST_MUTATORS))
    # every ChildrenList(...) construction passes the node's own validator
    bad = []
    sites = 0
    for rel in uni.repo.all_py():
        for node in ast.walk(uni.repo.module(rel)):
            if isinstance(node, ast.Call) and \
                    isinstance(node.func, ast.Name) and \
                    node.func.id == "ChildrenList":
                sites += 1
                txt = [ast.unparse(a) for a in node.args]
                if txt[:2] != ["self", "self._validate_child"]:
                    bad.append(f"{rel}:{node.lineno}")
    out.append(Extra("ChildrenList#constructed-with-own-validator",
                     not bad and sites > 0, f"sites={sites} bad={bad}",
                     "scan", count=max(1, sites),
                     replay={"confirmed": False}))
    # every contract target exists with the contract's loops
    return out


def replay(name, ob, model, uni):
    from realise import C14 as R
    func = name.split("#")[0]
    op = func.split(".")[-1].split("[")[0]
    if func.startswith("Node.children"):
        op = "setter"
    idx = None
    if model is not None and "index" in getattr(ob, "entry", {}):
        try:
            idx = model.eval(ob.entry["index"],
                             model_completion=True).as_long()
        except Exception:     # noqa
            idx = None
    return R.search(op, idx)
