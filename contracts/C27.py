"""C27 — ModuleManager.sort_modules orders dependencies first.

Contract on the real body of parse/module_manager.py:ModuleManager.
sort_modules for every dependency map (dict[str, set[atom]]), including
unknown and cyclic dependencies.  Acyclicity is a ghost rank function.
"""
from pyvc.interp import Contract, LoopSpec
from pyvc.values import VFunc

ID = "C27"
LEVEL = "proof"
MM = "parse/module_manager.py"
MD = "module_dependencies"

PREDS = {
    # d is a well-formed dict[str, set[atom]]: non-null, distinct value sets
    "DWF": (["d"], """
        d is not None
        and forall(lambda m: implies(m in d, d[m] is not None), 'atom')
        and forall(lambda m1, m2: implies(m1 in d and m2 in d and m1 != m2,
                                          d[m1] is not d[m2]), 'atom')
        """),
    # known dependencies of m in the input
    "DEP": (["m", "x"], f"old(x in {MD}[m] and x in {MD})"),
    "ACYC": ([], f"""
        forall(lambda m, x: implies(old(m in {MD}) and DEP(m, x),
                                    rank(x) < rank(m)), 'atom')
        """),
    "INMD": (["m"], f"old(m in {MD})"),
    "INRES": (["r", "m"], "exists(lambda i: 0 <= i and i < len(r) and "
                          "at(r, i) == m)"),
    # the copy is made of fresh objects: the input cannot be touched
    "FRESHCOPY": (["t"], f"""
        fresh(t) and DWF(t)
        and forall(lambda m: implies(m in t, fresh(t[m])), 'atom')
        """),
    "INPUT_SAME": ([], "unchanged('$dom.atom', '$map.atom.ref', '$set.atom', "
                       "'$card')"),
    # main-loop invariant pieces
    "I1A": (["t"], f"forall(lambda m: implies(m in t, old(m in {MD})), "
                   f"'atom')"),
    "I1B": (["t", "r"], f"""
        forall(lambda i: implies(0 <= i and i < len(r),
            INMD(at(r, i)) and not (at(r, i) in t)))
        """),
    "I1C": (["t", "r"], f"""
        forall(lambda m: implies(old(m in {MD}) and not (m in t),
                                 INRES(r, m)), 'atom')
        """),
    "I2": (["r"], "forall(lambda i, j: implies(0 <= i and i < j and "
                  "j < len(r), at(r, i) != at(r, j)))"),
    "I3": (["t"], """
        forall(lambda m, x: implies(m in t,
            (x in t[m]) == (DEP(m, x) and x in t)), 'atom')
        """),
    "I4": (["r"], """
        implies(ACYC(), forall(lambda i, x: implies(
            0 <= i and i < len(r) and DEP(at(r, i), x),
            exists(lambda j: 0 <= j and j < i and at(r, j) == x)),
            ('int', 'atom')))
        """),
}


def build(uni):
    uni.fields.update({"_ignore_modules": "set[atom]"})
    uni.preds.update(PREDS)
    uni.consts["rank"] = VFunc("uf", name="rank", argtags=["atom"], ret="int")
    uni.note_assumption(
        "lemma (Lean, lemmas/MinElem.lean): a finite non-empty set of "
        "module names has a rank-minimal element; assumed when the search "
        "loop of sort_modules is exhausted")
    uni.note_assumption(
        "precondition: the value sets of the input map are distinct objects "
        "(aliased sets would be shared by deepcopy as well; benign but "
        "outside the model)")
    c = Contract(
        f"{MM}:ModuleManager.sort_modules",
        params={"self": "ModuleManager", MD: "dict[atom,set[atom]]"},
        requires=[("wf", f"DWF({MD})"),
                  ("ignores", "self._ignore_modules is not None")],
        returns="list[atom]",
        ensures=[
            ("complete", f"forall(lambda m: implies(old(m in {MD}), "
                         f"INRES(result, m)), 'atom')"),
            ("sound", f"forall(lambda i: implies(0 <= i and i < len(result),"
                      f" INMD(at(result, i))))"),
            ("once", "I2(result)"),
            ("count", f"len(result) == old(card({MD}))"),
            ("deps_first", "I4(result)"),
            ("input_unchanged", "INPUT_SAME()"),
        ],
        raises={}, modifies=["$dom.atom", "$map.atom.ref", "$set.atom", "$card",
                             "$len", "$items.atom"])
    uni.contracts["ModuleManager.sort_modules"] = c
    uni.local_types["ModuleManager.sort_modules"] = {"result": "list[atom]"}
    SETS = ["$set.atom", "$card"]
    uni.loopspecs["ModuleManager.sort_modules"] = {
        # for module, dependencies in todo.items():
        0: LoopSpec(invariants=[
            ("copy", "FRESHCOPY(todo) and len(result) == 0 and fresh(result)"),
            ("keys", f"forall(lambda m: (m in todo) == old(m in {MD}), "
                     f"'atom')"),
            ("done", f"forall(lambda m, x: implies(m in _seen, "
                     f"(x in todo[m]) == DEP(m, x)), 'atom')"),
            ("rest", f"forall(lambda m, x: implies(m in todo and "
                     f"not (m in _seen), (x in todo[m]) == "
                     f"old(x in {MD}[m])), 'atom')"),
            ("input", "INPUT_SAME()"),
            ("card", f"card(todo) == old(card({MD}))")],
            modifies=SETS),
        # for dep in dependencies_copy:
        1: LoopSpec(invariants=[
            ("filtered", "forall(lambda x: (x in dependencies) == "
                         "(x in dependencies_copy and "
                         "(not (x in _seen) or x in todo)), 'atom')"),
            ("others", "forall(lambda o: implies(o is not dependencies, "
                       "select_set(o) == entry(select_set(o)) and "
                       "card(o) == entry(card(o))), 'set[atom]')"),
            ("input", "INPUT_SAME()")],
            modifies=SETS),
        # while todo:
        2: LoopSpec(invariants=[
            ("copy", "FRESHCOPY(todo) and fresh(result) and "
                     "result is not todo"),
            ("i1a", "I1A(todo)"), ("i1b", "I1B(todo, result)"),
            ("i1c", "I1C(todo, result)", [
                "len(result) == head(len(result)) + 1 and "
                "forall(lambda i: implies(0 <= i and i < len(result) - 1, "
                "at(result, i) == head(at(result, i))))",
                "forall(lambda m: implies(head(m in todo) and "
                "not (m in todo), m == at(result, len(result) - 1)), "
                "'atom')"]),
            ("i2", "I2(result)"),
            ("i3", "I3(todo)", [
                "forall(lambda m, x: implies(m in todo, (x in todo[m]) == "
                "(head(x in todo[m]) and x != at(result, len(result) - 1))),"
                " 'atom')",
                "forall(lambda x: (x in todo) == (head(x in todo) and "
                "x != at(result, len(result) - 1)), 'atom')"]),
            ("i4", "I4(result)"),
            ("count", f"len(result) + card(todo) == old(card({MD})) and "
                      f"len(result) >= 0"),
            ("input", "INPUT_SAME()")],
            modifies=["$dom.atom", "$set.atom", "$card", "$len", "$items.atom"],
            decreases="card(todo)"),
        # for mod, dep in todo.items(): if not dep: break
        3: LoopSpec(invariants=[
            ("nonempty", "forall(lambda m: implies(m in _seen, "
                         "exists(lambda x: x in todo[m], 'atom')), 'atom')"),
            ("heap", "unchanged_since_head('$dom.atom', '$map.atom.ref', "
                     "'$set.atom', '$card', '$len', '$items.atom')")],
            modifies=[],
            exhaust_lemma=(
                "finite non-empty set has a rank-minimal element",
                "implies(exists(lambda m: m in todo, 'atom'), "
                "exists(lambda m: m in todo and forall(lambda m2: "
                "implies(m2 in todo, rank(m) <= rank(m2)), 'atom'), 'atom'))")),
        # for dep in todo.values(): if mod in dep: dep.remove(mod)
        4: LoopSpec(invariants=[
            ("done", "forall(lambda m, x: implies(m in _seen, "
                     "(x in todo[m]) == (entry(x in todo[m]) and x != mod)),"
                     " 'atom')"),
            ("rest", "forall(lambda m, x: implies(m in todo and "
                     "not (m in _seen), (x in todo[m]) == "
                     "entry(x in todo[m])), 'atom')"),
            ("others", "forall(lambda o: implies(not exists(lambda m: "
                       "m in todo and todo[m] is o, 'atom'), "
                       "select_set(o) == entry(select_set(o)) and "
                       "card(o) == entry(card(o))), 'set[atom]')"),
            ("input", "INPUT_SAME()")],
            modifies=SETS),
    }
    return [c]


TRUSTED = [
    "pyvc VC generator and z3/cvc5",
    "dict/set model (membership arrays + ghost cardinality with the "
    "finite-set facts card>=0, card=0 <=> empty)",
    "iteration order of dict/set is arbitrary (seen-set rule)",
    "module names are atoms (only compared/hashed by the code)",
    "termination: variant card(todo) for the outer loop; inner for-loops "
    "over finite containers terminate",
]
EXPLANATION = (
    "sort_modules is verified for every dict[str,set[str]]: the result is a "
    "permutation of the keys, the input is not modified, and under a ghost "
    "rank function witnessing acyclicity of the known dependencies every "
    "module follows all of its known dependencies; cyclic inputs still give "
    "a complete list.")


def extra(uni, tier, seed):
    from pyvc.runner import Extra
    import os
    import subprocess
    out = []
    if tier == "thorough":
        path = os.path.join(os.path.dirname(os.path.dirname(
            os.path.abspath(__file__))), "lemmas", "MinElem.lean")
        try:
            r = subprocess.run(["lean", path], capture_output=True,
                               text=True, timeout=600)
            ok = r.returncode == 0 and "error" not in r.stdout
            out.append(Extra("lemma#MinElem.lean", ok,
                             (r.stdout + r.stderr)[:300], "lean",
                             undecided=not ok))
        except Exception as err:      # noqa
            out.append(Extra("lemma#MinElem.lean", False, repr(err), "lean",
                             undecided=True))
    return out


def replay(name, ob, model, uni):
    from realise import C27 as R
    return R.search(3)


def bounded(uni, tier, seed):
    """bounded stand-in used only when the deductive part is undecided"""
    from realise import C27 as R
    return R.search(3 if tier == "quick" else 4)
