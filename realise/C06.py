"""Realiser for C06: the real ArrayMixin.same_range on parsed assignments
whose arrays have literal declared bounds (ground truth: the integer
start / step of each range after resolving ':' to the declared bounds), and
the real Matmul2CodeTrans.validate on aliased results."""
import itertools


def _ranges(decl_c, decl_d, lhs, rhs):
    from psyclone.psyir.frontend.fortran import FortranReader
    from psyclone.psyir.nodes import Assignment, Range
    src = (f"subroutine s()\n  real :: c({decl_c}), d({decl_d})\n"
           f"  {lhs} = {rhs}\nend subroutine s\n")
    asg = FortranReader().psyir_from_source(src).walk(Assignment)[0]
    return src, asg.lhs, asg.rhs


def _effective_start(ref, idx):
    """integer lower end of the range ref.indices[idx]"""
    from psyclone.psyir.nodes import Literal
    rng = ref.indices[idx]
    if ref.is_lower_bound(idx):
        return int(ref.symbol.datatype.shape[idx].lower.value)
    return int(rng.start.value) if isinstance(rng.start, Literal) else None


def same_range_cases():
    from psyclone.psyir.nodes import Range
    decls_d = ["5,0:10", "0:4,10", "2:6,3:12", "5,10"]
    rhss = ["d(2,:)", "d(:,2)", "d(2,0:9)", "d(3,3:12)", "d(0:4,1)"]
    lhss = [("10", "c(:)"), ("0:9", "c(:)"), ("5", "c(:)"), ("3:12", "c(:)")]
    for dd, rhs, (dc, lhs) in itertools.product(decls_d, rhss, lhss):
        try:
            src, a, b = _ranges(dc, dd, lhs, rhs)
            ia = [k for k, x in enumerate(a.indices)
                  if isinstance(x, Range)][0]
            ib = [k for k, x in enumerate(b.indices)
                  if isinstance(x, Range)][0]
            sa, sb = _effective_start(a, ia), _effective_start(b, ib)
            if sa is None or sb is None:
                continue
            ans = a.same_range(ia, b, ib)
        except Exception:      # noqa: ill-formed combination (bounds)
            continue
        if ans and sa != sb:
            return {"confirmed": True, "input": {"source": src},
                    "observed": f"same_range({ia}, rhs, {ib}) is True but "
                    f"the ranges start at {sa} and {sb}"}
    return {"confirmed": False}


def matmul_alias_cases():
    from psyclone.psyir.frontend.fortran import FortranReader
    from psyclone.psyir.nodes import IntrinsicCall
    from psyclone.psyir.transformations import (Matmul2CodeTrans,
                                                TransformationError)
    for stmt in ("b = matmul(a, b)", "a = matmul(a, b)", "b = matmul(b, b)"):
        src = ("subroutine s(a, b)\n  real :: a(4,4), b(4,4)\n"
               f"  {stmt}\nend subroutine s\n")
        call = FortranReader().psyir_from_source(src).walk(IntrinsicCall)[0]
        try:
            Matmul2CodeTrans().validate(call)
        except TransformationError:
            continue
        return {"confirmed": True, "input": {"source": src},
                "observed": "Matmul2CodeTrans.validate accepts a MATMUL "
                "whose result array is one of its arguments: the generated "
                "loop nest overwrites elements it still has to read"}
    return {"confirmed": False}


def run(name=""):
    if "same_range" in name:
        return same_range_cases()
    if "Matmul" in name:
        return matmul_alias_cases()
    return {"confirmed": False}


def known(kid):
    return kid in LOWERINGS and lowering_case(kid)[0] == "differs"


# ---------------------------------------------------------------------------
# bounded: compiled original vs lowered program
# ---------------------------------------------------------------------------
C06_DRIVER = '''\
program main
  use test_mod, only: run_it
  implicit none
  real :: a(10), b(10), c(3,4), d(4,3), e(3,3)
  integer :: i, j, seed
  do seed = 1, 3
    do i = 1, 10
      a(i) = seed*i - 4.0
      b(i) = 0.5*i + seed
    end do
    do j = 1, 4
      do i = 1, 3
        c(i,j) = i - 2.0*j + seed
        d(j,i) = 0.25*i*j - seed
      end do
    end do
    e = 0.0
    call run_it(a, b, c, d, e)
    write(*,'(10(f10.3,1x))') a
    write(*,'(10(f10.3,1x))') b
    write(*,'(9(f10.3,1x))') e
  end do
end program main
'''

C06_HEAD = ("module test_mod\n  implicit none\ncontains\n"
            "  subroutine run_it(a, b, c, d, e)\n"
            "    real, intent(inout) :: a(10), b(10), c(3,4), d(4,3), "
            "e(3,3)\n    real :: s\n    integer :: k\n")
C06_TAIL = "  end subroutine run_it\nend module test_mod\n"

LOWERINGS = {
    # (statement(s), transformation name, which node class to target)
    "overlap-shift-up": ("    a(2:10) = a(1:9)\n", "ArrayAssignment2LoopsTrans",
                         "Assignment"),
    "overlap-shift-down": ("    a(1:9) = a(2:10)\n",
                           "ArrayAssignment2LoopsTrans", "Assignment"),
    "no-overlap": ("    a(1:5) = b(6:10) + a(6:10)\n",
                   "ArrayAssignment2LoopsTrans", "Assignment"),
    "scalar-from-same-array": ("    a(:) = a(:) + a(1)\n",
                               "ArrayAssignment2LoopsTrans", "Assignment"),
    "rank2-transposed-sections": ("    c(1:3,1) = d(1,1:3)\n",
                                  "ArrayAssignment2LoopsTrans", "Assignment"),
    "matmul": ("    e = matmul(c, d)\n", "Matmul2CodeTrans", "IntrinsicCall"),
    "sum": ("    s = sum(a)\n    b(1) = s\n", "Sum2LoopTrans",
            "IntrinsicCall"),
    "maxval": ("    s = maxval(b)\n    a(1) = s\n", "Maxval2LoopTrans",
               "IntrinsicCall"),
    "abs": ("    b(2) = abs(a(1))\n", "Abs2CodeTrans", "IntrinsicCall"),
    "min": ("    b(2) = min(a(1), b(3), 2.0)\n", "Min2CodeTrans",
            "IntrinsicCall"),
    "max": ("    b(2) = max(a(1), b(3))\n", "Max2CodeTrans",
            "IntrinsicCall"),
    "sign": ("    b(2) = sign(a(1), a(2))\n", "Sign2CodeTrans",
             "IntrinsicCall"),
    "dot-product": ("    b(1) = dot_product(a, b)\n", "DotProduct2CodeTrans",
                    "IntrinsicCall"),
}


def lowering_case(cid):
    """(verdict, detail, source): refused / equal / differs / norun"""
    import os
    import shutil
    import subprocess
    import tempfile
    import psyclone.psyir.transformations as T
    from psyclone.psyir.backend.fortran import FortranWriter
    from psyclone.psyir.frontend.fortran import FortranReader
    from psyclone.psyir import nodes
    from psyclone.psyir.transformations import TransformationError
    if not shutil.which("gfortran"):
        return "norun", "gfortran not found", ""
    body, tname, cls = LOWERINGS[cid]
    module = C06_HEAD + body + C06_TAIL
    psyir = FortranReader().psyir_from_source(module)
    target = psyir.walk(getattr(nodes, cls))[0]
    try:
        getattr(T, tname)().apply(target)
    except TransformationError as err:
        return "refused", str(err.value)[-200:], module
    lowered = FortranWriter()(psyir)

    def build_run(src, workdir, tag):
        os.mkdir(os.path.join(workdir, tag))
        f90 = os.path.join(workdir, f"{tag}.f90")
        exe = os.path.join(workdir, f"{tag}.exe")
        with open(f90, "w", encoding="utf-8") as fout:
            fout.write(src + "\n" + C06_DRIVER)
        r = subprocess.run(["gfortran", "-O0", "-J",
                            os.path.join(workdir, tag), "-o", exe, f90],
                           cwd=workdir, capture_output=True, text=True)
        if r.returncode:
            return None, r.stderr[-500:]
        r = subprocess.run([exe], capture_output=True, text=True,
                           cwd=workdir, timeout=60)
        return r.stdout, r.stderr[-300:]
    workdir = tempfile.mkdtemp(prefix="c06_")
    try:
        want, err0 = build_run(module, workdir, "orig")
        if want is None:
            return "norun", "original does not compile: " + err0, module
        got, err1 = build_run(lowered, workdir, "low")
    finally:
        shutil.rmtree(workdir, ignore_errors=True)
    if got is None:
        return "differs", "the lowered module does not compile: " + err1 + \
            "\n" + lowered, module
    if got != want:
        return "differs", "outputs differ after " + tname + ":\n" + lowered, \
            module
    return "equal", "", module


def lowering_cases():
    return [(cid,) + lowering_case(cid) for cid in LOWERINGS]
