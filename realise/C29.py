"""Bounded run-time contract for C29: real PSyclone runs writing transformed
kernels into a scratch directory (removed afterwards)."""
import os
import re
import shutil
import tempfile


def _base():
    import psyclone
    return os.path.join(os.path.dirname(psyclone.__file__), "tests",
                        "test_files", "gocean1p0")


def one_run(alg_file):
    from psyclone.parse.algorithm import parse
    from psyclone.psyGen import PSyFactory
    from psyclone.transformations import ACCRoutineTrans
    _, info = parse(os.path.join(_base(), alg_file), api="gocean")
    psy = PSyFactory("gocean", distributed_memory=False).create(info)
    for invoke in psy.invokes.invoke_list:
        for kern in invoke.schedule.coded_kernels():
            ACCRoutineTrans().apply(kern)
    return str(psy.gen)


def snapshot(outdir):
    out = {}
    for name in os.listdir(outdir):
        with open(os.path.join(outdir, name), encoding="utf-8") as ffile:
            out[name] = ffile.read()
    return out


def names(algs=("single_invoke_scalar_int_arg.f90",
                "nemolite2d_alg_mod.f90")):
    from psyclone.configuration import Config
    n = 0
    for alg in algs:
        outdir = tempfile.mkdtemp(prefix="c29_")
        try:
            Config._instance = None
            cfg = Config.get()
            cfg.api = "gocean"
            cfg.kernel_output_dir = outdir
            cfg.kernel_naming = "multiple"
            for run in range(2):
                before = snapshot(outdir)
                psy_code = one_run(alg)
                after = snapshot(outdir)
                n += 1
                for name, text in before.items():
                    if after.get(name) != text:
                        return {"confirmed": True, "cases": n,
                                "input": {"alg": alg, "run": run},
                                "observed": f"existing file {name} was "
                                "modified or removed by a later run"}
                for name in set(after) - set(before):
                    m = re.search(r"^\s*module\s+(\w+)", after[name],
                                  re.I | re.M)
                    mod = m.group(1) if m else None
                    if not mod or mod.lower() + ".f90" != name.lower():
                        return {"confirmed": True, "cases": n,
                                "input_class": "names",
                                "input": {"alg": alg, "run": run},
                                "observed": f"file {name} contains module "
                                f"{mod}"}
                    if not re.search(r"use\s+" + re.escape(mod) + r"\b",
                                     psy_code, re.I):
                        return {"confirmed": True, "cases": n,
                                "input_class": "names",
                                "input": {"alg": alg, "run": run},
                                "observed": f"the PSy layer does not use "
                                f"module {mod} written to {name}"}
        finally:
            Config._instance = None
            shutil.rmtree(outdir, ignore_errors=True)
    return {"confirmed": False, "cases": n}


def known(kid):
    if kid == "single-reads-unwritten-file":
        # a second run of the 'single' scheme arriving between the creation
        # and the writing of the file by the first run, with the SAME
        # kernel, must not fail
        from psyclone.configuration import Config
        from psyclone.errors import GenerationError
        outdir = tempfile.mkdtemp(prefix="c29_")
        real_write = os.write
        state = {"inner": None, "done": False}

        def write(fd, data):
            if not state["done"]:
                state["done"] = True
                try:
                    one_run("single_invoke_scalar_int_arg.f90")
                    state["inner"] = "ok"
                except GenerationError:
                    state["inner"] = "GenerationError"
            return real_write(fd, data)
        try:
            Config._instance = None
            cfg = Config.get()
            cfg.api = "gocean"
            cfg.kernel_output_dir = outdir
            cfg.kernel_naming = "single"
            os.write = write
            one_run("single_invoke_scalar_int_arg.f90")
        finally:
            os.write = real_write
            Config._instance = None
            shutil.rmtree(outdir, ignore_errors=True)
        return state["inner"] == "GenerationError"
    return None


def interleaved_different():
    """'single' naming scheme, two runs with DIFFERENT versions of the same
    kernel; the second arrives between the creation and the writing of the
    file by the first (os.write is interposed once).  The second run must be
    refused (GenerationError): otherwise its PSy layer refers to a module
    file that holds the other run's kernel."""
    from psyclone.configuration import Config
    from psyclone.errors import GenerationError
    from psyclone.parse.algorithm import parse
    from psyclone.psyGen import PSyFactory
    from psyclone.psyir.nodes import Assignment
    from psyclone.transformations import ACCRoutineTrans
    alg = "single_invoke_scalar_int_arg.f90"

    def other_run():
        _, info = parse(os.path.join(_base(), alg), api="gocean")
        psy = PSyFactory("gocean", distributed_memory=False).create(info)
        for invoke in psy.invokes.invoke_list:
            for kern in invoke.schedule.coded_kernels():
                ACCRoutineTrans().apply(kern)
                sched = kern.get_kernel_schedule()
                asg = sched.walk(Assignment)[0]
                asg.parent.addchild(asg.copy(), asg.position + 1)
        return str(psy.gen)
    outdir = tempfile.mkdtemp(prefix="c29_")
    real_write = os.write
    state = {"inner": None, "done": False}

    def write(fd, data):
        if not state["done"]:
            state["done"] = True
            try:
                other_run()
                state["inner"] = "accepted"
            except GenerationError:
                state["inner"] = "GenerationError"
        return real_write(fd, data)
    try:
        Config._instance = None
        cfg = Config.get()
        cfg.api = "gocean"
        cfg.kernel_output_dir = outdir
        cfg.kernel_naming = "single"
        os.write = write
        one_run(alg)
        files = snapshot(outdir)
    finally:
        os.write = real_write
        Config._instance = None
        shutil.rmtree(outdir, ignore_errors=True)
    if state["inner"] == "accepted":
        return {"confirmed": True,
                "input": {"alg": alg, "scheme": "single",
                          "interleaving": "second run (kernel with one "
                          "statement duplicated) between create and write "
                          "of the first"},
                "observed": "the second run was accepted although its "
                "kernel differs from the one the first run then wrote to "
                f"the shared file(s) {sorted(files)}"}
    return {"confirmed": False, "inner": state["inner"]}
