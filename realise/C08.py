"""Realiser for C08: real DependencyTools on parsed loops."""
import subprocess
import sys

NONTERM = r'''
import os, sys
from psyclone.psyir.frontend.fortran import FortranReader
from psyclone.psyir.nodes import Loop
from psyclone.psyir.tools import DependencyTools
code = """subroutine s(a, n)
  integer :: n, i, d_i, d1_i
  real :: a(n)
  do i = 1, n
    a(i + d_i + d1_i) = a(i + d_i + d1_i) + 1.0
  end do
end subroutine s
"""
loop = FortranReader().psyir_from_source(code).walk(Loop)[0]
print(DependencyTools().can_loop_be_parallelised(loop))
'''


def nonterminating(timeout=20):
    """variables named d_i and d1_i in the subscripts of a loop over i"""
    try:
        r = subprocess.run([sys.executable, "-c", NONTERM],
                           capture_output=True, text=True, timeout=timeout)
        return {"confirmed": False, "output": r.stdout[-200:]}
    except subprocess.TimeoutExpired:
        return {"confirmed": True, "input_class": "helper-name-loop",
                "input": {"loop": "do i: a(i+d_i+d1_i) = a(i+d_i+d1_i)+1"},
                "observed": f"can_loop_be_parallelised did not return "
                            f"within {timeout} s"}


def scalar_cases(only=None):
    from psyclone.psyir.frontend.fortran import FortranReader
    from psyclone.psyir.nodes import Loop
    from psyclone.psyir.tools import DependencyTools
    cases = [
        ("conditional-first-write",
         "do i = 1, n\n if (c(i) > 0.0) then\n  t = x(i)\n end if\n"
         " y(i) = t\nend do", False),
        ("readwrite-first",
         "do i = 1, n\n call sub(t)\n y(i) = t\nend do", False),
        ("plain", "do i = 1, n\n t = x(i)\n y(i) = t\nend do", True),
    ]
    for name, body, parallel in cases:
        if only and name != only:
            continue
        code = (f"subroutine s(x, y, c, n)\n integer :: n, i\n real :: t\n"
                f" real :: x(n), y(n), c(n)\n{body}\nend subroutine s\n")
        loop = FortranReader().psyir_from_source(code).walk(Loop)[0]
        got = DependencyTools().can_loop_be_parallelised(loop)
        if got and not parallel:
            return {"confirmed": True, "input_class": name,
                    "input": {"loop": body},
                    "observed": "reported parallelisable although the "
                    "scalar t is not unconditionally written before being "
                    "read in every iteration"}
    return {"confirmed": False}


def helper_capture():
    """a program variable named d_<loopvar> must not be taken for the
    analysis' own helper unknown: a(i) = a(i + d_i) carries a dependence"""
    from psyclone.psyir.frontend.fortran import FortranReader
    from psyclone.psyir.nodes import Loop
    from psyclone.psyir.tools import DependencyTools
    code = ("subroutine s(a, n, d_i)\n integer :: n, i, d_i\n real :: a(n)\n"
            " do i = 1, n\n  a(i) = a(i + d_i) + 1.0\n end do\n"
            "end subroutine s\n")
    loop = FortranReader().psyir_from_source(code).walk(Loop)[0]
    if DependencyTools().can_loop_be_parallelised(loop):
        return {"confirmed": True, "input_class": "helper-capture",
                "input": {"loop": "do i: a(i) = a(i + d_i) + 1.0"},
                "observed": "reported parallelisable: iteration i reads the "
                "element iteration i + d_i writes"}
    return {"confirmed": False}


def run(name=""):
    if "_get_dependency_distance" in name:
        rp = nonterminating(10)
        return rp if rp["confirmed"] else helper_capture()
    if "_is_scalar" in name:
        return scalar_cases()
    return {"confirmed": False}


def known(kid):
    return bool(scalar_cases(kid).get("confirmed"))
