"""C09 — OpenMP-parallelised loops compute the serial result on any schedule.

Contracts on the real bodies of the two decisions the OpenMP loop
transformations rest on:
  DependencyTools._is_loop_carried_dependency
      an array access pair is reported independent only through a partition
      of the subscripts that justifies it: the constant-subscript (ZIV) test
      only for subscripts that use NO loop variable at all (also no inner
      one), the distance test only on its 0 answer, the multi-subscript test
      only for coupled groups
  OMPParallelDirective.infer_sharing_attributes
      over the abstract access view (per signature an arbitrary sequence of
      access records with type, tree position, enclosing loop and enclosing
      condition): a scalar is made PRIVATE only if its first write is
      unconditional, inside a loop and preceded by no read; FIRSTPRIVATE
      only if no read inside that loop precedes the first write and the
      write is unconditional or nothing reads the scalar afterwards (known
      class otherwise); a scalar read inside the loop before its first write
      is reported as needing synchronisation and is in no private set.
The array rules' own callees (_independent_0_var, _get_dependency_distance,
never_equal) are under contract in C08 / C17 and used here through their
answers.
"""
import z3
from pyvc.interp import Contract, LoopSpec
from pyvc.values import (VRef, VFunc, VBool, VStr, VInt, VTerm, VTuple, NONE,
                         Ref, STR, EnumDesc)
from pyvc.state import fresh

ID = "C09"
LEVEL = "proof"
DT = "psyir/tools/dependency_tools.py"
OMP = "psyir/nodes/omp_directives.py"
NULLC = z3.Const("null", Ref)
INT = z3.IntSort()
BOOL = z3.BoolSort()


def build(uni):
    info = uni.repo.cls("AccessType", "core/access_type.py")
    uni.enums["AccessType"] = EnumDesc("AccessType", list(info.consts))
    uni.fields.update({
        "_accesses": "list[AccessInfo]", "_access_type": "enum:AccessType",
        "_node": "Node", "$pos": "int", "$loop": "Loop",
        "$cond": "Node", "$is_array": "bool", "$clause_type": "int",
    })
    AL0 = z3.Const("H0_$alloc", z3.ArraySort(Ref, BOOL))
    x, y, w = (z3.Const(n, Ref) for n in ("ax", "ay", "aw"))

    def total(f, *vs):
        """the result of an abstraction function is an object of the entry
        heap"""
        uni.axioms.append(z3.ForAll(list(vs), z3.And(
            f(*vs) != NULLC, z3.Select(AL0, f(*vs))), patterns=[f(*vs)]))

    def field_hook(attr):
        def h(it, selfv, args, kw, st, fr):
            return it.getattr(VRef(selfv.e, "Obj"), attr, st, fr)
        return h

    # ------------------------------------------ _is_loop_carried_dependency
    CI = z3.Function("component_indices_of", Ref, Ref)
    PARTS = z3.Function("partition_of", Ref, Ref, Ref, Ref)
    VARS = z3.Function("loop_vars_used_in", Ref, Ref)
    SUBS = z3.Function("subscripts_of", Ref, Ref)
    IDXAT = z3.Function("index_expression", Ref, Ref, Ref)
    INDEP0 = z3.Function("independent_0_var_answer", Ref, Ref, BOOL)
    HASD = z3.Function("distance_known", STR, Ref, Ref, BOOL)
    DIST = z3.Function("distance", STR, Ref, Ref, INT)
    MULTI = z3.Function("independent_multi_answer", STR, Ref, Ref, Ref, BOOL)
    total(CI, x)
    total(PARTS, x, y, w)
    total(VARS, x)
    total(SUBS, x)
    total(IDXAT, x, y)
    uni.records["Part"] = [(VARS, "set[str]"), (SUBS, "list[Sub]")]

    def h_partition(it, selfv, args, kw, st, fr):
        return VRef(PARTS(args[0].e, args[1].e, args[2].e), "list", "Part")

    def h_dist(it, selfv, args, kw, st, fr):
        a = (it.to_z3(args[0]), args[1].e, args[2].e)
        if it.dec.branch(st, HASD(*a)):
            return VInt(DIST(*a))
        return NONE
    uni.method_hooks.update({
        "DependencyTools._partition": h_partition,
        "DependencyTools._independent_0_var":
            lambda it, s, a, k, st, fr: VBool(INDEP0(a[0].e, a[1].e)),
        "DependencyTools._get_dependency_distance": h_dist,
        "DependencyTools._independent_multi_subscript":
            lambda it, s, a, k, st, fr: VBool(MULTI(
                it.to_z3(a[0]), a[1].e, a[2].e, a[3].e)),
        "ComponentIndices.__getitem__":
            lambda it, s, a, k, st, fr: VRef(IDXAT(s.e, a[0].e), "Node"),
    })
    uni.method_hooks["AccessInfo.component_indices"] = \
        lambda it, s, a, k, st, fr: VRef(CI(s.e), "ComponentIndices")
    uni.consts.update({
        "PARTS": VFunc("hook", fn=lambda it, a, k, st, fr: VRef(PARTS(
            CI(a[0].e), CI(a[1].e), a[2].e), "list", "Part")),
        "IDX": VFunc("hook", fn=lambda it, a, k, st, fr: VRef(
            IDXAT(CI(a[0].e), a[1].e), "Node")),
        "indep0": VFunc("hook", fn=lambda it, a, k, st, fr: VBool(
            INDEP0(a[0].e, a[1].e))),
        "dist_is_zero": VFunc("hook", fn=lambda it, a, k, st, fr: VBool(
            z3.And(HASD(it.to_z3(a[0]), a[1].e, a[2].e),
                   DIST(it.to_z3(a[0]), a[1].e, a[2].e) == 0))),
        "multi": VFunc("hook", fn=lambda it, a, k, st, fr: VBool(MULTI(
            it.to_z3(a[0]), a[1].e, a[2].e, a[3].e))),
    })
    uni.preds.update({
        # Kennedy & Allen 3.6: which test may justify independence for one
        # partition (set of loop variables used, subscripts)
        "JUSTIFIED": (["lv", "wa", "oa", "vs", "ss"], """
            ite(len(ss) == 1,
                (card(vs) == 0 and
                 indep0(IDX(wa, at(ss, 0)), IDX(oa, at(ss, 0)))) or
                (card(vs) == 1 and
                 dist_is_zero(at(lv, 0), IDX(wa, at(ss, 0)),
                              IDX(oa, at(ss, 0)))),
                multi(at(lv, 0), wa, oa, ss))
            """),
    })
    cs = []
    c = Contract(
        f"{DT}:DependencyTools._is_loop_carried_dependency",
        params={"self": "DependencyTools", "loop_variables": "list[str]",
                "write_access": "AccessInfo", "other_access": "AccessInfo"},
        requires=[("args", "loop_variables is not None and "
                           "len(loop_variables) >= 1 and "
                           "write_access is not None and "
                           "other_access is not None"),
                  ("parts", "forall(lambda q: implies(0 <= q and q < len("
                            "PARTS(write_access, other_access, "
                            "loop_variables)), len(at(PARTS(write_access, "
                            "other_access, loop_variables), q)[1]) >= 1))")],
        returns="bool",
        ensures=[
            ("independent_only_through_a_justifying_partition",
             "implies(result, exists(lambda q: 0 <= q and q < len(PARTS("
             "write_access, other_access, loop_variables)) and JUSTIFIED("
             "loop_variables, write_access, other_access, "
             "at(PARTS(write_access, other_access, loop_variables), q)[0], "
             "at(PARTS(write_access, other_access, loop_variables), q)[1])))"),
        ],
        raises={}, modifies=[],
        covers=[("yes", "result"), ("no", "not result")])
    uni.contracts["DependencyTools._is_loop_carried_dependency:top"] = c
    uni.loopspecs["DependencyTools._is_loop_carried_dependency"] = {
        0: LoopSpec(invariants=[("iter", "_iter is PARTS(write_access, "
                                 "other_access, loop_variables)")],
                    modifies=[])}
    cs.append(c)
    uni.note_assumption(
        "_partition, _independent_0_var, _get_dependency_distance and "
        "_independent_multi_subscript are used through their answers "
        "(uninterpreted functions of their arguments); the first two callees "
        "are under contract in C08, never_equal in C17; _partition itself "
        "(which subscripts share loop variables) is not under contract")

    # --------------------------------------------- infer_sharing_attributes
    SIGS = z3.Const("all_signatures", Ref)
    SV = z3.Function("accesses_of_signature", Ref, Ref)
    NAME = z3.Function("var_name_of", Ref, STR)
    SYM = z3.Function("symbol_named", STR, Ref)
    BODY = z3.Function("loop_body_of", Ref, Ref)
    total(SV, x)
    total(BODY, x)
    n1, n2 = z3.Const("n1", STR), z3.Const("n2", STR)
    uni.axioms.append(z3.ForAll([n1], z3.And(
        SYM(n1) != NULLC, z3.Select(AL0, SYM(n1))), patterns=[SYM(n1)]))
    INV = z3.Function("name_of_symbol", Ref, STR)
    uni.axioms.append(z3.ForAll([n1], INV(SYM(n1)) == n1,
                                patterns=[SYM(n1)]))
    uni.axioms.append(z3.And(SIGS != NULLC, z3.Select(AL0, SIGS)))

    def construct_hook(it, cname, args, kw, st, fr):
        if cname == "VariablesAccessInfo":
            return it.alloc(st, "VariablesAccessInfo", None, "var_accesses")
        return None
    uni.construct_hook = construct_hook

    def h_ancestor(it, selfv, args, kw, st, fr):
        if isinstance(args[0], VTuple):
            return it.getattr(VRef(selfv.e, "Obj"), "$loop", st, fr)
        return it.getattr(VRef(selfv.e, "Obj"), "$cond", st, fr)
    uni.method_hooks.update({
        "Node.reference_accesses": lambda it, s, a, k, st, fr: NONE,
        "VariablesAccessInfo.__getitem__": lambda it, s, a, k, st, fr: VRef(
            SV(a[0].e), "SingleVariableAccessInfo"),
        "SingleVariableAccessInfo.all_accesses": field_hook("_accesses"),
        "AccessInfo.is_array": field_hook("$is_array"),
        "AccessInfo.access_type": field_hook("_access_type"),
        "AccessInfo.node": field_hook("_node"),
        "Node.ancestor": h_ancestor,
        "TableOf.lookup": lambda it, s, a, k, st, fr: VRef(
            SYM(it.to_z3(a[0])), "Symbol"),
    })
    for sub in uni.repo.subclasses("Node"):
        uni.method_hooks.setdefault(f"{sub}.reference_accesses",
                                    lambda it, s, a, k, st, fr: NONE)
        uni.method_hooks.setdefault(f"{sub}.ancestor", h_ancestor)
    pp = {
        "VariablesAccessInfo.all_signatures":
            lambda it, s, a, k, st, fr: VRef(SIGS, "list", "Signature"),
        "Signature.var_name":
            lambda it, s, a, k, st, fr: VStr(NAME(s.e)),
        "Node.abs_position": field_hook("$pos"),
        "Node.scope": lambda it, s, a, k, st, fr: VRef(s.e, "ScopeOf"),
        "ScopeOf.symbol_table":
            lambda it, s, a, k, st, fr: VRef(s.e, "TableOf"),
        "Loop.loop_body": lambda it, s, a, k, st, fr: VRef(BODY(s.e), "Node"),
        "OMPParallelDirective.default_clause":
            lambda it, s, a, k, st, fr: VRef(s.e, "DefClause"),
        "DefClause.clause_type": field_hook("$clause_type"),
    }
    uni.prop_hooks.update(pp)
    uni.method_hooks.update(pp)
    for sub in uni.repo.subclasses("Node"):
        for a in ("abs_position", "scope"):
            uni.method_hooks.setdefault(f"{sub}.{a}", pp[f"Node.{a}"])

    def term_attr(it, obj, attr, st, fr):
        path = tuple(obj.args) + (attr,)
        if path == ("OMPDefaultClause", "DefaultClauseTypes", "SHARED"):
            return VInt(0)
        return VTerm("ns", list(path))
    uni.term_attr = term_attr
    uni.consts["OMPDefaultClause"] = VTerm("ns", ["OMPDefaultClause"])
    uni.consts["getattr"] = VFunc("hook", fn=lambda it, a, k, st, fr: (
        it.from_field(it.concrete(a[1]), st.read(
            it.concrete(a[1]), a[0].e, uni.field_tag(it.concrete(a[1]))))))
    uni.consts.update({
        "SIGS": VFunc("hook", fn=lambda it, a, k, st, fr: VRef(
            SIGS, "list", "Signature")),
        "ACCS": VFunc("hook", fn=lambda it, a, k, st, fr: it.getattr(
            VRef(SV(a[0].e), "Obj"), "_accesses", st, fr)),
        "SYMOF": VFunc("hook", fn=lambda it, a, k, st, fr: VRef(
            SYM(NAME(a[0].e)), "Symbol")),
        "NAMEOF": VFunc("hook", fn=lambda it, a, k, st, fr: VStr(
            NAME(a[0].e))),
        "POS": VFunc("hook", fn=lambda it, a, k, st, fr: VInt(st.read(
            "$pos", st.read("_node", a[0].e, "ref"), "int"))),
        "LOOPOF": VFunc("hook", fn=lambda it, a, k, st, fr: VRef(st.read(
            "$loop", st.read("_node", a[0].e, "ref"), "ref"), "Loop")),
        "CONDOF": VFunc("hook", fn=lambda it, a, k, st, fr: VRef(st.read(
            "$cond", st.read("_node", a[0].e, "ref"), "ref"), "Node")),
        "BODYPOS": VFunc("hook", fn=lambda it, a, k, st, fr: VInt(st.read(
            "$pos", BODY(st.read("$loop", st.read(
                "_node", a[0].e, "ref"), "ref")), "int"))),
    })
    uni.preds.update({
        "READS": (["a"], "a._access_type == AccessType.READ or "
                         "a._access_type == AccessType.READWRITE or "
                         "a._access_type == AccessType.INC or "
                         "a._access_type == AccessType.READINC"),
        # the view: every signature has an access list of non-null records
        # with nodes; base names are distinct; an access listed before
        # another one is not inside a loop body that the later one precedes
        "VIEW": ([], """
            forall(lambda q: implies(0 <= q and q < len(SIGS()),
                at(SIGS(), q) is not None and ACCS(at(SIGS(), q)) is not None
                and len(ACCS(at(SIGS(), q))) >= 1 and
                forall(lambda j: implies(0 <= j and
                    j < len(ACCS(at(SIGS(), q))),
                    at(ACCS(at(SIGS(), q)), j) is not None and
                    at(ACCS(at(SIGS(), q)), j)._node is not None)) and
                forall(lambda i, j, w: implies(0 <= i and i < j and j < w and
                    w < len(ACCS(at(SIGS(), q))) and
                    LOOPOF(at(ACCS(at(SIGS(), q)), w)) is not None and
                    POS(at(ACCS(at(SIGS(), q)), j)) <
                    BODYPOS(at(ACCS(at(SIGS(), q)), w)),
                    POS(at(ACCS(at(SIGS(), q)), i)) <
                    BODYPOS(at(ACCS(at(SIGS(), q)), w)))) and
                forall(lambda p: implies(0 <= p and p < q,
                    NAMEOF(at(SIGS(), p)) != NAMEOF(at(SIGS(), q))))))
            """),
        # w is the first WRITE of the list A
        "FW": (["A", "w"], "0 <= w and w < len(A) and "
               "at(A, w)._access_type == AccessType.WRITE and "
               "forall(lambda j: implies(0 <= j and j < w, "
               "at(A, j)._access_type != AccessType.WRITE))"),
        "PRIV_OK": (["A"], """
            exists(lambda w: FW(A, w) and LOOPOF(at(A, w)) is not None and
                CONDOF(at(A, w)) is None and
                forall(lambda j: implies(0 <= j and j < w,
                                         not READS(at(A, j)))))
            """),
        "K_READWRITE_BEFORE_WRITE": (["A"], """
            exists(lambda j, w: 0 <= j and j < w and FW(A, w) and
                at(A, j)._access_type != AccessType.READ and
                READS(at(A, j)))
            """),
        "FPRIV_OK": (["A"], """
            exists(lambda w: FW(A, w) and LOOPOF(at(A, w)) is not None and
                forall(lambda j: implies(0 <= j and j < w and
                    at(A, j)._access_type == AccessType.READ,
                    POS(at(A, j)) < BODYPOS(at(A, w)))) and
                (CONDOF(at(A, w)) is None or
                 forall(lambda j: implies(w < j and j < len(A),
                                          not READS(at(A, j))))))
            """),
        "K_COND_FIRST_WRITE": (["A"], """
            exists(lambda w: FW(A, w) and CONDOF(at(A, w)) is not None)
            """),
        "READ_IN_LOOP_FIRST": (["A"], """
            exists(lambda w: FW(A, w) and LOOPOF(at(A, w)) is not None and
                exists(lambda j: 0 <= j and j < w and
                    at(A, j)._access_type == AccessType.READ and
                    POS(at(A, j)) >= BODYPOS(at(A, w))))
            """),
        "CLASSIFIED": (["s", "priv", "fpriv", "sync"], """
            implies(SYMOF(s) in priv and
                    not K_READWRITE_BEFORE_WRITE(ACCS(s)),
                    PRIV_OK(ACCS(s))) and
            implies(SYMOF(s) in fpriv and
                    not K_COND_FIRST_WRITE(ACCS(s)), FPRIV_OK(ACCS(s))) and
            implies(READ_IN_LOOP_FIRST(ACCS(s)) and
                    not getattr(at(ACCS(s), 0), '$is_array'),
                    SYMOF(s) in sync and not SYMOF(s) in priv and
                    not SYMOF(s) in fpriv)
            """),
        # the recorded classes: everything holds except the one clause
        "KF_COND": (["A"], """
            exists(lambda w: FW(A, w) and LOOPOF(at(A, w)) is not None and
                CONDOF(at(A, w)) is not None and
                forall(lambda j: implies(0 <= j and j < w and
                    at(A, j)._access_type == AccessType.READ,
                    POS(at(A, j)) < BODYPOS(at(A, w)))))
            """),
        "KF_RW": (["A"], """
            exists(lambda w: FW(A, w) and LOOPOF(at(A, w)) is not None and
                CONDOF(at(A, w)) is None and
                forall(lambda j: implies(0 <= j and j < w,
                    at(A, j)._access_type != AccessType.READ)))
            """),
        "KCLASSIFIED": (["s", "fpriv"], """
            implies(SYMOF(s) in fpriv and K_COND_FIRST_WRITE(ACCS(s)),
                    FPRIV_OK(ACCS(s)))
            """),
        "KCLASSIFIED2": (["s", "priv"], """
            implies(SYMOF(s) in priv and K_READWRITE_BEFORE_WRITE(ACCS(s)),
                    PRIV_OK(ACCS(s)))
            """),
    })
    c = Contract(
        f"{OMP}:OMPParallelDirective.infer_sharing_attributes",
        params={"self": "OMPParallelDirective"},
        requires=[("view", "VIEW()")],
        ensures=[
            ("every_scalar_is_classified_safely",
             "forall(lambda q: implies(0 <= q and q < len(SIGS()), "
             "CLASSIFIED(at(SIGS(), q), result[0], result[1], result[2])))"),
            ("firstprivate_after_a_conditional_first_write_is_safe",
             "forall(lambda q: implies(0 <= q and q < len(SIGS()), "
             "KCLASSIFIED(at(SIGS(), q), result[1])))"),
            ("private_after_a_call_argument_use_is_safe",
             "forall(lambda q: implies(0 <= q and q < len(SIGS()), "
             "KCLASSIFIED2(at(SIGS(), q), result[0])))"),
        ],
        raises={"GenerationError": ("iff", "getattr(self, '$clause_type') != 0")},
        modifies=["$set.ref", "$card", "$len", "$items.ref"],
        covers=[("some", "len(SIGS()) >= 2")])
    uni.contracts["OMPParallelDirective.infer_sharing_attributes:top"] = c
    uni.loopspecs["OMPParallelDirective.infer_sharing_attributes"] = {
        0: LoopSpec(invariants=[
            ("iter", "_iter is SIGS()"),
            ("sets", "private is not None and fprivate is not None and "
                     "need_sync is not None and private is not fprivate "
                     "and private is not need_sync and "
                     "fprivate is not need_sync"),
            ("done", "forall(lambda q: implies(0 <= q and q < _k, "
                     "CLASSIFIED(at(SIGS(), q), private, fprivate, "
                     "need_sync)))"),
            ("done_cond", "forall(lambda q: implies(0 <= q and q < _k, "
                          "KCLASSIFIED(at(SIGS(), q), fprivate)))"),
            ("done_rw", "forall(lambda q: implies(0 <= q and q < _k, "
                        "KCLASSIFIED2(at(SIGS(), q), private)))"),
            ("todo", "forall(lambda q: implies(_k <= q and q < len(SIGS()), "
                     "not SYMOF(at(SIGS(), q)) in private and "
                     "not SYMOF(at(SIGS(), q)) in fprivate and "
                     "not SYMOF(at(SIGS(), q)) in need_sync))")],
            modifies=["$set.ref", "$card"]),
        1: LoopSpec(invariants=[
            ("iter", "_iter is accesses"),
            ("no_write_yet", "forall(lambda j: implies(0 <= j and j < _k, "
                             "at(accesses, j)._access_type != "
                             "AccessType.WRITE))"),
            ("read_seen", "has_been_read == exists(lambda j: 0 <= j and "
                          "j < _k and at(accesses, j)._access_type == "
                          "AccessType.READ)"),
            ("last_read", "implies(has_been_read, exists(lambda j: 0 <= j "
                          "and j < _k and at(accesses, j)._access_type == "
                          "AccessType.READ and forall(lambda i: implies("
                          "j < i and i < _k, at(accesses, i)._access_type "
                          "!= AccessType.READ)) and last_read_position == "
                          "POS(at(accesses, j))))")],
            modifies=[]),
    }
    cs.append(c)
    uni.note_assumption(
        "abstract access view: the access records are what "
        "reference_accesses produces (C11 link); ancestor((Loop, WhileLoop), "
        "limit=self) / ancestor(IfBlock, limit=loop) are the ghost "
        "attributes $loop / $cond of the accessed node; abs_position is the "
        "ghost integer $pos; a base variable name denotes one symbol "
        "throughout the region and no two signatures of the region share "
        "their base name")
    return cs + build_validate(uni)


def build_validate(uni):
    """ParallelLoopTrans.validate: without the 'force' / 'sequential'
    options a loop is accepted only if the dependence analysis reports its
    iterations independent - or every message it gives is the 'scalar
    written once' warning (the documented private-scalar exclusion)."""
    PLT = "psyir/transformations/parallel_loop_trans.py"
    AL0 = z3.Const("H0_$alloc", z3.ArraySort(Ref, BOOL))
    INDEP = z3.Function("independent_iterations_answer", Ref, BOOL)
    MSGS = z3.Function("messages_of_the_analysis", Ref, Ref)
    info = uni.repo.cls("DTCode", "psyir/tools/dependency_tools.py")
    uni.enums["DTCode"] = EnumDesc("DTCode", list(info.consts))
    uni.fields.update({"$code": "enum:DTCode", "$loop_type": "str"})

    def construct_hook(it, cname, args, kw, st, fr):
        if cname == "DependencyTools":
            return it.alloc(st, "DependencyTools", None, "dep_tools")
        if cname == "VariablesAccessInfo":
            return it.alloc(st, "VariablesAccessInfo", None, "var_accesses")
        return None
    uni.construct_hook = construct_hook

    def h_msgs(it, s, a, k, st, fr):
        r = MSGS(fr.env["node"].e)
        st.assume(z3.And(r != NULLC, z3.Select(AL0, r)))
        lst = VRef(r, "list", "Message")
        q = z3.Int("mq")
        st.assume(z3.ForAll([q], z3.Implies(
            z3.And(0 <= q, q < it.length(lst, st)),
            z3.Select(it.list_items(lst, st), q) != NULLC)))
        return lst

    def field_hook(attr):
        def h(it, selfv, args, kw, st, fr):
            return it.getattr(VRef(selfv.e, "Obj"), attr, st, fr)
        return h
    uni.method_hooks.update({
        "LoopTrans.validate": lambda it, s, a, k, st, fr: NONE,
        "Loop.independent_iterations": lambda it, s, a, k, st, fr: VBool(
            INDEP(s.e)),
        "PSyLoop.independent_iterations": lambda it, s, a, k, st, fr: VBool(
            INDEP(s.e)),
        "DependencyTools.get_all_messages": h_msgs,
        "PSyLoop.loop_type": field_hook("$loop_type"),
        "Loop.loop_type": field_hook("$loop_type"),
        "Node.__getitem__": lambda it, s, a, k, st, fr: VRef(
            fresh("inner_node", Ref), "Node"),
    })
    uni.method_hooks["Message.code"] = field_hook("$code")
    uni.consts.update({
        "INDEP": VFunc("hook", fn=lambda it, a, k, st, fr: VBool(
            INDEP(a[0].e))),
        "MSGS": VFunc("hook", fn=lambda it, a, k, st, fr: VRef(
            MSGS(a[0].e), "list", "Message")),
        "CODE": VFunc("hook", fn=lambda it, a, k, st, fr: it.getattr(
            VRef(a[0].e, "Obj"), "$code", st, fr)),
    })
    uni.preds.update({
        "OPT": (["o", "k"], "o is not None and k in o and o[k] != 0"),
    })
    c = Contract(
        f"{PLT}:ParallelLoopTrans.validate",
        params={"self": "ParallelLoopTrans", "node": "Loop",
                "options": "dict[str,int]"},
        requires=[("node", "node is not None")],
        ensures=[
            ("accepted_without_force_only_if_iterations_are_independent",
             "implies(not OPT(options, 'force') and "
             "not OPT(options, 'sequential'), INDEP(node) or "
             "forall(lambda q: implies(0 <= q and q < len(MSGS(node)), "
             "CODE(at(MSGS(node), q)) == DTCode.WARN_SCALAR_WRITTEN_ONCE)))"),
        ],
        raises={"TransformationError": None},
        modifies=["$len", "$items.ref", "$items.str", "$dom.str",
                  "$map.str.int", "$card"],
        covers=[("accepts", "not OPT(options, 'force')"),
                ("raise:TransformationError", "True")])
    uni.contracts["ParallelLoopTrans.validate:top"] = c
    uni.loopspecs["ParallelLoopTrans.validate"] = {
        0: LoopSpec(invariants=[("count", "loop_count >= 0")], modifies=[]),
        1: LoopSpec(invariants=[
            ("iter", "_iter is MSGS(node)"),
            ("all_warnings_so_far",
             "forall(lambda q: implies(0 <= q and q < _k, "
             "CODE(at(MSGS(node), q)) == DTCode.WARN_SCALAR_WRITTEN_ONCE))")],
            modifies=[]),
    }
    uni.note_assumption(
        "ParallelLoopTrans.validate: independent_iterations and "
        "get_all_messages are used through their answers (the analysis "
        "itself is C08 / the array rule above); the collapse counting loop "
        "is over an opaque nest")
    return [c]


TRUSTED = [
    "pyvc VC generator and z3",
    "that the stated classification conditions imply equal results under "
    "every schedule (Bernstein's conditions; not mechanised)",
    "NOT under contract: OMPLoopTrans.apply, the "
    "lowering of the clause lists, _partition, "
    "_independent_multi_subscript, reductions",
]
EXPLANATION = (
    "An array access pair is reported independent only through a subscript "
    "partition whose test justifies it (constant-subscript test only for "
    "subscripts without any loop variable); a scalar is made private only "
    "if its first write is unconditional, in a loop and not preceded by a "
    "read, firstprivate only if no in-loop read precedes the first write, "
    "and a scalar read in the loop before its first write is reported as "
    "needing synchronisation and never privatised.")


def replay(name, ob, model, uni):
    from realise import C09 as R
    return R.run(name)


def replay_known(k, uni):
    from realise import C09 as R
    return R.known(k["id"])


def bounded(uni, tier, seed):
    """used only when a deductive obligation is undecided"""
    from realise import C09 as R
    for f in (R.validate_cases, R.array_cases):
        rp = f()
        if rp.get("confirmed"):
            return rp
    return {"confirmed": False}


def extra(uni, tier, seed):
    """the callee contracts the array rule rests on are part of the chain
    _is_loop_carried_dependency -> _independent_0_var /
    _get_dependency_distance -> never_equal: their VCs (contracts of C08 and
    C17) are generated from the current source and discharged here as well"""
    import hashlib
    from pyvc.runner import Extra
    from pyvc.extract import Repo
    from pyvc.interp import Universe
    from pyvc.verify import verify_function
    from pyvc.smt import _solve
    from contracts import C08, C17
    out = []
    for mod, suffix in ((C17, "never_equal"), (C08, "_independent_0_var"),
                        (C08, "_get_dependency_distance")):
        u2 = Universe(Repo())
        u2.kf_classes = {}
        c = [c for c in mod.build(u2) if c.name.endswith(suffix)][0]
        rep = verify_function(u2, c)
        bad, n_ok = [], 0
        for ob in rep.obligations:
            text = ob.smt2()
            _, r, _, _ = _solve((hashlib.sha256(text.encode()).hexdigest(),
                                 text, 20000, True))
            if r == "unsat":
                n_ok += 1
            else:
                bad.append(Extra(
                    f"{mod.ID}:{ob.name}", False, f"solver: {r}",
                    kind=f"VC of {suffix} (contract of {mod.ID})",
                    undecided=(r != "sat"),
                    replay=_never_equal_replay(ob.name, r)))
        for k, v in u2.repo.used.items():
            uni.repo.used[k] = v
        out += bad
        out.append(Extra(
            f"{mod.ID}:{suffix}#all",
            bool(bad) or (n_ok > 0 and not rep.unsupported),
            f"{n_ok} obligations discharged",
            kind=f"VCs of the {suffix} contract (shared with {mod.ID})",
            count=n_ok, undecided=bool(rep.unsupported)))
    return out


def _never_equal_replay(obname, solver):
    rp = {"confirmed": False, "obligation": obname, "solver": solver}
    if "never_equal" in obname:
        from realise import C17 as R17
        got = R17.never_equal_cases()
        if got.get("confirmed"):
            got.update({"obligation": obname, "solver": solver})
            return got
    return rp
