"""dev loop: tools/dbg.py PROP [name-substring] [--t ms] [--nosolve]
verify selected contracts of a property and print each obligation's result"""
import sys, os, time, importlib, hashlib
ROOT = os.path.dirname(os.path.dirname(os.path.abspath(__file__)))
sys.path.insert(0, ROOT)
os.environ.setdefault("PSYCLONE_CONFIG", "/repo/config/psyclone.cfg")
from pyvc.extract import Repo
from pyvc.interp import Universe
from pyvc.verify import verify_function
from pyvc.smt import _solve

args = [a for a in sys.argv[1:] if not a.startswith("--")]
prop = args[0]
sub = args[1] if len(args) > 1 else ""
tmo = 10000
if "--t" in sys.argv:
    tmo = int(sys.argv[sys.argv.index("--t") + 1])
    args = [a for a in args if a != str(tmo)]
    sub = args[1] if len(args) > 1 else ""
mod = importlib.import_module(f"contracts.{prop}")
uni = Universe(Repo())
uni.kf_classes = {}
cs = mod.build(uni)
for c in cs:
    if c.assumed or sub not in c.name:
        continue
    t0 = time.time()
    rep = verify_function(uni, c)
    print(f"== {c.name}: paths={rep.paths} obls={len(rep.obligations)} "
          f"exits={rep.exits} unsupported={rep.unsupported} "
          f"bounded={rep.bounded} gen={time.time()-t0:.1f}s covered={sorted(rep.covered)} "
          f"MISSING-COVER={[l for l,_,_ in c.covers if l not in rep.covered]}")
    if "--nosolve" in sys.argv:
        continue
    cache = {}
    bad = 0
    for ob in rep.obligations:
        text = ob.smt2()
        h = hashlib.sha256(text.encode()).hexdigest()
        if h not in cache:
            cache[h] = _solve((h, text, tmo, True))
        _, r, be, secs = cache[h]
        if r != "unsat" or secs > 2 or "--all" in sys.argv:
            print(f"   {r:8s} {be:4s} {secs:6.2f}s {ob.name} path={list(ob.path)}")
        if r != "unsat":
            bad += 1
    print(f"   -> {len(rep.obligations)-bad}/{len(rep.obligations)} discharged, "
          f"{len(cache)} unique queries, {time.time()-t0:.1f}s")
