"""Realiser for C09: the real OMPParallelLoopTrans (no force option) on small
loops; every accepted loop is executed by an OpenMP execution model
(realise/omp_model.py: threads 1..8, static/dynamic/guided distribution,
lock-step / reversed / random interleavings, private and firstprivate
copies) and every shared variable is compared with the serial result."""
import itertools

N = 8
HEAD = """subroutine s(a, b, c, m)
  real, intent(inout) :: a(8), b(8), c(8,8)
  real, intent(inout) :: m(8)
  real :: t
  integer :: i, j
"""


def _model():
    from realise import omp_model as M
    M.QUIET = True
    return M


def _inputs(M, mask=None):
    vec = M.array((N,), lambda i: float(i))
    mat = M.array((N, N), lambda j, i: float(10 * i + j))
    return dict(a=dict(vec), b=M.array((N,), lambda i: 0.0), c=dict(mat),
                m=M.array((N,), mask or (lambda i: float(9 - i))),
                t=-1.0, i=0, j=0)


def _try(body, mask=None):
    M = _model()
    src = HEAD + body + "end subroutine s\n"
    ok = M.parallelise_and_check("case", src, _inputs(M, mask))
    return ok, src


def array_cases():
    """loop nests over i (parallelised) and j with every combination of
    small offsets in 'c(j+p, i+q) = c(j+r, i+s) + 1.0'"""
    offs = (-1, 0, 1)
    for p, q, r, s in itertools.product((0,), (0,), offs, offs):
        def sub(v, o):
            return v if o == 0 else f"{v}{'+' if o > 0 else '-'}{abs(o)}"
        body = ("  do i = 2, 7\n    do j = 2, 7\n"
                f"      c({sub('j', p)},{sub('i', q)}) = "
                f"c({sub('j', r)},{sub('i', s)}) + 1.0\n"
                "    end do\n  end do\n")
        ok, src = _try(body)
        if not ok:
            return {"confirmed": True, "input": {"source": src},
                    "observed": "OMPParallelLoopTrans accepted the outer "
                    "loop without 'force' and the OpenMP execution model "
                    "gives shared results that differ from the serial run"}
    return {"confirmed": False}


SCALAR = {
    "cond-first-write-firstprivate":
        "  do i = 1, 8\n    if (m(i) > 4.0) then\n      t = a(i) * 2.0\n"
        "    end if\n    b(i) = t + 1.0\n  end do\n",
    # firstprivate is right here (the mask is increasing: once written,
    # always written), private is not
    "cond-first-write-increasing-mask":
        "  do i = 1, 8\n    if (m(i) > 4.0) then\n      t = a(i) * 2.0\n"
        "    end if\n    b(i) = t + 1.0\n  end do\n",
    "read-before-write":
        "  do i = 1, 8\n    b(i) = t + 1.0\n    t = a(i) * 2.0\n  end do\n",
    "plain-temporary":
        "  do i = 1, 8\n    t = a(i) * 2.0\n    b(i) = t + 1.0\n  end do\n",
    "read-before-loop":
        "  b(1) = t\n  do i = 2, 8\n    t = a(i) * 2.0\n    b(i) = t + 1.0\n"
        "  end do\n",
}


def scalar_cases(only=None):
    for key, body in SCALAR.items():
        if only and key != only:
            continue
        ok, src = _try(body, (lambda i: float(i)) if "increasing" in key
                       else None)
        if not ok:
            return {"confirmed": True, "case": key,
                    "input": {"source": src},
                    "observed": "OMPParallelLoopTrans accepted the loop "
                    "without 'force'; under the OpenMP execution model the "
                    "shared array b differs from the serial result for "
                    "some thread count / schedule / interleaving"}
    return {"confirmed": False}


def call_argument_case():
    """structural: the model does not execute calls"""
    from psyclone.psyir.frontend.fortran import FortranReader
    from psyclone.psyir.backend.fortran import FortranWriter
    from psyclone.psyir.nodes import Loop
    from psyclone.transformations import (OMPParallelLoopTrans,
                                          TransformationError)
    src = HEAD + ("  do i = 1, 8\n    call sub(t)\n    t = a(i) * 2.0\n"
                  "    b(i) = t + 1.0\n  end do\n") + "end subroutine s\n"
    ps = FortranReader().psyir_from_source(src)
    try:
        OMPParallelLoopTrans().apply(ps.walk(Loop)[0])
    except TransformationError:
        return {"confirmed": False}
    out = FortranWriter()(ps)
    line = [ln for ln in out.splitlines() if "!$omp parallel do" in ln][0]
    import re
    m = re.search(r"[^t]private\(([^)]*)\)", line)
    if m and "t" in [x.strip() for x in m.group(1).split(",")]:
        return {"confirmed": True, "input": {"source": src},
                "observed": "accepted without 'force' with " + line.strip()
                + ": sub(t) receives an undefined private copy, the serial "
                "program passes it the value of the previous iteration"}
    return {"confirmed": False}


def run(name=""):
    if "ParallelLoopTrans" in name:
        return validate_cases()
    if "_is_loop_carried" in name:
        return array_cases()
    if "infer_sharing" in name:
        # the two recorded known classes are replayed by known()
        for key in SCALAR:
            if key != "cond-first-write-firstprivate":
                rp = scalar_cases(key)
                if rp["confirmed"]:
                    return rp
    return {"confirmed": False}


def known(kid):
    if kid == "call-argument-before-write-private":
        return bool(call_argument_case().get("confirmed"))
    return bool(scalar_cases(kid).get("confirmed"))


def validate_cases():
    """loops that the dependence analysis does not report independent (a
    scalar reduction, a carried array dependence, a write-write race) must
    be refused by the OpenMP loop transformations without 'force'"""
    from psyclone.psyir.frontend.fortran import FortranReader
    from psyclone.psyir.nodes import Loop
    from psyclone.transformations import (OMPParallelLoopTrans,
                                          TransformationError)
    from psyclone.psyir.transformations import OMPLoopTrans
    bodies = {
        "scalar-reduction": "  do i = 1, 8\n    t = t + a(i)\n  end do\n",
        "carried-dependence": "  do i = 2, 8\n    a(i) = a(i - 1) + 1.0\n"
                              "  end do\n",
        "write-write": "  do i = 1, 8\n    a(1) = b(i)\n  end do\n",
    }
    for key, body in bodies.items():
        src = HEAD + body + "end subroutine s\n"
        for trans in (OMPParallelLoopTrans(), OMPLoopTrans()):
            loop = FortranReader().psyir_from_source(src).walk(Loop)[0]
            try:
                trans.validate(loop)
            except TransformationError:
                continue
            return {"confirmed": True, "case": key,
                    "input": {"source": src},
                    "observed": f"{type(trans).__name__}.validate accepts "
                    "the loop without 'force' although the dependence "
                    "analysis does not report its iterations independent"}
    return {"confirmed": False}
