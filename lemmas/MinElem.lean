import Mathlib.Data.Finset.Max

/-- C27: a finite non-empty set of module names has a rank-minimal element.
Assumed by the sort_modules proof when the search loop is exhausted. -/
theorem exists_rank_minimal {α : Type} (s : Finset α) (rank : α → ℤ)
    (h : s.Nonempty) : ∃ m ∈ s, ∀ m' ∈ s, rank m ≤ rank m' :=
  Finset.exists_min_image s rank h
