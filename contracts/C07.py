"""C07 — inlining a call preserves the caller's behaviour.

Contract on the real body of
  SymbolTable._handle_symbol_clash
      (the step of SymbolTable.merge that InlineTrans relies on so that
      inlined locals never capture or clobber caller variables): on normal
      return either the clashing symbol is an import from the same container
      object, or BOTH symbols are unresolved (then they denote the same
      external entity), or the two symbols end up with different names - one
      of them renamed to the fresh name - and the incoming symbol has been
      added to this table.
BOUNDED (never counted as proved): the real InlineTrans on six small
caller/callee pairs (array section, shifted bounds, element passed together
with its index, expression argument, name clash); the original module and
the module written after inlining are compiled with gfortran, linked with
the same driver and their outputs compared.
"""
import z3
from pyvc.interp import Contract
from pyvc.values import (VRef, VFunc, VBool, VStr, NONE, Ref, STR, VExc)
from pyvc.state import fresh, PyRaise

ID = "C07"
LEVEL = "proof"
ST = "psyir/symbols/symbol_table.py"
NULLC = z3.Const("null", Ref)
BOOL = z3.BoolSort()


def build(uni):
    uni.exact_fstrings = False
    uni.fields.update({
        "$name": "str", "$is_import": "bool", "$is_unresolved": "bool",
        "$container": "Symbol", "$added": "set[ref]",
    })
    AL0 = z3.Const("H0_$alloc", z3.ArraySort(Ref, BOOL))
    LOOKUP = z3.Function("lookup", Ref, STR, Ref)
    x = z3.Const("ax", Ref)
    s1 = z3.Const("s1", STR)

    def field_hook(attr):
        def h(it, selfv, args, kw, st, fr):
            return it.getattr(VRef(selfv.e, "Obj"), attr, st, fr)
        return h

    def h_lookup(it, selfv, args, kw, st, fr):
        nm = it.to_z3(args[0])
        r = LOOKUP(selfv.e, nm)
        # check_for_clashes / the KeyError of add() established that a symbol
        # of that name is in this table
        st.assume(z3.And(r != NULLC, z3.Select(AL0, r),
                         st.read("$name", r, "str") == nm))
        return VRef(r, "Symbol")

    def h_next_name(it, selfv, args, kw, st, fr):
        nn = fresh("new_name", STR)
        # contract of next_available_name (C16): a name used in neither table
        st.assume(nn != it.to_z3(args[0]))
        return VStr(nn)

    def h_rename(it, selfv, args, kw, st, fr):
        if it.dec.branch(st, fresh("rename_refused", BOOL)):
            raise PyRaise(VExc("SymbolError"))
        st.write("$name", args[0].e, it.to_z3(args[1]), "str")
        return NONE

    def h_add(it, selfv, args, kw, st, fr):
        cur = st.read("$added", selfv.e, "set[ref]")
        st.write("$added", selfv.e, z3.Store(cur, args[0].e, True),
                 "set[ref]")
        return NONE
    uni.method_hooks.update({
        "SymbolTable.lookup": h_lookup,
        "SymbolTable.next_available_name": h_next_name,
        "SymbolTable.rename_symbol": h_rename,
        "SymbolTable.add": h_add,
        "Symbol.is_import": field_hook("$is_import"),
        "Symbol.is_unresolved": field_hook("$is_unresolved"),
        "Symbol.name": field_hook("$name"),
        "Symbol.interface": lambda it, s, a, k, st, fr: VRef(s.e, "IfaceOf"),
    })
    uni.prop_hooks["IfaceOf.container_symbol"] = field_hook("$container")
    uni.consts.update({
        "CLASH": VFunc("hook", fn=lambda it, a, k, st, fr: VRef(LOOKUP(
            a[0].e, (fr.old or st).read("$name", a[1].e, "str")), "Symbol")),
        "ADDED": VFunc("hook", fn=lambda it, a, k, st, fr: VBool(z3.Select(
            st.read("$added", a[0].e, "set[ref]"), a[1].e))),
        "getattr": VFunc("hook", fn=lambda it, a, k, st, fr: (
            it.from_field(it.concrete(a[1]), st.read(
                it.concrete(a[1]), a[0].e,
                uni.field_tag(it.concrete(a[1])))))),
    })
    c = Contract(
        f"{ST}:SymbolTable._handle_symbol_clash",
        params={"self": "SymbolTable", "old_sym": "Symbol",
                "other_table": "SymbolTable"},
        requires=[("args", "old_sym is not None and other_table is not None "
                   "and other_table is not self and "
                   "CLASH(self, old_sym) is not old_sym and "
                   "implies(getattr(old_sym, '$is_import'), "
                   "getattr(old_sym, '$container') is not None)")],
        ensures=[
            ("no_capture",
             "(old(getattr(old_sym, '$is_import')) and "
             "old(getattr(old_sym, '$container')) is "
             "CLASH(self, old(getattr(old_sym, '$container')))) or "
             "(not old(getattr(old_sym, '$is_import')) and "
             "old(getattr(old_sym, '$is_unresolved')) and "
             "old(getattr(CLASH(self, old_sym), '$is_unresolved'))) or "
             "(not old(getattr(old_sym, '$is_import')) and "
             "getattr(old_sym, '$name') != "
             "getattr(CLASH(self, old_sym), '$name') and "
             "ADDED(self, old_sym))"),
        ],
        raises={"InternalError": None, "SymbolError": None},
        modifies=["$name", "$added"],
        covers=[("renamed", "getattr(old_sym, '$name') != "
                            "old(getattr(old_sym, '$name'))"),
                ("both_unresolved",
                 "old(getattr(old_sym, '$is_unresolved')) and "
                 "old(getattr(CLASH(self, old_sym), '$is_unresolved'))")])
    uni.contracts["SymbolTable._handle_symbol_clash:top"] = c
    uni.note_assumption(
        "lookup(name) returns the symbol of that name in this table (a "
        "clash was reported); next_available_name returns a name different "
        "from the clashing one (its contract is C16's); rename_symbol sets "
        "the symbol's name or raises SymbolError; add records the symbol "
        "in a ghost set")
    return [c]


TRUSTED = [
    "pyvc VC generator and z3",
    "gfortran and the hand-written driver, in the bounded part only",
    "NOT under contract: InlineTrans.validate (which call shapes are "
    "accepted), _replace_formal_arg, _create_inlined_idx, "
    "_update_actual_indices, the rest of SymbolTable.merge (C16)",
]
EXPLANATION = (
    "_handle_symbol_clash never lets an incoming symbol share a name with a "
    "different symbol of the receiving table unless both are unresolved or "
    "it is an import of the same container object; the bounded part "
    "compares compiled original and inlined programs on six call shapes.")


def extra(uni, tier, seed):
    """BOUNDED stand-in (never counted as proved) for the parts of
    InlineTrans that are not under contract"""
    from pyvc.runner import Extra
    from realise import C07 as R
    out, n_ok = [], 0
    for cid, verdict, detail, src in R.bounded_cases(tier == "thorough"):
        if verdict == "norun":
            out.append(Extra("bounded#InlineTrans[" + cid + "]", False,
                             detail, undecided=True, bounded=True))
        elif verdict == "differs":
            out.append(Extra(
                "bounded#InlineTrans[" + cid + "]", False, detail[:300],
                bounded=True, kind="bounded run-time contract: compiled "
                "original vs inlined module",
                replay={"confirmed": True, "case": cid,
                        "input": {"module": src},
                        "observed": detail[:1500]}))
        else:
            n_ok += 1
    out.append(Extra("bounded#InlineTrans-compiled-equivalence", True,
                     f"{n_ok} call shapes equal or refused",
                     kind="bounded run-time contract: gfortran-compiled "
                          "original vs inlined module, 3 inputs each",
                     count=n_ok, bounded=True))
    return out


def replay(name, ob, model, uni):
    from realise import C07 as R
    return R.run(name)


def replay_known(k, uni):
    from realise import C07 as R
    return R.known(k["id"])
