#!/bin/sh
# tools/confirm_seed.sh <worktree> <patch> <demo.py> [pytest targets...]
# confirms in a scratch worktree: demo passes without / fails with the change,
# and the named tests pass with the change.
WT=$1; PATCH=$2; DEMO=$3; shift 3
cd "$WT" || exit 9
git checkout -q -- . 
run() { PYTHONPATH=$WT/src PSYCLONE_CONFIG=$WT/config/psyclone.cfg /venv/bin/python "$@"; }
run "$DEMO" >/dev/null 2>&1; echo "demo without change: exit $?"
git apply "$PATCH" || exit 9
run "$DEMO" >/dev/null 2>&1; echo "demo with change: exit $?"
if [ $# -gt 0 ]; then run -m pytest -q -p no:cacheprovider -n 8 "$@" 2>&1 | tail -1; fi
git checkout -q -- .
