"""C19: the real PSyAD (generate_adjoint_str) on a family of tangent-linear
kernels; tangent-linear and adjoint routines are evaluated SYMBOLICALLY
(sympy: every active input and every passive real coefficient is a symbol,
passive integers and array extents are concrete) and the dot-product
identity <A x, y> - <x, A* y> == 0 is decided as a polynomial identity, i.e.
for ALL real values of the inputs and coefficients.  Passive variables must
come out unchanged.  The loop-reversal arithmetic is separately proved for
all integer bounds with z3 (see loop_bound_obligations)."""
import itertools

import sympy

EXTENT = 12


# --------------------------------------------------------------------------
# kernels: (id, source, active names as passed to PSyAD, passive ints)
# --------------------------------------------------------------------------
def kernels():
    ks = []
    ks.append(("assign-scalars", '''subroutine kern(a, b, c, x, y)
  real, intent(inout) :: a, b, c
  real, intent(in) :: x, y
  a = x*b + y*c
  b = b + 2.0*a
end subroutine kern
''', ["a", "b", "c"], {}))
    ks.append(("assign-increment", '''subroutine kern(a, b, x)
  real, intent(inout) :: a, b
  real, intent(in) :: x
  a = a + x*b
  b = x*a - b/x
end subroutine kern
''', ["a", "b"], {}))
    for lo, hi, st in (("1", "n", "1"), ("n", "1", "-1"), ("2", "n", "2"),
                       ("1", "n", "3"), ("n", "2", "-2"), ("lo + 1", "n", "3"),
                       ("lo + 1", "n - 1", "st"), ("1", "n", "st"),
                       ("n - 1", "lo", "-3")):
        ks.append((f"loop[{lo},{hi},{st}]", f'''subroutine kern(a, b, x, n, lo, st)
  integer, intent(in) :: n, lo, st
  real, intent(inout) :: a({EXTENT}), b({EXTENT})
  real, intent(in) :: x
  integer :: i
  do i = {lo}, {hi}, {st}
    a(i) = a(i) + x*b(i)
    b(i) = 2.0*b(i)
  end do
end subroutine kern
''', ["a", "b"], {"n": 10, "lo": 1, "st": 3}))
    ks.append(("stencil", f'''subroutine kern(flux, rho, dt, n)
  integer, intent(in) :: n
  real, intent(inout) :: flux({EXTENT}), rho({EXTENT})
  real, intent(in) :: dt
  real :: grad
  integer :: i
  do i = 2, n
    grad = dt*rho(i) - dt*rho(i - 1)
    flux(i) = flux(i) + grad
  end do
end subroutine kern
''', ["flux", "rho", "grad"], {"n": 7}))
    # the same kernel with the active names spelled as declared / upper case
    ks.append(("stencil-mixed-case", f'''subroutine kern(Flux, Rho, dt, n)
  integer, intent(in) :: n
  real, intent(inout) :: Flux({EXTENT}), Rho({EXTENT})
  real, intent(in) :: dt
  real :: Grad
  integer :: i
  do i = 2, n
    Grad = dt*Rho(i) - dt*Rho(i - 1)
    Flux(i) = Flux(i) + Grad
  end do
end subroutine kern
''', ["Flux", "Rho", "Grad"], {"n": 7}))
    ks.append(("stencil-upper-case", ks[-1][1], ["FLUX", "RHO", "GRAD"],
               {"n": 7}))
    ks.append(("if-on-passive", f'''subroutine kern(a, b, x, n, flag)
  integer, intent(in) :: n, flag
  real, intent(inout) :: a({EXTENT}), b({EXTENT})
  real, intent(in) :: x
  integer :: i
  do i = 1, n
    if (flag > 0) then
      a(i) = a(i) + x*b(i)
    else
      b(i) = b(i) - x*a(i)
    end if
  end do
end subroutine kern
''', ["a", "b"], {"n": 5, "flag": 1}))
    ks.append(("if-on-passive-else", ks[-1][1], ["a", "b"],
               {"n": 5, "flag": 0}))
    return ks


# --------------------------------------------------------------------------
# symbolic evaluator
# --------------------------------------------------------------------------
def _tdiv(a, b):
    q = abs(a) // abs(b)
    return q if (a >= 0) == (b >= 0) else -q


class Sym:
    def __init__(self, routine, ints, tag):
        from psyclone.psyir.symbols import ArrayType, DataSymbol
        self.env, self.tag = {}, tag
        self.inputs = {}
        for sym in routine.symbol_table.symbols:
            if not isinstance(sym, DataSymbol):
                continue
            name = sym.name.lower()
            if name in ints:
                self.env[name] = sympy.Integer(ints[name])
            elif isinstance(sym.datatype, ArrayType):
                self.env[name] = {}
                for k in range(1, EXTENT + 1):
                    self.env[name][(k,)] = sympy.Symbol(f"{name}_{k}")
            elif sym.datatype.intrinsic.name == "INTEGER":
                self.env[name] = sympy.Integer(0)
            else:
                self.env[name] = sympy.Symbol(name)

    def ev(self, node):
        from psyclone.psyir.nodes import (ArrayReference, BinaryOperation,
                                          IntrinsicCall, Literal, Reference,
                                          UnaryOperation)
        if isinstance(node, Literal):
            txt = node.value.lower().replace("d", "e")
            if node.datatype.intrinsic.name == "INTEGER":
                return sympy.Integer(int(txt))
            return sympy.Rational(txt) if "e" not in txt else \
                sympy.Rational(str(float(txt)))
        if isinstance(node, ArrayReference):
            idx = tuple(int(self.ev(i)) for i in node.indices)
            return self.env[node.symbol.name.lower()][idx]
        if isinstance(node, Reference):
            return self.env[node.symbol.name.lower()]
        if isinstance(node, UnaryOperation):
            v = self.ev(node.children[0])
            return -v if node.operator.name == "MINUS" else v
        if isinstance(node, BinaryOperation):
            a, b = self.ev(node.children[0]), self.ev(node.children[1])
            op = node.operator.name
            if op == "ADD":
                return a + b
            if op == "SUB":
                return a - b
            if op == "MUL":
                return a * b
            if op == "DIV":
                if a.is_Integer and b.is_Integer:
                    return sympy.Integer(_tdiv(int(a), int(b)))
                return a / b
            if op == "POW":
                return a ** b
            if op in ("GT", "LT", "GE", "LE", "EQ", "NE"):
                a, b = int(a), int(b)
                return {"GT": a > b, "LT": a < b, "GE": a >= b,
                        "LE": a <= b, "EQ": a == b, "NE": a != b}[op]
        if isinstance(node, IntrinsicCall):
            args = [self.ev(a) for a in node.arguments]
            if node.routine.name.upper() == "MOD":
                a, b = int(args[0]), int(args[1])
                return sympy.Integer(a - _tdiv(a, b) * b)
        raise NotImplementedError(type(node).__name__ + ": " +
                                  node.debug_string())

    def run(self, node):
        from psyclone.psyir.nodes import (ArrayReference, Assignment, IfBlock,
                                          Loop, Routine, Schedule)
        if isinstance(node, (Routine, Schedule)):
            for ch in node.children:
                self.run(ch)
        elif isinstance(node, Assignment):
            val = self.ev(node.rhs)
            lhs = node.lhs
            if isinstance(lhs, ArrayReference):
                idx = tuple(int(self.ev(i)) for i in lhs.indices)
                self.env[lhs.symbol.name.lower()][idx] = val
            else:
                self.env[lhs.symbol.name.lower()] = val
        elif isinstance(node, IfBlock):
            body = node.if_body if self.ev(node.condition) else node.else_body
            if body is not None:
                self.run(body)
        elif isinstance(node, Loop):
            lo, hi, st = (int(self.ev(x)) for x in
                          (node.start_expr, node.stop_expr, node.step_expr))
            trips = max(0, _tdiv(hi - lo + st, st))
            for k in range(trips):
                self.env[node.variable.name.lower()] = sympy.Integer(
                    lo + k * st)
                self.run(node.loop_body)
        else:
            raise NotImplementedError(type(node).__name__)


def _flat(env, names):
    out = []
    for n in names:
        v = env[n]
        if isinstance(v, dict):
            out.extend(v[k] for k in sorted(v))
        else:
            out.append(v)
    return out


def check_kernel(kid, src, active, ints):
    """None if the dot-product identity holds, else a description"""
    from psyclone.psyad.tl2ad import generate_adjoint_str
    from psyclone.psyir.frontend.fortran import FortranReader
    from psyclone.psyir.nodes import Routine
    from psyclone.psyir.symbols import ArgumentInterface
    ad_src, _ = generate_adjoint_str(src, list(active))
    tl = FortranReader().psyir_from_source(src).walk(Routine)[0]
    ad = FortranReader().psyir_from_source(ad_src).walk(Routine)[0]
    names = [a.lower() for a in active]
    # only argument actives are observable; locals are part of the map's
    # internals (PSyAD zeroes them)
    args = [s.name.lower() for s in tl.symbol_table.argument_list]
    obs = [n for n in names if n in args]
    s_tl, s_ad = Sym(tl, ints, "x"), Sym(ad, ints, "y")
    # independent inputs: x for the TL, y for the adjoint
    ren = {}
    for n in names:
        v = s_ad.env[n]
        if isinstance(v, dict):
            for k in v:
                ren[v[k]] = sympy.Symbol("y_" + str(v[k]))
                v[k] = ren[v[k]]
        elif isinstance(v, sympy.Symbol):
            s_ad.env[n] = sympy.Symbol("y_" + str(v))
    x_in = _flat(s_tl.env, obs)
    y_in = _flat(s_ad.env, obs)
    passive0 = {n: (dict(v) if isinstance(v, dict) else v)
                for n, v in s_ad.env.items() if n not in names}
    for n in names:
        if n not in obs:       # local actives start at zero
            v = s_tl.env[n]
            s_tl.env[n] = ({k: sympy.Integer(0) for k in v}
                           if isinstance(v, dict) else sympy.Integer(0))
            v = s_ad.env[n]
            s_ad.env[n] = ({k: sympy.Integer(0) for k in v}
                           if isinstance(v, dict) else sympy.Integer(0))
    s_tl.run(tl)
    s_ad.run(ad)
    ax, aty = _flat(s_tl.env, obs), _flat(s_ad.env, obs)
    lhs = sum(a * y for a, y in zip(ax, y_in))
    rhs = sum(x * a for x, a in zip(x_in, aty))
    diff = sympy.expand(lhs - rhs)
    if diff != 0:
        return ("<A x, y> - <x, A* y> is not identically zero: "
                + str(diff)[:300] + "\n--- adjoint written by PSyAD ---\n"
                + ad_src)
    from psyclone.psyir.nodes import Loop
    # loop iterators are scratch variables, not passive data
    loopvars = {lp.variable.name.lower() for lp in tl.walk(Loop)} | \
        {lp.variable.name.lower() for lp in ad.walk(Loop)}
    for n, v in passive0.items():
        if n in loopvars:
            continue
        if s_ad.env[n] != v:
            return f"passive variable '{n}' is changed by the adjoint\n" + \
                ad_src
    return None


def more_kernels():
    ks = []
    ks.append(("nest-2d", f'''subroutine kern(a, b, x, n)
  integer, intent(in) :: n
  real, intent(inout) :: a({EXTENT}), b({EXTENT})
  real, intent(in) :: x
  integer :: i, j
  do j = 1, 3
    do i = j, n, 2
      a(i) = a(i) + x*b(i + 1)
    end do
  end do
end subroutine kern
''', ["a", "b"], {"n": 9}))
    ks.append(("accumulate-scalar", f'''subroutine kern(a, s, x, n)
  integer, intent(in) :: n
  real, intent(inout) :: a({EXTENT}), s
  real, intent(in) :: x
  integer :: i
  do i = 1, n
    s = s + x*a(i)
    a(i) = 3.0*a(i) - s
  end do
end subroutine kern
''', ["a", "s"], {"n": 6}))
    ks.append(("shifted-stencil", f'''subroutine kern(a, b, x, n)
  integer, intent(in) :: n
  real, intent(inout) :: a({EXTENT}), b({EXTENT})
  real, intent(in) :: x
  integer :: i
  do i = 2, n - 1
    a(i) = a(i) + x*b(i - 1) - b(i + 1)/x
  end do
  b(1) = b(1) - a(2)
end subroutine kern
''', ["a", "b"], {"n": 8}))
    ks.append(("minus-self-array", f'''subroutine kern(a, b, x, n)
  integer, intent(in) :: n
  real, intent(inout) :: a({EXTENT}), b({EXTENT})
  real, intent(in) :: x
  integer :: i
  do i = n, 1, -1
    a(i) = x*b(i) - a(i)
    b(i) = -b(i) + 2.0*a(i)
  end do
end subroutine kern
''', ["a", "b"], {"n": 5}))
    return ks


def family(thorough=False):
    """[(id, ok, detail, source)]"""
    out = []
    for kid, src, active, ints in kernels() + (more_kernels() if thorough
                                               else []):
        try:
            bad = check_kernel(kid, src, active, ints)
        except Exception as err:       # noqa: PSyAD refused / unsupported
            out.append((kid, True, f"not evaluated: {err!r}"[:200], src))
            continue
        out.append((kid, bad is None, bad or "", src))
    return out


# --------------------------------------------------------------------------
# loop reversal, all integer bounds (z3)
# --------------------------------------------------------------------------
def _z3_expr(node, env):
    import z3
    from psyclone.psyir.nodes import (BinaryOperation, IntrinsicCall, Literal,
                                      Reference, UnaryOperation)

    def tdiv(a, b):
        q = z3.If(a >= 0, a, -a) / z3.If(b >= 0, b, -b)
        return z3.If((a >= 0) == (b >= 0), q, -q)
    if isinstance(node, Literal):
        return z3.IntVal(int(node.value))
    if isinstance(node, Reference):
        return env.setdefault(node.symbol.name.lower(),
                              z3.Int(node.symbol.name.lower()))
    if isinstance(node, UnaryOperation):
        v = _z3_expr(node.children[0], env)
        return -v if node.operator.name == "MINUS" else v
    if isinstance(node, BinaryOperation):
        a, b = (_z3_expr(c, env) for c in node.children)
        op = node.operator.name
        if op == "ADD":
            return a + b
        if op == "SUB":
            return a - b
        if op == "MUL":
            return a * b
        if op == "DIV":
            return tdiv(a, b)
    if isinstance(node, IntrinsicCall) and \
            node.routine.name.upper() == "MOD":
        a, b = (_z3_expr(c, env) for c in node.arguments)
        return a - tdiv(a, b) * b
    raise NotImplementedError(node.debug_string())


BOUND_SHAPES = {
    "lo": ["lo", "n + 1", "n - 1", "2 * n", "-n", "1"],
    "hi": ["hi", "m - 1", "m + n"],
    "st": ["1", "-1", "2", "-2", "3", "-3", "5"],
}


MORE_SHAPES = {
    "lo": ["n + m", "3 - n", "m * 2 - n"],
    "hi": ["n - m", "10"],
    "st": ["4", "-5", "7"],
}


def loop_bound_obligations(timeout_ms=20000, thorough=False):
    """For every combination of bound shapes: run the real AdjointVisitor on
    'do i = lo, hi, st', translate the produced bounds to z3 and prove, for
    ALL integer values of the variables, that the reversed loop has the same
    trip count and starts at the last iteration of the original one.
    [(name, verdict, detail)], verdict in unsat / sat / unknown"""
    import z3
    from psyclone.psyad.tl2ad import generate_adjoint_str
    from psyclone.psyir.frontend.fortran import FortranReader
    from psyclone.psyir.nodes import Loop

    def tdiv(a, b):
        q = z3.If(a >= 0, a, -a) / z3.If(b >= 0, b, -b)
        return z3.If((a >= 0) == (b >= 0), q, -q)

    def trips(lo, hi, st):
        t = tdiv(hi - lo + st, st)
        return z3.If(t > 0, t, 0)
    out = []
    shapes = {k: list(v) for k, v in BOUND_SHAPES.items()}
    if thorough:
        for k in shapes:
            shapes[k] += MORE_SHAPES[k]
    for lo, hi, st in itertools.product(*(shapes[k] for k in
                                          ("lo", "hi", "st"))):
        name = f"loop_node[do i = {lo}, {hi}, {st}]#reversed-iterations"
        src = (f"subroutine kern(a, b, n, m, lo, hi)\n"
               f"  integer, intent(in) :: n, m, lo, hi\n"
               f"  real, intent(inout) :: a(100), b(100)\n  integer :: i\n"
               f"  do i = {lo}, {hi}, {st}\n    a(i) = a(i) + 2.0*b(i)\n"
               f"  end do\nend subroutine kern\n")
        try:
            ad_src, _ = generate_adjoint_str(src, ["a", "b"])
            orig = FortranReader().psyir_from_source(src).walk(Loop)[0]
            rev = FortranReader().psyir_from_source(ad_src).walk(Loop)[0]
            env = {}
            o = [_z3_expr(x, env) for x in (orig.start_expr, orig.stop_expr,
                                            orig.step_expr)]
            r = [_z3_expr(x, env) for x in (rev.start_expr, rev.stop_expr,
                                            rev.step_expr)]
        except Exception as err:       # noqa
            out.append((name + ":nonempty", "error",
                        f"PSyAD fails on this loop: {err!r}"[:200]))
            continue
        n_o, n_r = trips(*o), trips(*r)
        goals = {
            "nonempty": z3.Implies(n_o > 0, z3.And(
                r[2] == -o[2], n_r == n_o,
                r[0] == o[0] + (n_o - 1) * o[2])),
            "empty": z3.Implies(n_o == 0, n_r == 0),
        }
        for part, goal in goals.items():
            s = z3.Solver()
            s.set("timeout", timeout_ms)
            s.add(z3.Not(goal))
            res = s.check()
            detail = ""
            if res == z3.sat:
                m = s.model()
                detail = ("counterexample " + ", ".join(
                    f"{k}={m.eval(v, model_completion=True)}"
                    for k, v in sorted(env.items())) +
                    f": reversed loop written as 'do i = "
                    f"{rev.start_expr.debug_string()}, "
                    f"{rev.stop_expr.debug_string()}, "
                    f"{rev.step_expr.debug_string()}'")
            out.append((name + ":" + part, str(res), detail))
    return out


def replay_bounds(lo, hi, st, values):
    """execute original and reversed loop with concrete integers"""
    return None
