"""Discharge obligations: z3 in a process pool, cvc5 for z3's unknowns."""
import hashlib
import multiprocessing as mp
import os
import subprocess
import tempfile
import time
import z3


def _solve(job):
    key, smt2, timeout_ms, use_cvc5 = job
    t0 = time.time()
    res, backend = "unknown", "z3"
    try:
        s = z3.Solver()
        s.set("timeout", timeout_ms)
        s.from_string(smt2)
        r = s.check()
        res = str(r)
        if res == "unknown":
            res = "unknown"
    except Exception as err:      # noqa
        res = f"error:{err}"
    if res == "unknown" and use_cvc5 and "lambda" not in smt2:
        try:
            with tempfile.NamedTemporaryFile("w", suffix=".smt2",
                                             delete=False) as f:
                f.write("(set-logic ALL)\n" + smt2)
                path = f.name
            out = subprocess.run(
                ["/usr/bin/cvc5", "--strings-exp",
                 f"--tlimit={timeout_ms}", path],
                capture_output=True, text=True, timeout=timeout_ms / 1000 + 5)
            os.unlink(path)
            first = out.stdout.strip().split("\n")[0] if out.stdout else ""
            if first in ("sat", "unsat"):
                res, backend = first, "cvc5"
        except Exception:          # noqa
            pass
    return key, res, backend, time.time() - t0


def discharge(obligations, timeout_ms=10000, procs=None, use_cvc5=True):
    """obligations: list of Obligation. Returns dict name -> summary and a
    list of per-instance results."""
    jobs, seen = [], {}
    inst = []
    for ob in obligations:
        text = ob.smt2()
        h = hashlib.sha256(text.encode()).hexdigest()
        inst.append((ob, h))
        if h not in seen:
            seen[h] = None
            jobs.append((h, text, timeout_ms, use_cvc5))
    procs = procs or min(16, max(1, len(jobs)))
    t0 = time.time()
    if len(jobs) <= 2:
        results = [_solve(j) for j in jobs]
    else:
        with mp.Pool(procs) as pool:
            results = pool.map(_solve, jobs, chunksize=1)
    solver_s = 0.0
    for key, res, backend, secs in results:
        seen[key] = (res, backend, secs)
        solver_s += secs
    out = []
    for ob, h in inst:
        res, backend, secs = seen[h]
        out.append((ob, res, backend, secs))
    return out, {"unique_queries": len(jobs), "solver_s": solver_s,
                 "wall_s": time.time() - t0}


def model_for(ob, timeout_ms=20000, minimise=(), bounds=(2, 3, 4, 6, 10, 50)):
    """Re-solve a failing obligation in-process and return a z3 model, trying
    small bounds on the given integer terms first."""
    for b in list(bounds) + [None]:
        s = z3.Solver()
        s.set("timeout", timeout_ms)
        for c in ob.pc:
            s.add(c)
        s.add(z3.Not(ob.goal))
        if b is not None:
            for t in minimise:
                s.add(t <= b, t >= -b)
        if s.check() == z3.sat:
            return s.model()
        if not minimise:
            break
    return None


# ---------------------------------------------------------------------------
# bounded refutation: candidate counter-models for obligations the solver
# cannot decide because of quantified hypotheses.  The result is only ever a
# *candidate*: it is believed only after replay on the real code.
# ---------------------------------------------------------------------------
def _ground_terms(fml):
    """ground (closed) Ref consts, Int consts, and ground terms of sort
    Array(Int, Ref) / Array(Ref,Int)-selects found in fml."""
    refs, ints, arrs, lens = {}, {}, {}, {}
    atoms = _ATOMS
    atoms.clear()
    seen = set()

    def visit(e, bound):
        if e.get_id() in seen and not bound:
            return
        seen.add(e.get_id())
        if z3.is_quantifier(e):
            visit(e.body(), True)
            return
        if z3.is_var(e):
            return
        if z3.is_app(e):
            closed = not _has_var(e)
            if closed:
                s = e.sort()
                if e.num_args() == 0 and e.decl().kind() == \
                        z3.Z3_OP_UNINTERPRETED:
                    if s.name() == "Ref":
                        refs[e.get_id()] = e
                    elif s == z3.IntSort():
                        ints[e.get_id()] = e
                    elif s.name() == "Atom":
                        atoms[e.get_id()] = e
                if s.kind() == z3.Z3_ARRAY_SORT and s.domain() == z3.IntSort() and \
                        s.range().name() == "Ref" and not z3.is_quantifier(e) \
                        and e.decl().kind() != z3.Z3_OP_STORE:
                    arrs[e.get_id()] = e
                if s == z3.IntSort() and e.decl().kind() == z3.Z3_OP_SELECT:
                    lens[e.get_id()] = e
            for c in e.children():
                visit(c, bound)
    visit(fml, False)
    return (list(refs.values()), list(ints.values()), list(arrs.values()),
            list(lens.values()))


_hv_cache = {}
_ATOMS = {}


def _has_var(e):
    k = e.get_id()
    if k in _hv_cache:
        return _hv_cache[k]
    if z3.is_var(e):
        r = True
    elif z3.is_quantifier(e):
        r = True     # conservative
    else:
        r = any(_has_var(c) for c in e.children())
    _hv_cache[k] = r
    return r


def _atom_vals(sort):
    vals = list(_ATOMS.values())[:5]
    vals += [z3.Const(f"atom!extra{i}", sort) for i in range(2)]
    return vals


class _Budget(Exception):
    pass


_budget = [0]


def _expand(e, int_vals, ref_vals, depth=0):
    _budget[0] -= 1
    if _budget[0] < 0:
        raise _Budget()
    if z3.is_quantifier(e):
        if e.is_lambda():
            return e
        n = e.num_vars()
        doms = []
        for i in range(n):
            s = e.var_sort(i)
            if s == z3.IntSort():
                doms.append(int_vals)
            elif s.name() == "Ref":
                doms.append(ref_vals)
            elif s.name() == "Atom":
                doms.append(_atom_vals(s))
            else:
                return e
        import itertools as it
        body = e.body()
        insts = []
        for combo in it.product(*doms):
            inst = z3.substitute_vars(body, *reversed(combo))
            insts.append(_expand(inst, int_vals, ref_vals, depth + 1))
        if e.is_forall():
            return z3.And(insts) if insts else z3.BoolVal(True)
        return z3.Or(insts) if insts else z3.BoolVal(False)
    if z3.is_app(e) and e.num_args() > 0 and e.sort() == z3.BoolSort():
        kids = [_expand(c, int_vals, ref_vals, depth) for c in e.children()]
        if any(k is not c for k, c in zip(kids, e.children())):
            return e.decl()(*kids)
    return e


def refute(ob, bound=3, timeout_ms=20000, extra=()):
    """Finite-instantiation search for a counter-model of an obligation.
    Returns a z3 model or None."""
    _hv_cache.clear()
    g = z3.Goal()
    for c in ob.pc:
        g.add(c)
    g.add(z3.Not(ob.goal))
    for c in extra:
        g.add(c)
    try:
        sub = z3.Tactic("nnf")(g)
        fml = sub[0].as_expr()
    except z3.Z3Exception:
        return None
    refs, ints, arrs, lens = _ground_terms(fml)
    int_vals = [z3.IntVal(i) for i in range(-1, bound + 2)]
    null = z3.Const("null", refs[0].sort()) if refs else None
    ref_vals = list(refs)
    for a in arrs:
        for i in range(bound + 1):
            ref_vals.append(z3.Select(a, i))
    if null is not None and not any(r.eq(null) for r in ref_vals):
        ref_vals.append(null)
    ref_vals = ref_vals[:24]
    _budget[0] = 200000
    try:
        qf = _expand(fml, int_vals, ref_vals)
    except _Budget:
        if bound > 1:
            return refute(ob, bound - 1, timeout_ms, extra)
        return None
    s = z3.Solver()
    s.set("timeout", timeout_ms)
    s.add(qf)
    for t in ints + lens:
        s.add(t >= -bound - 1, t <= bound + 1)
    if s.check() == z3.sat:
        return s.model()
    return None
