"""C05 — accepted loop transformations preserve serial semantics.

Contracts on the real bodies of two legality decisions:
  LoopSwapTrans.validate
      returns normally only for a perfect two-deep nest of valid loops,
      without impure calls, whose six bound expressions (start, stop, step of
      BOTH loops) do not reference the other loop's variable - and (no code
      behind it: recorded known finding) without a dependence whose
      direction vector is (<,>)
  ChunkLoopTrans (executed closed code, PF): for 48 combinations of bound
      shapes, literal steps 1..3 and chunk sizes 1..32 the loop nest it
      WRITES is translated to z3 terms and proved, for all integer bounds, to
      enumerate exactly the original iterations in the original order
      (sound / complete / ordered), or validate refuses
  ReplaceInductionVariablesTrans._is_induction_variable
      True only if the right-hand side has no code block / impure call and
      only reads variables that are read-only in the loop body, the target
      is a scalar whose first access in the body is this assignment and
      EVERY other access to it in the body is a pure read
"""
import z3
from pyvc.interp import Contract, LoopSpec
from pyvc.values import (VRef, VFunc, VBool, VStr, VInt, VTuple, VClass, NONE,
                         Ref, STR, EnumDesc, VExc)
from pyvc.state import fresh, PyRaise

ID = "C05"
LEVEL = "proof"
SWAP = "psyir/transformations/loop_swap_trans.py"
RIV = "psyir/transformations/replace_induction_variables_trans.py"
NULLC = z3.Const("null", Ref)
BOOL = z3.BoolSort()


def build(uni):
    uni.exact_fstrings = False
    info = uni.repo.cls("AccessType", "core/access_type.py")
    uni.enums["AccessType"] = EnumDesc("AccessType", list(info.consts))
    uni.fields.update({
        "_children": "list[Loop]", "$is_pure": "bool", "_symbol": "Symbol",
        "$interchange_preventing_dependence": "bool",
        "_accesses": "list[AccessInfo]", "_access_type": "enum:AccessType",
        "_node": "Node", "$read_only": "bool", "$name": "str",
    })
    AL0 = z3.Const("H0_$alloc", z3.ArraySort(Ref, BOOL))
    x, y = z3.Const("ax", Ref), z3.Const("ay", Ref)
    s1 = z3.Const("s1", STR)

    def total(f, *vs):
        uni.axioms.append(z3.ForAll(list(vs), z3.And(
            f(*vs) != NULLC, z3.Select(AL0, f(*vs))), patterns=[f(*vs)]))

    def field_hook(attr):
        def h(it, selfv, args, kw, st, fr):
            return it.getattr(VRef(selfv.e, "Obj"), attr, st, fr)
        return h
    VALID = z3.Function("is_valid_loop_target", Ref, BOOL)
    BODY = z3.Function("loop_body_of", Ref, Ref)
    WALK = z3.Function("walk", Ref, STR, Ref)
    TAB = z3.Function("symbol_table_of", Ref, Ref)
    EMPTY = z3.Function("table_is_empty", Ref, BOOL)
    BOUND = z3.Function("bound_expr", Ref, z3.IntSort(), Ref)
    VAR = z3.Function("loop_variable", Ref, Ref)
    total(BODY, x)
    total(WALK, x, s1)
    total(BOUND, x, z3.Int("bk"))
    total(VAR, x)

    def h_loop_validate(it, selfv, args, kw, st, fr):
        if it.dec.branch(st, VALID(args[0].e)):
            return NONE
        raise PyRaise(VExc("TransformationError"))

    def h_walk(it, selfv, args, kw, st, fr):
        cname = args[0].name if isinstance(args[0], VClass) else str(args[0])
        lst = VRef(WALK(selfv.e, z3.StringVal(cname)), "list",
                   cname if cname in ("Call", "Reference") else "Node")
        q = z3.Int("wq")
        st.assume(z3.ForAll([q], z3.Implies(
            z3.And(0 <= q, q < it.length(lst, st)),
            z3.And(z3.Select(it.list_items(lst, st), q) != NULLC,
                   z3.Select(AL0, z3.Select(it.list_items(lst, st), q))))))
        st.assume(z3.Implies(it.length(lst, st) > 0, z3.Select(
            it.list_items(lst, st), 0) != NULLC))
        st.assume(it.length(lst, st) >= 0)
        return lst

    def bound(k):
        return lambda it, s, a, kw, st, fr: VRef(BOUND(s.e, z3.IntVal(k)),
                                                 "Node")
    hooks = {
        "LoopTrans.validate": h_loop_validate,
        "Loop.loop_body": lambda it, s, a, k, st, fr: VRef(BODY(s.e),
                                                           "Schedule"),
        "Schedule.children": field_hook("_children"),
        "Schedule.__getitem__": lambda it, s, a, k, st, fr: it.getitem(
            it.getattr(VRef(s.e, "Obj"), "_children", st, fr), a[0], st, fr),
        "Schedule.symbol_table": lambda it, s, a, k, st, fr: VRef(
            TAB(s.e), "SymbolTable"),
        "SymbolTable.is_empty": lambda it, s, a, k, st, fr: VBool(EMPTY(s.e)),
        "Call.is_pure": field_hook("$is_pure"),
        "Call.debug_string":
            lambda it, s, a, k, st, fr: VStr(fresh("dbg", STR)),
        "Loop.start_expr": bound(0), "Loop.stop_expr": bound(1),
        "Loop.step_expr": bound(2),
        "Loop.variable": lambda it, s, a, k, st, fr: VRef(VAR(s.e),
                                                          "DataSymbol"),
        "Reference.symbol": field_hook("_symbol"),
        "DataSymbol.name": field_hook("$name"),
        "Symbol.name": field_hook("$name"),
    }
    uni.method_hooks.update(hooks)
    for sub in uni.repo.subclasses("Node"):
        uni.method_hooks.setdefault(f"{sub}.walk", h_walk)
    uni.method_hooks["Node.walk"] = h_walk
    uni.consts.update({
        "VALID": VFunc("hook", fn=lambda it, a, k, st, fr: VBool(
            VALID(a[0].e))),
        "BODYCH": VFunc("hook", fn=lambda it, a, k, st, fr: it.getattr(
            VRef(BODY(a[0].e), "Obj"), "_children", st, fr)),
        "WALK": VFunc("hook", fn=lambda it, a, k, st, fr: VRef(
            WALK(a[0].e, z3.StringVal(it.concrete(a[1]))), "list",
            it.concrete(a[1]))),
        "BOUND": VFunc("hook", fn=lambda it, a, k, st, fr: VRef(
            BOUND(a[0].e, it.as_int(a[1])), "Node")),
        "LVAR": VFunc("hook", fn=lambda it, a, k, st, fr: VRef(
            VAR(a[0].e), "DataSymbol")),
        "getattr": VFunc("hook", fn=lambda it, a, k, st, fr: (
            it.from_field(it.concrete(a[1]), st.read(
                it.concrete(a[1]), a[0].e,
                uni.field_tag(it.concrete(a[1])))))),
    })
    uni.preds.update({
        # no bound expression of loop `a` references the variable of loop `b`
        "BOUNDS_FREE_OF": (["a", "b"], """
            forall(lambda k, q: implies(0 <= k and k <= 2 and 0 <= q and
                q < len(WALK(BOUND(a, k), 'Reference')),
                at(WALK(BOUND(a, k), 'Reference'), q)._symbol
                is not LVAR(b)))
            """),
        "INNER": (["n"], "at(BODYCH(n), 0)"),
    })
    cs = []
    c = Contract(
        f"{SWAP}:LoopSwapTrans.validate",
        params={"self": "LoopSwapTrans", "node": "Loop", "options": "Obj"},
        requires=[("node", "node is not None and BODYCH(node) is not None and "
                   "forall(lambda q: implies(0 <= q and q < len(BODYCH("
                   "node)), at(BODYCH(node), q) is not None))")],
        ensures=[
            ("perfect_nest_of_two_valid_loops",
             "VALID(node) and len(BODYCH(node)) == 1 and VALID(INNER(node))"),
            ("no_impure_call",
             "forall(lambda q: implies(0 <= q and "
             "q < len(WALK(node, 'Call')), "
             "getattr(at(WALK(node, 'Call'), q), '$is_pure')))"),
            ("outer_bounds_do_not_use_the_inner_variable",
             "BOUNDS_FREE_OF(node, INNER(node))"),
            ("inner_bounds_do_not_use_the_outer_variable",
             "BOUNDS_FREE_OF(INNER(node), node)"),
            ("no_interchange_preventing_dependence",
             "not getattr(node, '$interchange_preventing_dependence')"),
        ],
        raises={"TransformationError": None}, modifies=["$len", "$items.ref"],
        covers=[("accepts", "True")])
    uni.contracts["LoopSwapTrans.validate:top"] = c
    cs.append(c)
    uni.note_assumption(
        "LoopTrans.validate is used through its answer (an uninterpreted "
        "predicate 'valid loop target'); walk(T) is an uninterpreted list of "
        "non-null nodes per (node, T); the (<,>) dependence of the nest is a "
        "ghost boolean - nothing in validate reads it")

    # -------------------------------------------- _is_induction_variable
    RHS = z3.Function("rhs_of", Ref, Ref)
    LHS = z3.Function("lhs_of", Ref, Ref)
    RSIGS = z3.Function("signatures_accessed_in", Ref, Ref)
    SV = z3.Function("accesses_of", Ref, Ref, Ref)
    SIG = z3.Function("signature_of", Ref, Ref)
    IDX = z3.Function("index_lists_of", Ref, Ref)
    for f, vs in ((RHS, (x,)), (LHS, (x,)), (RSIGS, (x,)), (SV, (x, y)),
                  (SIG, (x,)), (IDX, (x,))):
        total(f, *vs)

    def construct_hook(it, cname, args, kw, st, fr):
        if cname == "VariablesAccessInfo":
            # iterating the collector yields its signatures
            return VRef(RSIGS(args[0].e), "list", "Signature")
        return None
    uni.construct_hook = construct_hook

    def h_sig_idx(it, selfv, args, kw, st, fr):
        lists = VRef(IDX(selfv.e), "list", "list[Node]")
        q = z3.Int("ilq")
        inner = z3.Select(it.list_items(lists, st), q)
        st.assume(z3.ForAll([q], z3.Implies(
            z3.And(0 <= q, q < it.length(lists, st)),
            z3.And(inner != NULLC, z3.Select(AL0, inner),
                   st.read("$len", inner, "int") >= 0))))
        return VTuple([VRef(SIG(selfv.e), "Signature"), lists])
    uni.method_hooks.update({
        "Assignment.rhs": lambda it, s, a, k, st, fr: VRef(RHS(s.e), "Node"),
        "Assignment.lhs": lambda it, s, a, k, st, fr: VRef(LHS(s.e),
                                                           "Reference"),
        "VariablesAccessInfo.__getitem__": lambda it, s, a, k, st, fr: VRef(
            SV(s.e, a[0].e), "SingleVariableAccessInfo"),
        "SingleVariableAccessInfo.is_read_only": field_hook("$read_only"),
        "SingleVariableAccessInfo.__getitem__":
            lambda it, s, a, k, st, fr: it.getitem(it.getattr(
                VRef(s.e, "Obj"), "_accesses", st, fr), a[0], st, fr),
        "SingleVariableAccessInfo.all_accesses": field_hook("_accesses"),
        "AccessInfo.node": field_hook("_node"),
        "AccessInfo.access_type": field_hook("_access_type"),
        "Reference.get_signature_and_indices": h_sig_idx,
    })
    uni.consts.update({
        "RHS": VFunc("hook", fn=lambda it, a, k, st, fr: VRef(
            RHS(a[0].e), "Node")),
        "LHS": VFunc("hook", fn=lambda it, a, k, st, fr: VRef(
            LHS(a[0].e), "Reference")),
        "RSIGS": VFunc("hook", fn=lambda it, a, k, st, fr: VRef(
            RSIGS(RHS(a[0].e)), "list", "Signature")),
        "ACCS": VFunc("hook", fn=lambda it, a, k, st, fr: it.getattr(
            VRef(SV(a[0].e, a[1].e), "Obj"), "_accesses", st, fr)),
        "RO": VFunc("hook", fn=lambda it, a, k, st, fr: VBool(st.read(
            "$read_only", SV(a[0].e, a[1].e), "bool"))),
        "SIGOF": VFunc("hook", fn=lambda it, a, k, st, fr: VRef(
            SIG(a[0].e), "Signature")),
        "INDICES": VFunc("hook", fn=lambda it, a, k, st, fr: VRef(
            IDX(a[0].e), "list", "list[Node]")),
    })
    c = Contract(
        f"{RIV}:ReplaceInductionVariablesTrans._is_induction_variable",
        params={"assignment": "Assignment",
                "accesses_in_loop_body": "VariablesAccessInfo"},
        requires=[("args", "assignment is not None and "
                   "accesses_in_loop_body is not None and "
                   "ACCS(accesses_in_loop_body, SIGOF(LHS(assignment))) "
                   "is not None and len(ACCS(accesses_in_loop_body, "
                   "SIGOF(LHS(assignment)))) >= 1 and forall(lambda q: "
                   "implies(0 <= q and q < len(ACCS(accesses_in_loop_body, "
                   "SIGOF(LHS(assignment)))), at(ACCS(accesses_in_loop_body, "
                   "SIGOF(LHS(assignment))), q) is not None))")],
        returns="bool",
        ensures=[
            ("rhs_has_no_code_block",
             "implies(result, len(WALK(RHS(assignment), 'CodeBlock')) == 0)"),
            ("rhs_has_no_impure_call",
             "implies(result, forall(lambda q: implies(0 <= q and "
             "q < len(WALK(RHS(assignment), 'Call')), "
             "getattr(at(WALK(RHS(assignment), 'Call'), q), '$is_pure'))))"),
            ("rhs_only_reads_loop_invariant_variables",
             "implies(result, forall(lambda q: implies(0 <= q and "
             "q < len(RSIGS(assignment)), RO(accesses_in_loop_body, "
             "at(RSIGS(assignment), q)))))"),
            ("target_is_first_accessed_by_this_assignment",
             "implies(result, at(ACCS(accesses_in_loop_body, "
             "SIGOF(LHS(assignment))), 0)._node is LHS(assignment))"),
            ("target_is_a_scalar",
             "implies(result, forall(lambda q: implies(0 <= q and "
             "q < len(INDICES(LHS(assignment))), "
             "len(at(INDICES(LHS(assignment)), q)) == 0)))"),
            ("every_other_access_to_the_target_is_a_pure_read",
             "implies(result, forall(lambda q: implies(0 <= q and q < "
             "len(ACCS(accesses_in_loop_body, SIGOF(LHS(assignment)))) - 1, "
             "at(ACCS(accesses_in_loop_body, SIGOF(LHS(assignment))), q + 1)"
             "._access_type == AccessType.READ)))"),
        ],
        raises={}, modifies=["$len", "$items.ref"],
        covers=[("yes", "result"), ("no", "not result")])
    uni.contracts[
        "ReplaceInductionVariablesTrans._is_induction_variable:top"] = c
    cs.append(c)
    uni.note_assumption(
        "VariablesAccessInfo(rhs) is used as the list of signatures it "
        "yields when iterated; accesses_in_loop_body[sig] is an "
        "uninterpreted function of (collector, signature); is_read_only is "
        "a ghost boolean of that record")
    return cs


TRUSTED = [
    "pyvc VC generator and z3",
    "that the stated legality conditions imply equal observable results "
    "(textbook interchange / induction-variable theorems; not mechanised)",
    "NOT under contract: LoopFuseTrans, ChunkLoopTrans, LoopTiling2DTrans, "
    "HoistTrans, HoistLoopBoundExprTrans, "
    "FoldConditionalReturnExpressionsTrans, the apply() bodies (the "
    "zero-trip post-loop assignment of ReplaceInductionVariablesTrans)",
]
EXPLANATION = (
    "LoopSwapTrans.validate accepts only perfect two-deep nests of valid "
    "loops without impure calls whose bounds are mutually independent; "
    "_is_induction_variable accepts only assignments of loop-invariant, "
    "call-free expressions to a scalar that is first accessed by this "
    "assignment and otherwise only read in the loop body.")


def replay(name, ob, model, uni):
    from realise import C05 as R
    return R.run(name)


def replay_known(k, uni):
    from realise import C05 as R
    return R.known(k["id"])


def extra(uni, tier, seed):
    """BOUNDED stand-in (never counted as proved) for apply() bodies that
    are not under contract: the real transformation is applied to a small
    loop and the original and transformed routines are executed by the
    serial evaluator for trip counts n in {0, 1, 3, 8}"""
    from pyvc.runner import Extra
    from realise import C05 as R
    out, n_ok = [], 0
    for name, ok, detail, src in R.bounded_cases(tier == "thorough"):
        if ok:
            n_ok += 1
            continue
        out.append(Extra(
            "bounded#" + name, False, detail, bounded=True,
            kind="bounded run-time contract: serial evaluation of the "
                 "original and the transformed routine",
            replay={"confirmed": True, "input": {"source": src},
                    "observed": "the transformed routine computes "
                    "different values (" + detail + ")"}))
    # PF: obligations over all integers on the nest ChunkLoopTrans writes
    res = R.chunk_obligations()
    n_pf = 0
    for name, verdict, detail in res:
        if verdict == "unsat":
            n_pf += 1
        elif verdict != "refused":
            out.append(Extra(
                "table#" + name, False, detail[:400],
                kind="z3 obligation over all integer bounds on the loop "
                     "nest ChunkLoopTrans writes",
                undecided=(verdict == "unknown"),
                replay={"confirmed": verdict == "sat", "obligation": name,
                        "detail": detail}))
    out.append(Extra(
        "table#ChunkLoopTrans-iteration-sequence", n_pf >= 100,
        f"{n_pf} obligations discharged "
        f"({sum(1 for r in res if r[1] == 'refused')} shape combinations "
        "refused by validate)",
        kind="z3 obligations over all integers: the chunked nest is sound, "
             "complete and ordered", count=n_pf, undecided=n_pf < 100))
    out.append(Extra("bounded#apply-serial-equivalence", True,
                     f"{n_ok} (transformation, trip count) cases equal",
                     kind="bounded run-time contract: serial evaluation, "
                          "trip counts 0, 1, 3, 8", count=n_ok, bounded=True))
    return out


def bounded(uni, tier, seed):
    """bounded stand-in used only when a deductive obligation is undecided
    (e.g. the code no longer fits the loop specifications): the hand-stated
    nests and induction candidates are run through the real code"""
    from realise import C05 as R
    for f in (R.swap_bound_cases, R.induction_cases):
        rp = f()
        if rp.get("confirmed"):
            return rp
    return {"confirmed": False}
