"""C25 — GOcean loops visit exactly the configured grid points.

(a) the built-in iteration-space table produced by the real
    GOLoop.setup_bounds (a closed function: executed, then every entry is a
    z3 obligation over all grid sizes);
(b) contracts on the real bodies of GOLoop.get_custom_bound_string,
    GOLoop.lower_bound, GOLoop.upper_bound: which table entry / grid property
    becomes the loop bound, for every loop type, side and iteration space.
"""
import re
import z3
from pyvc.interp import Contract, LoopSpec
from pyvc.values import VRef, VStr, VFunc, VClass, NONE, Ref
from pyvc.state import fresh

ID = "C25"
LEVEL = "proof"
GO = "gocean1p0.py"
TABLE = "dict[str,dict[str,dict[str,dict[str,dict[str,str]]]]]"


def build(uni):
    uni.exact_fstrings = True
    uni.fields.update({
        "_loop_type": "str", "_field_space": "str", "_iteration_space": "str",
        "index_offset": "str", "_field_name": "str",
        "_bounds_lookup": TABLE,
        "_grid_properties": "dict[str,GridProp]", "fortran": "str",
        "_symbol_table": "SymbolTable", "_argument_list": "list[DataSymbol]",
        "_datatype": "Symbol", "_name": "str",
    })
    CFG = z3.Const("the_gocean_config", Ref)
    INV = z3.Function("invoke_of", Ref, Ref)
    GSCH = z3.Function("goinvokeschedule_of", Ref, Ref)

    def h_config_get(it, selfv, args, kw, st, fr):
        st.assume(z3.Const("the_config", Ref) != z3.Const("null", Ref))
        return VRef(z3.Const("the_config", Ref), "Config")

    def h_api_conf(it, selfv, args, kw, st, fr):
        st.assume(CFG != z3.Const("null", Ref))
        return VRef(CFG, "GOceanConfig")

    def h_grid_props(it, selfv, args, kw, st, fr):
        d = it.getattr(VRef(selfv.e, "GOceanConfigObj"), "_grid_properties",
                       st, fr)
        st.assume(d.e != z3.Const("null", Ref))
        return d

    def h_ancestor(it, selfv, args, kw, st, fr):
        cls = args[0].name if isinstance(args[0], VClass) else None
        if cls == "InvokeSchedule":
            return VRef(INV(selfv.e), "InvokeSchedule")
        if cls == "GOInvokeSchedule":
            return VRef(GSCH(selfv.e), "GOInvokeSchedule")
        from pyvc.state import Unsupported
        raise Unsupported(f"ancestor({args[0]})")

    def h_symtab(it, selfv, args, kw, st, fr):
        t = it.getattr(VRef(selfv.e, "ScopeObj"), "_symbol_table", st, fr)
        st.assume(t.e != z3.Const("null", Ref))
        return t

    def h_arglist(it, selfv, args, kw, st, fr):
        lst = it.getattr(VRef(selfv.e, "SymTabObj"), "_argument_list", st, fr)
        st.assume(lst.e != z3.Const("null", Ref))
        st.assume(it.length(lst, st) >= 0)
        return lst

    def h_datatype(it, selfv, args, kw, st, fr):
        return it.getattr(VRef(selfv.e, "SymObj"), "_datatype", st, fr)

    uni.method_hooks.update({
        "Config.get": h_config_get, "Config.api_conf": h_api_conf,
        "GOceanConfig.grid_properties": h_grid_props,
        "Node.ancestor": h_ancestor,
        "ScopingNode.symbol_table": h_symtab,
        "InvokeSchedule.symbol_table": h_symtab,
        "SymbolTable.argument_list": h_arglist,
        "DataSymbol.datatype": h_datatype,
    })
    uni.note_assumption(
        "assumed models (engine hooks, not verified): Config.get().api_conf("
        "'gocean') is one fixed configuration object whose grid_properties "
        "is a dict of records with a string field 'fortran'; Node.ancestor("
        "InvokeSchedule) is a function of the node; ScopingNode.symbol_table"
        ", SymbolTable.argument_list (its consistency checks are dropped) "
        "and DataSymbol.datatype return the stored attribute")
    uni.consts["GP"] = VFunc("uf", name="grid_property_expr",
                             argtags=["ref", "str"], ret="ref")
    uni.consts["READ"] = VFunc("uf", name="fortran_reader_expr",
                               argtags=["str", "ref"], ret="ref")
    uni.consts["fmt1"] = VFunc("uf", name="str_format_1",
                               argtags=["str", "str"], ret="str")
    uni.consts["fmt_ss"] = VFunc("uf", name="str_format_0_start_stop",
                                 argtags=["str", "str", "str"], ret="str")
    uni.consts["CFGP"] = VFunc("hook", fn=lambda it, a, k, st, fr: it.getattr(
        VRef(CFG, "GOceanConfigObj"), "_grid_properties", st, fr))
    uni.consts["lower"] = VFunc("uf", name="str_lower", argtags=["str"],
                                ret="str")
    uni.preds.update({
        # the stop expression that replaces {stop}: x extent for the inner
        # (contiguous, i) loop, y extent for the outer (j) loop
        "STOPX": (["f"], "fmt1(CFGP()['go_grid_xstop'].fortran, f._name)"),
        "STOPY": (["f"], "fmt1(CFGP()['go_grid_ystop'].fortran, f._name)"),
        "ENTRY": (["side"], "self._bounds_lookup[self.index_offset]"
                            "[self._field_space][self._iteration_space]"
                            "[self._loop_type][side]"),
        "HAS": (["side"],
                "self.index_offset in self._bounds_lookup and "
                "self._field_space in self._bounds_lookup[self.index_offset] "
                "and self._iteration_space in self._bounds_lookup"
                "[self.index_offset][self._field_space] and self._loop_type "
                "in self._bounds_lookup[self.index_offset][self._field_space]"
                "[self._iteration_space] and side in self._bounds_lookup"
                "[self.index_offset][self._field_space]"
                "[self._iteration_space][self._loop_type]"),
        "ISFIELD": (["a"], "a is not None and a._datatype is not None and "
                           "isinstance(a._datatype, DataTypeSymbol) and "
                           "a._datatype._name == 'r2d_field'"),
        "TABWF": ([], """
            self._bounds_lookup is not None
            and forall(lambda a: implies(a in self._bounds_lookup,
                self._bounds_lookup[a] is not None), 'str')
            and forall(lambda a, b: implies(a in self._bounds_lookup and
                b in self._bounds_lookup[a],
                self._bounds_lookup[a][b] is not None), 'str')
            and forall(lambda a, b, c: implies(a in self._bounds_lookup and
                b in self._bounds_lookup[a] and
                c in self._bounds_lookup[a][b],
                self._bounds_lookup[a][b][c] is not None), 'str')
            and forall(lambda a, b, c, d: implies(a in self._bounds_lookup and
                b in self._bounds_lookup[a] and
                c in self._bounds_lookup[a][b] and
                d in self._bounds_lookup[a][b][c],
                self._bounds_lookup[a][b][c][d] is not None), 'str')
            """),
        "CFGWF": ([], "CFGP() is not None and forall(lambda k: implies("
                      "k in CFGP(), CFGP()[k] is not None), 'str')"),
    })
    cs = []
    # ------------------------------------------------ get_custom_bound_string
    c = Contract(
        f"{GO}:GOLoop.get_custom_bound_string",
        params={"self": "GOLoop", "side": "str"},
        requires=[("tab", "TABWF()"), ("cfg", "CFGWF()"),
                  ("keys", "'go_grid_xstop' in CFGP() and "
                           "'go_grid_ystop' in CFGP()"),
                  ("args", "implies(inv(self) is not None, forall(lambda q: "
                           "implies(0 <= q and q < len(invoke_args(self)), "
                           "at(invoke_args(self), q) is not None)))")],
        returns="str",
        ensures=[
            ("inner_uses_x", "implies(self._loop_type == 'inner', exists("
             "lambda q: 0 <= q and q < len(invoke_args(self)) and "
             "ISFIELD(at(invoke_args(self), q)) and result == fmt_ss("
             "ENTRY(side), '2', STOPX(at(invoke_args(self), q)))))"),
            ("outer_uses_y", "implies(self._loop_type == 'outer', exists("
             "lambda q: 0 <= q and q < len(invoke_args(self)) and "
             "ISFIELD(at(invoke_args(self), q)) and result == fmt_ss("
             "ENTRY(side), '2', STOPY(at(invoke_args(self), q)))))"),
            ("first_field", "forall(lambda q: implies(0 <= q and "
             "q < len(invoke_args(self)) and "
             "ISFIELD(at(invoke_args(self), q)) and "
             "forall(lambda p: implies(0 <= p and p < q, "
             "not ISFIELD(at(invoke_args(self), p)))), "
             "result == fmt_ss(ENTRY(side), '2', "
             "ite(self._loop_type == 'inner', "
             "STOPX(at(invoke_args(self), q)), "
             "STOPY(at(invoke_args(self), q))))))"),
            ("type", "self._loop_type == 'inner' or "
                     "self._loop_type == 'outer'"),
            ("in_table", "HAS(side)"),
        ],
        raises={"GenerationError": "invoke_of_self_missing(self) or "
                "not exists(lambda q: 0 <= q and q < len(invoke_args(self)) "
                "and ISFIELD(at(invoke_args(self), q))) or "
                "not (self._loop_type == 'inner' or "
                "self._loop_type == 'outer') or not HAS(side)"},
        modifies=[])
    uni.contracts["GOLoop.get_custom_bound_string"] = c
    uni.preds["invoke_of_self_missing"] = (["s"], "inv(s) is None")
    uni.consts["gsched"] = VFunc("hook", fn=lambda it, a, k, st, fr: VRef(
        GSCH(a[0].e), "GOInvokeSchedule"))
    uni.consts["inv"] = VFunc("hook", fn=lambda it, a, k, st, fr: VRef(
        INV(a[0].e), "InvokeSchedule"))
    uni.consts["invoke_args"] = VFunc(
        "hook", fn=lambda it, a, k, st, fr: it.getattr(
            VRef(st.read("_symbol_table", INV(a[0].e), "ref"), "SymTabObj"),
            "_argument_list", st, fr))
    uni.loopspecs["GOLoop.get_custom_bound_string"] = {0: LoopSpec(
        invariants=[
            ("none_yet", "field is None and forall(lambda p: implies("
                         "0 <= p and p < _k, "
                         "not ISFIELD(at(_iter, p))))"),
            ("same_list", "_iter is invoke_args(self)")],
        modifies=[])}
    cs.append(c)

    # ------------------------------------------------------------ bounds
    def bound_contract(which, side):
        return Contract(
            f"{GO}:GOLoop.{which}", params={"self": "GOLoop"},
            requires=[("tab", "TABWF()"), ("cfg", "CFGWF()"),
                      ("not_every", "self._field_space != 'go_every'"),
                      ("in_invoke", "gsched(self) is not None")],
            returns="Node",
            ensures=[
                ("internal", f"implies(lower(self._iteration_space) == "
                 f"'go_internal_pts', result is GP(self, CFGP()["
                 f"'go_grid_internal_' + self._loop_type + '_{side}']"
                 f".fortran))"),
                ("whole", f"implies(lower(self._iteration_space) != "
                 f"'go_internal_pts' and lower(self._iteration_space) == "
                 f"'go_all_pts', result is GP(self, CFGP()["
                 f"'go_grid_whole_' + self._loop_type + '_{side}']"
                 f".fortran))"),
                ("custom", f"implies(lower(self._iteration_space) != "
                 f"'go_internal_pts' and lower(self._iteration_space) != "
                 f"'go_all_pts', result is READ(custom_string(self, "
                 f"'{side}'), gsched_table(self)))"),
            ],
            raises={"GenerationError": None, "KeyError": None},
            modifies=[])
    for which, side in (("lower_bound", "start"), ("upper_bound", "stop")):
        c = bound_contract(which, side)
        uni.contracts[f"GOLoop.{which}"] = c
        cs.append(c)
    uni.consts["custom_string"] = VFunc("uf", name="custom_bound_string",
                                        argtags=["ref", "str"], ret="str")
    uni.consts["gsched_table"] = VFunc(
        "hook", fn=lambda it, a, k, st, fr: VRef(
            st.read("_symbol_table", GSCH(a[0].e), "ref"), "SymbolTable"))

    def h_gp(it, selfv, args, kw, st, fr):
        f = uni.uf("grid_property_expr", ["ref", "str"], "ref")
        return VRef(f(selfv.e, args[0].e), "Node")

    def h_custom(it, selfv, args, kw, st, fr):
        f = uni.uf("custom_bound_string", ["ref", "str"], "str")
        flag = fresh("raises_GenerationError", z3.BoolSort())
        if it.dec.branch(st, flag):
            from pyvc.state import PyRaise
            from pyvc.values import VExc
            raise PyRaise(VExc("GenerationError"))
        return VStr(f(selfv.e, args[0].e))

    def h_reader(it, selfv, args, kw, st, fr):
        f = uni.uf("fortran_reader_expr", ["str", "ref"], "ref")
        return VRef(f(args[0].e, args[1].e), "Node")

    # inside lower/upper_bound the three callees are used by (assumed or
    # separately verified) contract
    uni.method_hooks["GOLoop._grid_property_psyir_expression"] = h_gp
    uni.method_hooks["FortranReader.psyir_from_expression"] = h_reader
    uni.method_hooks["FortranReader.__init__"] = \
        lambda it, s, a, k, st, fr: NONE
    uni.contracts["GOLoop.get_custom_bound_string"].call_hook = h_custom
    uni.note_assumption(
        "inside lower_bound/upper_bound: _grid_property_psyir_expression and "
        "FortranReader.psyir_from_expression are uninterpreted functions of "
        "their arguments; get_custom_bound_string is used through its "
        "(separately verified) result function")
    return cs


# ---------------------------------------------------------------------------
# (a) the table: executed real code + z3 obligations over all grid sizes
# ---------------------------------------------------------------------------
BOUND_RE = re.compile(r"^\{(start|stop)\}\s*(?:([+-])\s*(\d+))?$")


def parse_bound(text, start, stop):
    m = BOUND_RE.match(text.strip())
    if not m:
        return None
    base = start if m.group(1) == "start" else stop
    if m.group(2):
        k = int(m.group(3))
        return base + k if m.group(2) == "+" else base - k
    return base


def table_obligations():
    """yield (name, ok, detail)"""
    import importlib
    import psyclone.gocean1p0 as g
    importlib.reload(g) if False else None
    saved = g.GOLoop._bounds_lookup
    g.GOLoop._bounds_lookup = {}
    try:
        g.GOLoop.setup_bounds()
        table = g.GOLoop._bounds_lookup
    finally:
        g.GOLoop._bounds_lookup = saved
    start, stop = z3.Ints("start stop")
    out = []

    def prove(name, hyp, goal):
        s = z3.Solver()
        s.add(hyp, z3.Not(goal))
        r = s.check()
        detail = ""
        if r == z3.sat:
            m = s.model()
            detail = f"start={m[start]}, stop={m[stop]}"
        out.append((name, r == z3.unsat, detail))
    from psyclone.domain.gocean import GOceanConstants
    const = GOceanConstants()
    for off in const.SUPPORTED_OFFSETS:
        for gp in const.VALID_FIELD_GRID_TYPES:
            regions = {}
            for its in ("go_all_pts", "go_internal_pts", "go_external_pts"):
                ent = table.get(off, {}).get(gp, {}).get(its)
                key = f"table[{off}][{gp}][{its}]"
                if ent is None or not ent:
                    if its != "go_external_pts":
                        out.append((f"{key}#present", False,
                                    "entry missing"))
                    continue
                for lt in ("inner", "outer"):
                    lo = parse_bound(ent.get(lt, {}).get("start", ""),
                                     start, stop)
                    hi = parse_bound(ent.get(lt, {}).get("stop", ""),
                                     start, stop)
                    ok = lo is not None and hi is not None
                    out.append((f"{key}[{lt}]#grammar", ok,
                                "" if ok else f"not '{{start|stop}}[+-k]': "
                                f"{ent.get(lt)}"))
                    if not ok:
                        continue
                    regions[(its, lt)] = (lo, hi)
                    prove(f"{key}[{lt}]#within-depth-1-halo", start <= stop,
                          z3.And(lo >= start - 1, hi <= stop + 1))
                    prove(f"{key}[{lt}]#nonempty-for-2-or-more-points",
                          start + 1 <= stop, lo <= hi)
            for lt in ("inner", "outer"):
                a = regions.get(("go_all_pts", lt))
                i = regions.get(("go_internal_pts", lt))
                if a and i:
                    prove(f"table[{off}][{gp}][{lt}]#all-contains-internal",
                          start <= stop, z3.And(a[0] <= i[0], i[1] <= a[1]))
    return out


TRUSTED = [
    "pyvc VC generator and z3",
    "setup_bounds is a closed function: it is executed (real code) and "
    "every entry of the resulting table becomes z3 obligations for all "
    "start <= stop",
    "NOT decidable here: agreement of the table with the dl_esm_inf "
    "run-time internal/whole regions (the library is an empty submodule in "
    "this checkout), hence also equality of regions with and without "
    "constant loop bounds; GOConstLoopBoundsTrans.apply and add_bounds are "
    "not under contract",
    "str.format / str.lower are uninterpreted functions",
]
EXPLANATION = (
    "Every built-in iteration-space entry is '{start|stop}[+-k]', stays "
    "within the depth-1 halo, is non-empty and the all-points region "
    "contains the internal region, for all grid sizes; "
    "get_custom_bound_string substitutes the x extent for inner and the y "
    "extent for outer loops into exactly the table entry of the loop's "
    "(offset, space, iteration space, type, side); lower_bound/upper_bound "
    "select the internal/whole grid property of the loop type and side, or "
    "the custom entry.")


def extra(uni, tier, seed):
    from pyvc.runner import Extra
    res = table_obligations()
    bad = [r for r in res if not r[1]]
    out = [Extra("table#" + name, ok, detail, kind="z3 obligation on an "
                 "entry of the executed setup_bounds table",
                 replay={"confirmed": True, "entry": name, "model": detail})
           for name, ok, detail in bad]
    out.append(Extra("table#all-entries", not bad,
                     f"{len(res)} obligations over the executed table",
                     kind="z3 obligations (all grid sizes) on the real "
                          "setup_bounds table", count=len(res),
                     samples=[r[0] for r in res[:4]],
                     replay={"confirmed": True,
                             "failed": [r[0] for r in bad]}))
    return out


def replay(name, ob, model, uni):
    from realise import C25 as R
    return R.run()
