"""C29 — transformed-kernel output never clobbers other kernels.

Contracts on the real bodies of CodedKern._new_name and
CodedKern.rename_and_write over a ghost file system with interference: at
every file-system call of the function the environment (other PSyclone
runs) may have created any number of further files (rely = the function's
own guarantee: files are only ever created, with O_CREAT|O_EXCL, and
written by their creator).  os.open(O_CREAT|O_EXCL) is atomic (POSIX).
"""
import z3
from pyvc.interp import Contract, LoopSpec
from pyvc.values import (VRef, VFunc, VBool, VStr, VInt, VTerm, VClass, NONE,
                         Ref, STR, VExc)
from pyvc.state import fresh, PyRaise

ID = "C29"
LEVEL = "proof"
PG = "psyGen.py"
NULLC = z3.Const("null", Ref)
BOOL = z3.BoolSort()


def build(uni):
    uni.exact_fstrings = True
    uni.fields.update({
        "_module_name": "str", "_modified": "bool", "_module_inline": "bool",
        "kernel_output_dir": "str", "kernel_naming": "str",
        "backend_checks_enabled": "bool",
    })
    # ghost file system: one global object
    uni.heap_extra = {"$exists": "set[str]", "$ours": "set[str]",
                      "$content": "map[str,str]"}
    FS = z3.Const("the_file_system", Ref)
    CFG = z3.Const("the_config", Ref)
    for c in (FS, CFG):
        uni.axioms.append(c != NULLC)
    CODE = z3.Function("written_kernel_code", Ref, STR)
    NEWNAME = z3.Function("new_name_spec", STR, STR, STR, STR)

    def fs(st, field, tag):
        return st.read(field, FS, tag)

    def interfere(it, st):
        """other runs may have created files and written their own"""
        e0 = fs(st, "$exists", "set[str]")
        c0 = fs(st, "$content", "map[str,str]")
        ours = fs(st, "$ours", "set[str]")
        e1 = fresh("exists", e0.sort())
        c1 = fresh("content", c0.sort())
        p = z3.Const("fsp", STR)
        st.assume(z3.ForAll([p], z3.Implies(z3.Select(e0, p),
                                            z3.Select(e1, p))))
        st.assume(z3.ForAll([p], z3.Implies(
            z3.Select(ours, p), z3.Select(c1, p) == z3.Select(c0, p))))
        st.write("$exists", FS, e1, "set[str]")
        st.write("$content", FS, c1, "map[str,str]")

    def h_os_open(it, a, k, st, fr):
        path = a[0].e
        interfere(it, st)
        e = fs(st, "$exists", "set[str]")
        if it.dec.branch(st, z3.Select(e, path)):
            raise PyRaise(VExc("FileExistsError"))
        # atomic test-and-create
        st.write("$exists", FS, z3.Store(e, path, True), "set[str]")
        st.write("$ours", FS, z3.Store(fs(st, "$ours", "set[str]"), path,
                                       True), "set[str]")
        fd = it.alloc(st, "FileDescriptor", None, "fd")
        st.write("$fdpath", fd.e, path, "str")
        return fd
    uni.heap_extra["$fdpath"] = "str"

    def h_os_write(it, a, k, st, fr):
        path = st.read("$fdpath", a[0].e, "str")
        c = fs(st, "$content", "map[str,str]")
        st.write("$content", FS, z3.Store(c, path, a[1].e), "map[str,str]")
        return NONE

    def h_open_read(it, a, k, st, fr):
        interfere(it, st)
        f = it.alloc(st, "FileObj", None, "ffile")
        st.write("$fdpath", f.e, a[0].e, "str")
        return f

    def h_file_read(it, selfv, a, k, st, fr):
        path = st.read("$fdpath", selfv.e, "str")
        return VStr(z3.Select(fs(st, "$content", "map[str,str]"), path))

    def term_attr(it, obj, attr, st, fr):
        path = tuple(obj.args) + (attr,)
        if path == ("os", "open"):
            return VFunc("hook", fn=h_os_open)
        if path == ("os", "write"):
            return VFunc("hook", fn=h_os_write)
        if path == ("os", "close"):
            return VFunc("hook", fn=lambda it2, a, k, st2, fr2: NONE)
        if path == ("os", "path", "join"):
            return VFunc("hook", fn=lambda it2, a, k, st2, fr2: VStr(
                z3.Concat(a[0].e, z3.StringVal("/"), a[1].e)))
        if path[:1] == ("os",) and attr.startswith("O_"):
            return VInt(fresh(attr, z3.IntSort()))
        return VTerm("ns", list(path))
    uni.term_attr = term_attr
    uni.consts["os"] = VTerm("ns", ["os"])
    uni.consts["open"] = VFunc("hook", fn=h_open_read)
    uni.method_hooks["FileObj.read"] = h_file_read

    def binop_hook(it, op, a, b, st, fr):
        import ast as _ast
        if isinstance(op, _ast.BitOr) and isinstance(a, VInt) and \
                isinstance(b, VInt):
            return VInt(fresh("flags", z3.IntSort()))
        return None
    uni.binop_hook = binop_hook

    def h_encode(it, selfv, a, k, st, fr):
        return selfv

    def field_hook(attr):
        def h(it, selfv, args, kw, st, fr):
            return it.getattr(VRef(selfv.e, "Obj"), attr, st, fr)
        return h

    def h_rename_psyir(it, selfv, args, kw, st, fr):
        old = st.read("_module_name", selfv.e, "str")
        st.write("_module_name", selfv.e,
                 NEWNAME(old, args[0].e, z3.StringVal("_mod")), "str")
        return NONE

    def construct_hook(it, cname, args, kw, st, fr):
        if cname in ("FortranWriter", "FortLineLength"):
            return VRef(z3.Const("the_" + cname, Ref), cname)
        return None
    uni.construct_hook = construct_hook
    uni.axioms.append(z3.Const("the_FortranWriter", Ref) != NULLC)
    uni.axioms.append(z3.Const("the_FortLineLength", Ref) != NULLC)
    uni.method_hooks.update({
        "Config.get": lambda it, s, a, k, st, fr: VRef(CFG, "ConfigObj"),
        "CodedKern.modified": field_hook("_modified"),
        "Kern.module_inline": field_hook("_module_inline"),
        "CodedKern.module_inline": field_hook("_module_inline"),
        "CodedKern.module_name": field_hook("_module_name"),
        "CodedKern._rename_psyir": h_rename_psyir,
        "CodedKern.get_kernel_schedule":
            lambda it, s, a, k, st, fr: VRef(s.e, "ScheduleOf"),
        "FortranWriter.__call__": lambda it, s, a, k, st, fr: VStr(
            CODE(a[0].e)),
        "FortLineLength.process": lambda it, s, a, k, st, fr: a[0],
    })
    uni.fields["root"] = "Node"
    uni.str_encode_identity = True
    uni.note_assumption(
        "ghost file system with interference (rely): before each os.open / "
        "open the set of existing files may have grown and files not "
        "created by this call may have any content; os.open(O_CREAT|O_EXCL) "
        "is an atomic test-and-create; os.write through our descriptor sets "
        "the content of our file; _rename_psyir sets the module name to "
        "_new_name(old, suffix, '_mod') (its own contract); the Fortran "
        "writer and the line-length limiter are functions of the tree")
    uni.consts["EXISTS"] = VFunc("hook", fn=lambda it, a, k, st, fr: VBool(
        z3.Select(fs(st, "$exists", "set[str]"), a[0].e)))
    uni.consts["EXISTED"] = VFunc("hook", fn=lambda it, a, k, st, fr: VBool(
        z3.Select(fr.old.read("$exists", FS, "set[str]"), a[0].e)))
    uni.consts["OURS"] = VFunc("hook", fn=lambda it, a, k, st, fr: VBool(
        z3.Select(fs(st, "$ours", "set[str]"), a[0].e)))
    uni.consts["CONTENT"] = VFunc("hook", fn=lambda it, a, k, st, fr: VStr(
        z3.Select(fs(st, "$content", "map[str,str]"), a[0].e)))
    uni.consts["fdpath"] = VFunc("hook", fn=lambda it, a, k, st, fr: VStr(
        st.read("$fdpath", a[0].e if isinstance(a[0], VRef) else NULLC,
                "str")))
    uni.consts["CFG"] = VFunc("hook", fn=lambda it, a, k, st, fr: VRef(
        CFG, "ConfigObj"))
    uni.consts["KCODE"] = VFunc("hook", fn=lambda it, a, k, st, fr: VStr(
        CODE(st.read("root", a[0].e, "ref"))))
    uni.consts["NEWNAME"] = VFunc("uf", name="new_name_spec",
                                  argtags=["str", "str", "str"], ret="str")
    uni.consts["lower"] = VFunc("uf", name="str_lower", argtags=["str"],
                                ret="str")
    cs = []
    # ------------------------------------------------------------ _new_name
    c = Contract(
        f"{PG}:CodedKern._new_name",
        params={"original": "str", "tag": "str", "suffix": "str"},
        requires=[("suffix", "len(suffix) >= 1")], returns="str",
        ensures=[
            ("keeps_suffix", "result.endswith(suffix)"),
            ("tag_before_suffix", "result.endswith(tag + suffix)"),
            ("base_kept", "result == ite(original.endswith(suffix), "
                          "original[:len(original) - len(suffix)], original) "
                          "+ tag + suffix"),
        ],
        raises={}, modifies=[],
        covers=[("with_suffix", "original.endswith(suffix)"),
                ("without", "not original.endswith(suffix)")])
    uni.contracts["CodedKern._new_name"] = c
    cs.append(c)
    # -------------------------------------------------------- rename_and_write
    DIR = "CFG().kernel_output_dir"
    c = Contract(
        f"{PG}:CodedKern.rename_and_write",
        params={"self": "CodedKern"},
        ghost={"WRITTEN": "str"},
        requires=[("nothing_ours_yet", "forall(lambda p: not OURS(p), "
                                       "'str')")],
        ensures=[
            # 'multiple': a fresh file, created by this call, holds our code
            ("multiple_writes_fresh_file",
             "implies(old(self._modified) and not old(self._module_inline) "
             "and CFG().kernel_naming != 'single', exists(lambda p: OURS(p) "
             "and not EXISTED(p) and CONTENT(p) == KCODE(self) and "
             "forall(lambda q: implies(OURS(q), q == p), 'str'), 'str'))"),
            # 'single': either we created and wrote the file, or the file we
            # read back holds exactly our code
            ("single_shares_only_identical",
             "implies(old(self._modified) and not old(self._module_inline) "
             "and CFG().kernel_naming == 'single', exists(lambda p: "
             "EXISTS(p) and CONTENT(p) == KCODE(self), 'str'))"),
            ("untouched_when_unmodified",
             "implies(not old(self._modified) or old(self._module_inline), "
             "forall(lambda p: not OURS(p), 'str') and "
             "self._module_name == old(self._module_name))"),
            ("others_files_kept", "forall(lambda p: implies(old(EXISTS(p)), "
                                  "EXISTS(p)), 'str')"),
        ],
        raises={"GenerationError": "CFG().kernel_naming == 'single'"},
        modifies=["$exists", "$ours", "$content", "_module_name",
                  "_modified", "$fdpath"],
        covers=[("wrote", "exists(lambda p: OURS(p), 'str')"),
                ("shared", "CFG().kernel_naming == 'single' and "
                           "forall(lambda p: not OURS(p), 'str')"),
                ("differs", "raise:GenerationError")])
    uni.contracts["CodedKern.rename_and_write"] = c
    uni.local_types["CodedKern.rename_and_write"] = {
        "new_suffix": "str", "new_name": "str"}
    uni.loopspecs["CodedKern.rename_and_write"] = {0: LoopSpec(
        invariants=[
            ("fd", "ite(fdesc is None, forall(lambda p: not OURS(p), 'str'),"
                   " OURS(fdpath(fdesc)) and EXISTS(fdpath(fdesc)) and not EXISTED(fdpath(fdesc)) "
                   "and forall(lambda q: implies(OURS(q), "
                   "q == fdpath(fdesc)), 'str'))"),
            ("grows", "forall(lambda p: implies(old(EXISTS(p)), EXISTS(p)), "
                      "'str')"),
            ("name", "self._module_name == old(self._module_name) and "
                     "self._modified == old(self._modified)"),
            ("idx", "name_idx >= -1")],
        modifies=["$exists", "$content", "$ours", "$fdpath"])}
    cs.append(c)
    return cs


TRUSTED = [
    "pyvc VC generator and z3 (strings)",
    "POSIX: os.open(O_CREAT|O_EXCL) is an atomic test-and-create; the rely "
    "on other runs (they only create files and write the files they "
    "created)",
    "NOT proved: termination of the retry loop under continual "
    "interference (liveness); that a run of the 'single' scheme reading a "
    "file another run has created but not yet written does not fail "
    "spuriously (recorded known finding); agreement of the file name with "
    "the module name for names with an upper-case '_MOD' suffix (recorded "
    "known finding); _rename_psyir's own body",
]
EXPLANATION = (
    "Under arbitrary interference between its file-system calls, "
    "rename_and_write with the 'multiple' scheme writes its kernel into a "
    "file that did not exist before and that this call created (O_EXCL), "
    "creates no other file and removes none; with the 'single' scheme it "
    "returns normally only if the file it created or read back holds "
    "exactly its own code, otherwise it raises; an unmodified or inlined "
    "kernel touches nothing. _new_name inserts the tag before the suffix.")


def extra(uni, tier, seed):
    from pyvc.runner import Extra
    from realise import C29 as R
    rp = R.names()
    return [Extra("bounded#file-and-module-names-agree", not rp["confirmed"],
                  str(rp)[:300], kind="bounded run-time contract: real "
                  "rename_and_write into a scratch directory, module name "
                  "inside the written file equals the file name",
                  replay=rp, count=rp.get("cases", 1), bounded=True)]


def replay(name, ob, model, uni):
    from realise import C29 as R
    rp = R.names()
    if not rp.get("confirmed") and "rename_and_write" in name:
        rp = R.interleaved_different()
    return rp


def replay_known(k, uni):
    from realise import C29 as R
    return R.known(k.get("id"))
