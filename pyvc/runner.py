"""Property check driver: extract -> VCs -> discharge -> replay -> evidence.

Exit codes: 0 held / 1 violation (VIOLATION line printed) / 2 undecided /
3 checker error.  `unknown`, time-outs and tracebacks are never mapped to a
violation.
"""
import argparse
import importlib
import json
import os
import sys
import time
import traceback

import z3

ROOT = os.path.dirname(os.path.dirname(os.path.abspath(__file__)))
sys.path.insert(0, ROOT)

from pyvc.extract import Repo, ExtractionError            # noqa: E402
from pyvc.interp import Universe                           # noqa: E402
from pyvc.verify import verify_function                    # noqa: E402
from pyvc.smt import discharge, refute, model_for          # noqa: E402
from pyvc.state import Unsupported                         # noqa: E402


_UNI = _CONTRACTS = _TIMEOUT = _PROCS = None


class _Stub:
    """picklable stand-in for an Obligation solved in a worker"""

    def __init__(self, name, path, goal, contract):
        self.name, self.path, self.goal = name, path, goal
        self.contract = contract


class _Rep:
    pass


def _work(job):
    """explore one symbolic path of one contract and solve its obligations
    (runs in a forked worker)"""
    import hashlib
    from pyvc.smt import _solve
    from pyvc.verify import explore_path
    idx, prefix = job[0], job[1]
    c = _CONTRACTS[idx]
    n_before = len(_UNI.assumptions)
    t0 = time.time()
    try:
        from pyvc.verify import FunctionReport
        rep0 = FunctionReport(c)
        # cover points already reached on another path of this contract are
        # not checked again
        rep0.covered |= set(job[2]) if len(job) > 2 else set()
        obls, more, rep = explore_path(_UNI, c, prefix, rep0)
    except ExtractionError as err:
        return idx, {"extraction": str(err)}
    except Exception as err:       # noqa
        return idx, {"crash": f"{err!r}\n{traceback.format_exc()}"}
    gen_s = time.time() - t0
    cache, results, solver_s = {}, [], 0.0
    for ob in obls:
        text = ob.smt2()
        h = hashlib.sha256(text.encode()).hexdigest()
        if h not in cache:
            _, r, backend, secs = _solve((h, text, _TIMEOUT, True))
            cache[h] = (r, backend, secs)
            solver_s += secs
        r, backend, secs = cache[h]
        results.append((ob.name, r, backend, secs, tuple(ob.path),
                        str(ob.goal)[:300]))
    return idx, {"more": more, "results": results, "solver_s": solver_s,
                 "unique": len(cache), "exits": rep.exits,
                 "unsupported": rep.unsupported, "bounded": rep.bounded,
                 "gen_s": gen_s, "covered": sorted(rep.covered),
                 "assumptions": _UNI.assumptions[n_before:],
                 "used": dict(_UNI.repo.used)}


def _merge_outs(c, parts, max_paths=4000):
    """combine the per-path results of one contract"""
    for p in parts:
        if "extraction" in p or "crash" in p:
            return p
    lite = _Rep()
    lite.contract = c
    lite.paths = len(parts)
    lite.exits = {"return": 0, "raise": {}}
    lite.unsupported, lite.bounded, lite.wall = None, False, 0.0
    lite.covered = set()
    results, solver_s, unique, assumptions, used = [], 0.0, 0, [], {}
    for p in parts:
        lite.exits["return"] += p["exits"]["return"]
        for k, v in p["exits"]["raise"].items():
            lite.exits["raise"][k] = lite.exits["raise"].get(k, 0) + v
        lite.unsupported = lite.unsupported or p["unsupported"]
        lite.bounded = lite.bounded or p["bounded"]
        lite.covered |= set(p["covered"])
        lite.wall += p["gen_s"]
        results.extend(p["results"])
        solver_s += p["solver_s"]
        unique += p["unique"]
        for a in p["assumptions"]:
            if a not in assumptions:
                assumptions.append(a)
        used.update(p["used"])
    if len(parts) > max_paths:
        lite.unsupported = f"more than {max_paths} paths"
    lite.obligations = [None] * len(results)
    return {"report": lite, "results": results, "solver_s": solver_s,
            "unique": unique, "assumptions": assumptions, "used": used}


def _run_all(todo, max_paths=4000):
    """path-level parallel exploration of all contracts"""
    import multiprocessing as mp
    parts = {i: [] for i in range(len(todo))}
    covered = {i: set() for i in range(len(todo))}
    jobs = [(i, []) for i in range(len(todo))]
    if not jobs:
        return []
    ctx = mp.get_context("fork")
    nproc = int(os.environ.get("VERIF_PROCS", "0")) or \
        min(16, _PROCS or 2 * len(todo))
    with ctx.Pool(nproc) as pool:
        pending = [pool.apply_async(_work, (j,)) for j in jobs]
        while pending:
            nxt = []
            progressed = False
            for h in pending:
                if not h.ready():
                    nxt.append(h)
                    continue
                progressed = True
                idx, out = h.get()
                parts[idx].append(out)
                covered[idx] |= set(out.get("covered", ()))
                if "more" in out and not out["unsupported"] and \
                        len(parts[idx]) <= max_paths:
                    for pre in out["more"]:
                        nxt.append(pool.apply_async(
                            _work, ((idx, pre, tuple(covered[idx])),)))
            pending = nxt
            if not progressed:
                time.sleep(0.02)
    return [_merge_outs(todo[i], parts[i], max_paths)
            for i in range(len(todo))]


class Extra:
    """Result of a non-VC check step (structural scan, bounded run-time
    contract, finite enumeration)."""

    def __init__(self, name, ok, detail="", kind="scan", replay=None,
                 count=1, bounded=False, samples=None, undecided=False):
        self.name = name
        self.ok = ok
        self.detail = detail
        self.kind = kind
        self.replay = replay          # dict written to the replay file
        self.count = count            # obligations / cases covered
        self.bounded = bounded
        self.samples = samples or []
        self.undecided = undecided


def load_known(prop):
    path = os.path.join(ROOT, "known_findings.json")
    if not os.path.exists(path):
        return []
    with open(path) as fin:
        data = json.load(fin)
    return [e for e in data.get("findings", []) if e["property"] == prop]


def load_lock(prop):
    path = os.path.join(ROOT, "obligations.lock.json")
    if not os.path.exists(path):
        return None
    with open(path) as fin:
        return set(json.load(fin).get(prop, []))


def save_lock(prop, names):
    path = os.path.join(ROOT, "obligations.lock.json")
    data = {}
    if os.path.exists(path):
        with open(path) as fin:
            data = json.load(fin)
    data[prop] = sorted(names)
    with open(path, "w") as fout:
        json.dump(data, fout, indent=1, sort_keys=True)
        fout.write("\n")


def write_replay(prop, name, payload):
    d = os.path.join(ROOT, "replays", prop)
    os.makedirs(d, exist_ok=True)
    safe = "".join(ch if ch.isalnum() or ch in "._-" else "_" for ch in name)
    path = os.path.join(d, safe[:150] + ".json")
    with open(path, "w") as fout:
        json.dump(payload, fout, indent=1, default=str)
    return path


def model_summary(model, limit=40):
    out = {}
    if model is None:
        return out
    for d in model.decls()[:limit]:
        try:
            out[d.name()] = str(model[d])[:200]
        except Exception:      # noqa
            pass
    return out


def run(prop, tier, seed, update_lock=False, verbose=False):
    t0 = time.time()
    mod = importlib.import_module(f"contracts.{prop}")
    repo = Repo()
    uni = Universe(repo)
    known = load_known(prop)
    open_known = [k for k in known if k.get("status", "open") == "open"]
    uni.kf_classes = {}
    uni.kf_classes_here = {}
    for k in open_known:
        if k.get("obligation") and k.get("class"):
            uni.kf_classes.setdefault(k["obligation"], []).append(k["class"])
        if k.get("obligation") and k.get("class_here"):
            uni.kf_classes_here.setdefault(k["obligation"], []).append(
                k["class_here"])
    timeout_ms = 30000 if tier == "quick" else 120000
    result = {"violations": [], "undecided": [], "errors": [],
              "known_printed": []}
    functions, all_obls, reports = [], [], []
    try:
        contracts = mod.build(uni)
    except ExtractionError as err:
        print(f"UNDECIDED property={prop} extraction failed: {err}")
        return finish(prop, tier, seed, t0, uni, [], [], [], result, mod,
                      exit_code=2, note=str(err))
    # ---- VC generation + discharge (one worker per contract, forked) ----
    global _UNI, _CONTRACTS, _TIMEOUT, _PROCS
    _PROCS = getattr(mod, "PROCS", None)
    todo = [c for c in contracts if not c.assumed]
    _UNI, _CONTRACTS, _TIMEOUT = uni, todo, timeout_ms
    stats = {"solver_s": 0.0, "unique_queries": 0}
    outs = _run_all(todo)
    by_name = {}
    for c, out in zip(todo, outs):
        if "extraction" in out:
            result["undecided"].append(f"{c.name}: {out['extraction']}")
            continue
        if "crash" in out:
            result["errors"].append(f"{c.name}: {out['crash']}")
            continue
        rep = out["report"]
        reports.append(rep)
        for a in out["assumptions"]:
            uni.note_assumption(a)
        uni.repo.used.update(out["used"])
        if rep.unsupported:
            result["undecided"].append(
                f"{c.name}: unsupported: {rep.unsupported}")
        if not out["results"] and not rep.unsupported:
            result["errors"].append(f"{c.name}: zero obligations (vacuous)")
        missing = [lab for lab, _, _ in c.covers if lab not in rep.covered]
        if missing and not rep.unsupported:
            result["errors"].append(
                f"{c.name}: cover point(s) not reachable {missing} "
                f"(vacuous contract or unsound model)")
        if rep.paths and not rep.exits["return"] and \
                not rep.exits["raise"] and not rep.unsupported:
            result["errors"].append(f"{c.name}: no path reaches an exit "
                                    f"(contradictory precondition?)")
        stats["solver_s"] += out["solver_s"]
        stats["unique_queries"] += out["unique"]
        for name, r, backend, secs, path, goal in out["results"]:
            by_name.setdefault(name, []).append(
                (_Stub(name, path, goal, c), r, backend, secs))
    # anti-vacuity: a loop whose invariants are established but never
    # re-established has a body that never reaches its end on any path
    import re as _re
    inits, press = set(), set()
    for name in by_name:
        m = _re.match(r"(.*)#inv-(init|pres):(L\d+)\.", name)
        if m:
            (inits if m.group(2) == "init" else press).add(
                (m.group(1), m.group(3)))
    for fn_name, loop in sorted(inits - press):
        if any(fn_name in u for u in result["undecided"]):
            continue
        msg = (f"{fn_name}: loop {loop} has no preservation obligation (its "
               f"body never reaches its end: vacuous loop specification?)")
        lock0 = load_lock(prop)
        if lock0 is not None and any(
                n.startswith(f"{fn_name}#inv-pres:{loop}.") for n in lock0):
            # the loop had preservation obligations on the unchanged tree:
            # the code changed, this is not a defect of the contract
            result["undecided"].append(msg)
        else:
            result["errors"].append(msg)
    discharged_names, failed = set(), {}
    n_inst = n_unsat = 0
    backends = {}
    for name, insts in by_name.items():
        ok = True
        for ob, r, backend, secs in insts:
            n_inst += 1
            if r == "unsat":
                n_unsat += 1
                backends[backend] = backends.get(backend, 0) + 1
            else:
                ok = False
                failed.setdefault(name, []).append((ob, r))
        if ok:
            discharged_names.add(name)
    # failing obligations are regenerated in this process to get z3 terms
    regenerated = {}
    for name, insts in list(failed.items()):
        c = insts[0][0].contract
        if c.name not in regenerated:
            regenerated[c.name] = verify_function(uni, c).obligations
        new = []
        for stub, r in insts:
            for ob in regenerated[c.name]:
                if ob.name == name and tuple(ob.path) == tuple(stub.path):
                    new.append((ob, r))
                    break
        if new:
            failed[name] = new
        else:
            result["errors"].append(f"{name}: cannot regenerate obligation")
            del failed[name]
    # ---- extras (structural scans, bounded run-time contracts) ----------
    extras = []
    if hasattr(mod, "extra"):
        try:
            extras = list(mod.extra(uni, tier, seed))
        except ExtractionError as err:
            result["undecided"].append(f"extra: {err}")
        except Exception as err:      # noqa
            result["errors"].append(f"extra: {err!r}\n" +
                                    traceback.format_exc())
    # ---- failing obligations: counter-model + replay ---------------------
    lock = load_lock(prop)
    for name, insts in failed.items():
        ob, r = insts[0]
        for o2, r2 in insts:
            if r2 == "sat":
                ob, r = o2, r2
                break
        if r.startswith("error"):
            result["errors"].append(f"{name}: solver error {r}")
            continue
        model = refute(ob)
        solver_sat = (r == "sat")
        rp = None
        if hasattr(mod, "replay"):
            try:
                rp = mod.replay(name, ob, model, uni)
            except Exception as err:      # noqa
                rp = {"confirmed": False,
                      "error": f"realiser failed: {err!r}"}
        payload = {"property": prop, "obligation": name,
                   "solver_result": r, "path": list(ob.path),
                   "candidate_model": model_summary(model),
                   "replay": rp, "goal": str(ob.goal)[:2000]}
        if rp and rp.get("confirmed"):
            kf = match_known(open_known, name, rp)
            if kf is not None:
                msg = f"KNOWN-FINDING: property={prop} {kf['what']}"
                if msg not in result["known_printed"]:
                    result["known_printed"].append(msg)
                continue
            path = write_replay(prop, name, payload)
            result["violations"].append((name, path, ""))
        elif solver_sat and lock is not None and name in lock:
            path = write_replay(prop, name, payload)
            result["violations"].append((name, path,
                                         " no-failing-input-found"))
        else:
            result["undecided"].append(
                f"{name}: solver={r}, candidate model "
                f"{'found' if model is not None else 'not found'}, "
                f"replay did not confirm")
    # ---- undecided parts: bounded search on the real code -----------------
    if result["undecided"] and hasattr(mod, "bounded"):
        try:
            rp = mod.bounded(uni, tier, seed)
        except Exception as err:      # noqa
            rp = {"confirmed": False, "error": repr(err)}
        if rp and rp.get("confirmed"):
            kf = match_known(open_known, "bounded", rp)
            if kf is None:
                payload = {"property": prop,
                           "obligation": "bounded-search (deductive part "
                                         "undecided: " +
                                         "; ".join(result["undecided"])[:500]
                                         + ")",
                           "replay": rp}
                path = write_replay(prop, "bounded-search", payload)
                result["violations"].append(("bounded-search", path, ""))
    for ex in extras:
        if ex.ok:
            continue
        if ex.undecided:
            result["undecided"].append(f"{ex.name}: {ex.detail}")
            continue
        kf = match_known(open_known, ex.name, ex.replay or {})
        if kf is not None:
            ex.known = True
            msg = f"KNOWN-FINDING: property={prop} {kf['what']}"
            if msg not in result["known_printed"]:
                result["known_printed"].append(msg)
            continue
        payload = {"property": prop, "obligation": ex.name,
                   "detail": ex.detail, "replay": ex.replay}
        suffix = "" if (ex.replay or {}).get("confirmed", True) else \
            " no-failing-input-found"
        path = write_replay(prop, ex.name, payload)
        result["violations"].append((ex.name, path, suffix))
    # ---- known findings must still reproduce (else: stale entry, note) ---
    if hasattr(mod, "replay_known"):
        for k in open_known:
            try:
                still = mod.replay_known(k, uni)
            except Exception as err:      # noqa
                still = None
                result["errors"].append(f"replay_known: {err!r}")
            if still:
                msg = f"KNOWN-FINDING: property={prop} {k['what']}"
                if msg not in result["known_printed"]:
                    result["known_printed"].append(msg)
            elif still is False:
                print(f"NOTE: known finding no longer reproduces: "
                      f"{k['what']}")
    # ---- lock -------------------------------------------------------------
    produced = set(by_name) | {e.name for e in extras}
    good = discharged_names | {e.name for e in extras if e.ok}
    if update_lock:
        save_lock(prop, good)
    elif lock is not None:
        missing = sorted(lock - produced)
        if missing:
            result["undecided"].append(
                f"{len(missing)} locked obligation(s) no longer generated, "
                f"e.g. {missing[:3]}")
    return finish(prop, tier, seed, t0, uni, reports, by_name, extras,
                  result, mod, stats=stats, n_inst=n_inst, n_unsat=n_unsat,
                  backends=backends, discharged_names=discharged_names,
                  verbose=verbose)


def match_known(open_known, name, rp):
    for k in open_known:
        if k.get("obligation") and k["obligation"] != name:
            continue
        inp = k.get("input_class")
        if inp and rp.get("input_class") != inp:
            continue
        return k
    return None


def finish(prop, tier, seed, t0, uni, reports, by_name, extras, result, mod,
           exit_code=None, note="", stats=None, n_inst=0, n_unsat=0,
           backends=None, discharged_names=(), verbose=False):
    stats = stats or {}
    for line in result["known_printed"]:
        print(line)
    for name, path, suffix in result["violations"]:
        print(f"VIOLATION property={prop} replay={path}{suffix}")
    for u in result["undecided"]:
        print(f"UNDECIDED property={prop} {u}")
    for e in result["errors"]:
        print(f"CHECKER-ERROR property={prop} {e}")
    if exit_code is None:
        confirmed = [v for v in result["violations"]
                     if "no-failing-input-found" not in v[2]]
        if confirmed:
            # a violation replayed on the real code stands even if another
            # part of the check could not be run
            exit_code = 1
        elif result["errors"]:
            exit_code = 3
        elif result["violations"]:
            exit_code = 1
        elif result["undecided"]:
            exit_code = 2
        else:
            exit_code = 0
    level = getattr(mod, "LEVEL", "proof")
    # obligations matched by a recorded known finding are reported under
    # known_findings_printed, not counted as (undischarged) obligations
    # bounded run-time contracts are reported separately (bounded_cases):
    # they are never part of the obligations / discharged counts
    ex_count = sum(e.count for e in extras
                   if not getattr(e, "known", False) and not e.bounded)
    ex_ok = sum(e.count for e in extras if e.ok and not e.bounded)
    bounded_cases = sum(e.count for e in extras if e.bounded and e.ok)
    bounded = [e.name for e in extras if e.bounded] + \
        [r.contract.name for r in reports if r.bounded]
    samples = []
    for name in list(by_name)[:6]:
        ob = by_name[name][0][0]
        samples.append({"obligation": name, "path": list(ob.path)[:12],
                        "goal": str(ob.goal)[:300]})
    for e in extras[:6]:
        samples.append({"check": e.name, "kind": e.kind,
                        "cases": e.samples[:3]})
    functions = dict(uni.repo.used)
    cov = {
        "obligations": n_inst + ex_count,
        "discharged": n_unsat + ex_ok,
        "checker_cmd": f"./check {prop} --tier {tier}",
        "trusted_base": list(uni.assumptions) + list(
            getattr(mod, "TRUSTED", [])),
        "named_obligations": len(by_name),
        "named_discharged": len(discharged_names),
        "vc_instances": n_inst, "vc_unsat": n_unsat,
        "backends": backends or {},
        "solver_s": round(stats.get("solver_s", 0.0), 2),
        "unique_queries": stats.get("unique_queries", 0),
        "functions_under_contract": functions,
        "contracts": [{"name": r.contract.name, "paths": r.paths,
                       "obligations": len(r.obligations),
                       "exits": r.exits, "bounded": r.bounded,
                       "unsupported": r.unsupported,
                       "assumed": False} for r in reports],
        "assumed_contracts": [c.name for c in uni.contracts.values()
                              if c.assumed],
        "extra_checks": [{"name": e.name, "kind": e.kind, "ok": e.ok,
                          "cases": e.count, "bounded": e.bounded,
                          "detail": e.detail[:300]} for e in extras],
        "bounded_parts": bounded,
        "bounded_cases_not_counted_as_obligations": bounded_cases,
        "samples": samples or [{"note": note or "none"}],
        "evaluations": max(1, n_inst + ex_count + bounded_cases),
        "distinct_nontrivial": max(2, len(by_name) + len(extras)),
        "rule": "one case per named obligation (function#kind:label) "
                "or extra check; instances are per symbolic path",
        "explanation": getattr(mod, "EXPLANATION", ""),
        "known_findings_printed": result["known_printed"],
        "known_finding_obligations": [e.name for e in extras
                                      if getattr(e, "known", False)],
        "undecided": result["undecided"],
    }
    ev = {"property_id": prop, "tier": tier, "seed": seed, "level": level,
          "coverage": cov,
          "assumptions": list(uni.assumptions) + list(
              getattr(mod, "TRUSTED", [])),
          "wall_s": round(time.time() - t0, 2),
          "violations": len(result["violations"])}
    os.makedirs(os.path.join(ROOT, "evidence"), exist_ok=True)
    with open(os.path.join(ROOT, "evidence", f"{prop}.json"), "w") as fout:
        json.dump(ev, fout, indent=1, default=str)
        fout.write("\n")
    print(f"{prop}: exit={exit_code} named={len(by_name)} "
          f"discharged={len(discharged_names)} instances={n_inst} "
          f"extras={len(extras)} wall={ev['wall_s']}s")
    if verbose:
        for name, insts in by_name.items():
            print("  ", name, [r for _, r, _, _ in insts])
    return exit_code


def main():
    ap = argparse.ArgumentParser()
    ap.add_argument("prop")
    ap.add_argument("--tier", default=os.environ.get("VERIF_TIER", "quick"))
    ap.add_argument("--replay")
    ap.add_argument("--update-lock", action="store_true")
    ap.add_argument("-v", action="store_true")
    args = ap.parse_args()
    seed = int(os.environ.get("VERIF_SEED", "0") or 0)
    os.environ.setdefault("PSYCLONE_CONFIG", "/repo/config/psyclone.cfg")
    if args.replay:
        with open(args.replay) as fin:
            payload = json.load(fin)
        mod = importlib.import_module(f"contracts.{args.prop}")
        if hasattr(mod, "replay_file"):
            sys.exit(mod.replay_file(payload))
        print(json.dumps(payload, indent=1))
        sys.exit(0)
    try:
        code = run(args.prop, args.tier, seed, update_lock=args.update_lock,
                   verbose=args.v)
    except Exception:       # noqa
        traceback.print_exc()
        print(f"CHECKER-ERROR property={args.prop} internal error")
        code = 3
    sys.exit(code)


if __name__ == "__main__":
    main()
