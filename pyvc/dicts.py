"""dict / set objects on the heap and iteration by the seen-set rule.

dict d : $dom.<K>[d] : Array K Bool, $map.<K>.<V>[d] : Array K V, $card[d]
set  s : $set.<K>[s] : Array K Bool, $card[s]
$card is ghost; it is linked to the contents by the finite-set facts
(card >= 0, card = 0 <=> empty) which are re-assumed at every use, and
updated by +-1 on insertions/removals of keys.
"""
import ast
import z3
from .values import *
from .state import Unsupported, PathEnd, PyRaise, fresh, fresh_name
from .common import *
from .common import _Return, _Break, _Continue
from .values import split_top


class DictMixin:
    # -- layout -----------------------------------------------------------
    def d_tags(self, d):
        kt, vt = d.elem
        return base_tag(kt), base_tag(vt)

    def d_dom(self, d, st):
        kb, _ = self.d_tags(d)
        return st.read("$dom." + kb, d.e, f"set[{kb}]")

    def d_map(self, d, st):
        kb, vb = self.d_tags(d)
        return st.read(f"$map.{kb}.{vb}", d.e, f"map[{kb},{vb}]")

    def d_set_dom(self, d, st, arr):
        kb, _ = self.d_tags(d)
        st.write("$dom." + kb, d.e, arr, f"set[{kb}]")

    def d_set_map(self, d, st, arr):
        kb, vb = self.d_tags(d)
        st.write(f"$map.{kb}.{vb}", d.e, arr, f"map[{kb},{vb}]")

    def s_arr(self, s, st):
        kb = base_tag(s.elem)
        return st.read("$set." + kb, s.e, f"set[{kb}]")

    def s_set(self, s, st, arr):
        kb = base_tag(s.elem)
        st.write("$set." + kb, s.e, arr, f"set[{kb}]")

    def members(self, obj, st):
        """membership array of a dict (keys) or a set"""
        if obj.elem is None:
            raise Unsupported("container of unknown element type")
        return self.d_dom(obj, st) if obj.cls == "dict" else \
            self.s_arr(obj, st)

    def key_tag(self, obj):
        return obj.elem[0] if obj.cls == "dict" else obj.elem

    def card(self, obj, st, link=False):
        """ghost size; link=True also assumes  card > 0 <=> non-empty
        (finite-set fact, used where emptiness is tested)"""
        c = st.read("$card", obj.e, "int")
        st.assume(c >= 0)
        if link:
            mem = self.members(obj, st)
            k = z3.Const(fresh_name("ck"), mem.sort().domain())
            st.assume((c > 0) == z3.Exists([k], z3.Select(mem, k)))
        return c

    def bump(self, obj, st, delta):
        c = st.read("$card", obj.e, "int")
        st.write("$card", obj.e, c + delta, "int")

    # -- operations -------------------------------------------------------
    def setop(self, recv, name, args, kw, st, fr):
        if recv.elem is None:
            if name != "add" or not args:
                raise Unsupported("operation on a set of unknown type")
            a0 = args[0]
            recv.elem = a0.cls if isinstance(a0, VRef) else a0.tag
            kb = base_tag(recv.elem)
            self.s_set(recv, st, z3.K(sort_of(kb), z3.BoolVal(False)))
        cur = self.s_arr(recv, st)
        if name in ("add", "discard", "remove"):
            x = self.to_z3(args[0])
            present = z3.Select(cur, x)
            if name == "remove":
                if not self.dec.branch(st, present):
                    raise PyRaise(VExc("KeyError"))
            self.bump(recv, st, z3.If(present, 0, 1) if name == "add"
                      else z3.If(present, -1, 0))
            self.s_set(recv, st, z3.Store(cur, x, z3.BoolVal(name == "add")))
            return NONE
        if name == "union":
            other = args[0]
            if not (isinstance(other, VRef) and other.cls == "set"):
                raise Unsupported("set.union with a non-set")
            if other.elem is None:
                return self.setop(recv, "copy", [], {}, st, fr)
            new = self.alloc(st, "set", recv.elem, "sunion")
            kb = base_tag(recv.elem)
            u = fresh("union", z3.ArraySort(sort_of(kb), BOOL))
            k = z3.Const(fresh_name("uk"), sort_of(kb))
            oth = self.s_arr(other, st)
            st.assume(z3.ForAll([k], z3.Select(u, k) == z3.Or(
                z3.Select(cur, k), z3.Select(oth, k))))
            self.s_set(new, st, u)
            return new
        if name == "issubset":
            other = args[0]
            if not (isinstance(other, VRef) and other.cls == "set"):
                raise Unsupported("set.issubset with a non-set")
            kb = base_tag(recv.elem)
            k = z3.Const(fresh_name("sk"), sort_of(kb))
            if other.elem is None:
                # the other set is still untyped, i.e. empty
                return VBool(z3.ForAll([k], z3.Not(z3.Select(cur, k))))
            oth = self.s_arr(other, st)
            return VBool(z3.ForAll([k], z3.Implies(z3.Select(cur, k),
                                                   z3.Select(oth, k))))
        if name == "copy":
            new = self.alloc(st, "set", recv.elem, "scopy")
            self.s_set(new, st, cur)
            st.write("$card", new.e, st.read("$card", recv.e, "int"), "int")
            return new
        raise Unsupported(f"set.{name}")

    def dictop(self, recv, name, args, kw, st, fr):
        if name in ("items", "keys", "values"):
            return VPy(("dict" + name, recv))
        if recv.elem is None:
            # a dict created empty and not yet typed by a store
            if name == "get":
                return args[1] if len(args) > 1 else NONE
            if name == "copy":
                new = self.alloc(st, "dict", None, "dcopy")
                st.write("$card", new.e, z3.IntVal(0), "int")
                return new
            if name == "pop":
                if len(args) > 1:
                    return args[1]
                raise PyRaise(VExc("KeyError"))
            raise Unsupported(f"dict.{name} on an untyped empty dict")
        kt, vt = recv.elem
        dom, mp = self.d_dom(recv, st), self.d_map(recv, st)
        if name == "get":
            k = self.to_z3(args[0])
            if self.dec.branch(st, z3.Select(dom, k)):
                return self.mkval(z3.Select(mp, k), vt)
            return args[1] if len(args) > 1 else NONE
        if name == "pop":
            k = self.to_z3(args[0])
            if self.dec.branch(st, z3.Select(dom, k)):
                val = self.mkval(z3.Select(mp, k), vt)
                self.d_set_dom(recv, st, z3.Store(dom, k, False))
                self.bump(recv, st, -1)
                return val
            if len(args) > 1:
                return args[1]
            raise PyRaise(VExc("KeyError"))
        if name == "update":
            other = args[0]
            if not (isinstance(other, VRef) and other.cls == "dict"):
                raise Unsupported("dict.update with a non-dict")
            if other.elem is None:
                return NONE
            kb, vb = self.d_tags(recv)
            odom, omap = self.d_dom(other, st), self.d_map(other, st)
            ndom = fresh("upd_dom", dom.sort())
            nmap = fresh("upd_map", mp.sort())
            k = z3.Const(fresh_name("uk"), sort_of(kb))
            st.assume(z3.ForAll([k], z3.And(
                z3.Select(ndom, k) == z3.Or(z3.Select(dom, k),
                                            z3.Select(odom, k)),
                z3.Select(nmap, k) == z3.If(z3.Select(odom, k),
                                            z3.Select(omap, k),
                                            z3.Select(mp, k)))))
            self.d_set_dom(recv, st, ndom)
            self.d_set_map(recv, st, nmap)
            st.write("$card", recv.e, fresh("upd_card", INT), "int")
            return NONE
        if name == "copy":
            new = self.alloc(st, "dict", recv.elem, "dcopy")
            self.d_set_dom(new, st, dom)
            self.d_set_map(new, st, mp)
            st.write("$card", new.e, st.read("$card", recv.e, "int"), "int")
            return new
        raise Unsupported(f"dict.{name}")

    def dict_getitem(self, obj, idx, st, fr):
        kt, vt = obj.elem
        k = self.to_z3(idx)
        if not fr.spec:
            if not self.dec.branch(st, z3.Select(self.d_dom(obj, st), k)):
                raise PyRaise(VExc("KeyError"))
        return self.mkval(z3.Select(self.d_map(obj, st), k), vt)

    def dict_setitem(self, obj, idx, v, st, fr):
        if obj.elem is None:
            kt = idx.cls if isinstance(idx, VRef) else idx.tag
            vt = (v.cls or "ref") if isinstance(v, VRef) else \
                ("ref" if isinstance(v, VNone) else v.tag)
            obj.elem = (kt, vt)
            self.d_set_dom(obj, st, z3.K(sort_of(base_tag(kt)),
                                         z3.BoolVal(False)))
        if base_tag(obj.elem[1]) != base_tag(
                (v.cls or "ref") if isinstance(v, VRef) else
                ("ref" if isinstance(v, VNone) else v.tag)):
            raise Unsupported("dict with values of different sorts")
        k = self.to_z3(idx)
        dom = self.d_dom(obj, st)
        self.bump(obj, st, z3.If(z3.Select(dom, k), 0, 1))
        self.d_set_dom(obj, st, z3.Store(dom, k, True))
        self.d_set_map(obj, st, z3.Store(self.d_map(obj, st), k,
                                         self.to_z3(v)))

    def dict_delitem(self, obj, idx, st, fr):
        k = self.to_z3(idx)
        dom = self.d_dom(obj, st)
        if not self.dec.branch(st, z3.Select(dom, k)):
            raise PyRaise(VExc("KeyError"))
        self.d_set_dom(obj, st, z3.Store(dom, k, False))
        self.bump(obj, st, -1)

    def new_container(self, st, cls, elem, name):
        obj = self.alloc(st, cls, elem, name)
        kb = base_tag(elem[0] if cls == "dict" else elem)
        empty = z3.K(sort_of(kb), z3.BoolVal(False))
        if cls == "dict":
            self.d_set_dom(obj, st, empty)
        else:
            self.s_set(obj, st, empty)
        st.write("$card", obj.e, z3.IntVal(0), "int")
        return obj

    # -- deepcopy of dict[K, set[K2]] / dict[K, scalar] / set ---------------
    def deepcopy(self, v, st, fr):
        self.uni.note_assumption(
            "copy.deepcopy/copy.copy of dict/set/list: assumed contract "
            "(fresh containers, equal contents, fresh distinct value objects)")
        if isinstance(v, VRef) and v.cls == "set":
            return self.setop(v, "copy", [], {}, st, fr)
        if isinstance(v, VRef) and v.cls == "dict":
            kt, vt = v.elem
            self.heap_closure(st)
            dom, mp = self.d_dom(v, st), self.d_map(v, st)
            st.field("$alloc", "bool")
            new = self.dictop(v, "copy", [], {}, st, fr)
            if base_tag(vt) != "ref":
                return new
            head, arg = tag_parts(vt)
            if head != "set":
                raise Unsupported(f"deepcopy of dict of {vt}")
            kb = base_tag(kt)
            mp2 = fresh("dcmap", mp.sort())
            k = z3.Const(fresh_name("k"), sort_of(kb))
            k2 = z3.Const(fresh_name("k2"), sort_of(kb))
            al = st.field("$alloc", "bool")
            sb = base_tag(arg)
            sets = st.field("$set." + sb, f"set[{sb}]")
            cards = st.field("$card", "int")
            # fresh distinct set objects with equal contents
            sets2 = fresh("H_$set." + sb, sets.sort())
            cards2 = fresh("H_$card", cards.sort())
            al2 = fresh("H_$alloc", al.sort())
            x = z3.Const(fresh_name("x"), Ref)
            st.assume(z3.ForAll([k], z3.Implies(z3.Select(dom, k), z3.And(
                z3.Select(mp2, k) != NULL,
                z3.Not(z3.Select(al, z3.Select(mp2, k))),
                z3.Select(al2, z3.Select(mp2, k)),
                z3.Select(sets2, z3.Select(mp2, k)) ==
                z3.Select(sets, z3.Select(mp, k)),
                z3.Select(cards2, z3.Select(mp2, k)) ==
                z3.Select(cards, z3.Select(mp, k)))),
                patterns=[z3.Select(mp2, k)]))
            st.assume(z3.ForAll([k, k2], z3.Implies(
                z3.And(z3.Select(dom, k), z3.Select(dom, k2), k != k2),
                z3.Select(mp2, k) != z3.Select(mp2, k2))))
            st.assume(z3.ForAll([x], z3.Implies(z3.Select(al, x), z3.And(
                z3.Select(al2, x),
                z3.Select(sets2, x) == z3.Select(sets, x),
                z3.Select(cards2, x) == z3.Select(cards, x))),
                patterns=[z3.Select(sets2, x), z3.Select(cards2, x),
                          z3.Select(al2, x)]))
            st.heap["$set." + sb] = sets2
            st.heap["$card"] = cards2
            st.heap["$alloc"] = al2
            self.d_set_map(new, st, mp2)
            return new
        raise Unsupported(f"deepcopy of {v}")

    # -- iteration by the seen-set rule ------------------------------------
    def unordered_desc(self, it, st, fr):
        """(container, mode) for dict/set iteration or None"""
        if isinstance(it, VPy) and isinstance(it.obj, tuple) and it.obj and \
                it.obj[0] in ("dictitems", "dictkeys", "dictvalues"):
            return it.obj[1], it.obj[0][4:]
        if isinstance(it, VRef) and it.cls == "dict":
            return it, "keys"
        if isinstance(it, VRef) and it.cls == "set":
            return it, "elems"
        return None

    def unordered_elem(self, cont, mode, k, st):
        ktag = self.key_tag(cont)
        kv = self.mkval(k, ktag)
        if mode in ("keys", "elems"):
            return kv
        kt, vt = cont.elem
        val = self.mkval(z3.Select(self.d_map(cont, st), k), vt)
        if mode == "values":
            return val
        return VTuple([kv, val])

    def for_unordered(self, s, st, fr, cont, mode, spec, ordinal):
        if spec is None:
            raise Unsupported(
                f"loop #{ordinal} over a dict/set @{s.lineno} needs an "
                f"invariant (seen-set rule)")
        tag = f"L{ordinal}"
        kb = base_tag(self.key_tag(cont))
        ksort = sort_of(kb)
        entry = st.snapshot()
        mem0 = self.members(cont, st)

        def inv_frame(seen):
            env = dict(fr.env)
            env["_seen"] = VPy(("zset", seen, self.key_tag(cont)))
            sub = Frame(fr.func, fr.cls, fr.contract, env=env, spec=True)
            sub.old = fr.old
            sub.entry_state = entry
            sub.head_state = head if head is not None else st
            return sub
        head = None
        empty = z3.K(ksort, z3.BoolVal(False))
        for label, text, *_ in spec.invariants:
            g = self.truth(self.ev(parse_expr(text), st, inv_frame(empty)),
                           st)
            self.oblige(fr, st, "inv-init", f"{tag}.{label}", g)
        self.havoc_loop(s, st, fr, spec)
        head = st.snapshot()
        # the iterated container keeps its key set during the loop
        mem = self.members(cont, st)
        st.assume(mem == mem0)
        seen = fresh("seen", z3.ArraySort(ksort, BOOL))
        kq = z3.Const(fresh_name("kq"), ksort)
        st.assume(z3.ForAll([kq], z3.Implies(z3.Select(seen, kq),
                                             z3.Select(mem, kq))))
        for label, text, *_ in spec.invariants:
            st.assume(self.truth(self.ev(parse_expr(text), st,
                                         inv_frame(seen)), st))
        k = fresh("key", ksort)
        more = z3.Exists([kq], z3.And(z3.Select(mem, kq),
                                      z3.Not(z3.Select(seen, kq))))
        if self.dec.branch(st, more):
            st.assume(z3.And(z3.Select(mem, k), z3.Not(z3.Select(seen, k))))
            self.assign(s.target, self.unordered_elem(cont, mode, k, st),
                        st, fr)
            try:
                self.exec_block(s.body, st, fr)
            except _Continue:
                pass
            except _Break:
                return
            seen2 = z3.Store(seen, k, True)
            for label, text, *lem in spec.invariants:
                for n, lt in enumerate(lem[0] if lem else ()):
                    g = self.truth(self.ev(parse_expr(lt), st,
                                           inv_frame(seen2)), st)
                    self.oblige(fr, st, "inv-lemma", f"{tag}.{label}.{n}", g)
                g = self.truth(self.ev(parse_expr(text), st,
                                       inv_frame(seen2)), st)
                self.oblige(fr, st, "inv-pres", f"{tag}.{label}", g)
            self.oblige(fr, st, "iter-keys-stable", tag,
                        self.members(cont, st) == mem)
            self.frame_check(fr, st, head, spec.modifies, tag)
            raise PathEnd()
        if spec.exhaust_lemma:
            sub = inv_frame(seen)
            self.uni.note_assumption(
                f"lemma assumed when loop {fr.func}:{tag} is exhausted: "
                f"{spec.exhaust_lemma[0]}")
            st.assume(self.truth(self.ev(parse_expr(spec.exhaust_lemma[1]),
                                         st, sub), st))
        self.exec_block(s.orelse, st, fr)
