"""C21 — LFRic kernel calls match the kernel interface for all metadata.

Deductive part, for the quadrature hook of the ordering walker: both
overrides of `quad_rule` (KernCallArgList and KernStubArgList) extend the
argument list, for an arbitrary ordered collection of quadrature rules, by
exactly the kernel arguments of rule 0, rule 1, ... in the ORDER OF THE
METADATA (ghost log of the `extend` calls).  The two postconditions are the
same sentence, so the call and the stub agree on count and order of the
quadrature arguments.
BOUNDED part (never counted as proved): the real PSy generator and the real
kernel-stub generator on 26 kernel metadata (quadrature orders, evaluator
with quadrature, adjacent_face with reference-element properties, stencil
mixes, scalar / vector / field / operator arguments); call and stub are
compared position by position (count, type, kind, rank, intent) and the
stub must not repeat a dummy argument.
"""
import z3
from pyvc.interp import Contract, LoopSpec
from pyvc.values import (VRef, VFunc, VBool, VInt, VStr, NONE, Ref, STR)
from pyvc.state import fresh

ID = "C21"
LEVEL = "proof"
CALL = "domain/lfric/kern_call_arg_list.py"
STUB = "domain/lfric/kern_stub_arg_list.py"
NULLC = z3.Const("null", Ref)
BOOL = z3.BoolSort()
INT = z3.IntSort()


def build(uni):
    uni.exact_fstrings = False
    uni.fields.update({"$ext": "list[Obj]", "$psy_name": "str",
                       "_nqp_positions": "list[Obj]"})
    AL0 = z3.Const("H0_$alloc", z3.ArraySort(Ref, BOOL))
    RULES = z3.Function("quadrature_rules_of", Ref, Ref)
    SHAPE = z3.Function("shape_of_rule", Ref, STR)
    KARGS = z3.Function("kernel_args_of", Ref, Ref)
    x = z3.Const("ax", Ref)
    uni.axioms.append(z3.ForAll([x], z3.And(
        KARGS(x) != NULLC, z3.Select(AL0, KARGS(x))), patterns=[KARGS(x)]))
    # a rule record (shape, rule): the ordered dict qr_rules as a list
    uni.records["QRItem"] = [(lambda e: SHAPE(e), "str"),
                             (lambda e: e, "QRule")]

    from pyvc.values import VTerm
    uni.class_attr = lambda it, cname, attr, st, fr: (
        VTerm("ns", ["ScalarType", "Intrinsic"])
        if (cname, attr) == ("ScalarType", "Intrinsic") else None)
    uni.term_attr = lambda it, obj, attr, st, fr: VTerm(
        "ns", list(obj.args) + [attr])

    def rules_list(st, kern, elem):
        r = RULES(kern)
        st.assume(z3.And(r != NULLC, z3.Select(AL0, r)))
        return VRef(r, "list", elem)

    def field_hook(attr):
        def h(it, selfv, args, kw, st, fr):
            return it.getattr(VRef(selfv.e, "Obj"), attr, st, fr)
        return h

    def h_extend(it, selfv, args, kw, st, fr):
        log = it.getattr(VRef(selfv.e, "Obj"), "$ext", st, fr)
        it.call(it.getattr(log, "append", st, fr), [args[0]], {}, st, fr,
                None)
        return NONE
    uni.method_hooks.update({
        "ArgOrdering.extend": h_extend,
        "KernCallArgList.extend": h_extend,
        "KernStubArgList.extend": h_extend,
        "ArgOrdering.num_args": lambda it, s, a, k, st, fr: VInt(
            fresh("num_args", INT)),
        "KernCallArgList.append_integer_reference":
            lambda it, s, a, k, st, fr: NONE,
        "KernCallArgList.append_array_reference":
            lambda it, s, a, k, st, fr: NONE,
    })
    uni.prop_hooks.update({
        "KernOf.qr_rules": lambda it, s, a, k, st, fr: VRef(s.e, "QRDict"),
        "QRule.kernel_args": lambda it, s, a, k, st, fr: VRef(
            KARGS(s.e), "list", "str"),
        "QRule.psy_name": field_hook("$psy_name"),
    })
    uni.method_hooks.update({
        "QRDict.values": lambda it, s, a, k, st, fr: rules_list(
            st, s.e, "QRule"),
        "QRDict.items": lambda it, s, a, k, st, fr: rules_list(
            st, s.e, "QRItem"),
    })
    for cls in ("KernCallArgList", "KernStubArgList", "ArgOrdering"):
        uni.prop_hooks[f"{cls}._kern"] = \
            lambda it, s, a, k, st, fr: VRef(s.e, "KernOf")
    uni.consts.update({
        "RULES": VFunc("hook", fn=lambda it, a, k, st, fr: VRef(
            RULES(a[0].e), "list", "QRule")),
        "KARGS": VFunc("hook", fn=lambda it, a, k, st, fr: VRef(
            KARGS(a[0].e), "list", "str")),
        "NQP": VFunc("hook", fn=lambda it, a, k, st, fr: it.getattr(
            VRef(a[0].e, "Obj"), "_nqp_positions", st, fr)),
        "LOG": VFunc("hook", fn=lambda it, a, k, st, fr: it.getattr(
            VRef(a[0].e, "Obj"), "$ext", st, fr)),
    })
    POST = ("len(LOG(self)) == old(len(LOG(self))) + len(RULES(self)) and "
            "forall(lambda k: implies(0 <= k and k < len(RULES(self)), "
            "at(LOG(self), old(len(LOG(self))) + k) is "
            "KARGS(at(RULES(self), k)))) and "
            "forall(lambda k: implies(0 <= k and k < old(len(LOG(self))), "
            "at(LOG(self), k) is old(at(LOG(self), k))))")
    PRE = ("LOG(self) is not None and LOG(self) is not RULES(self) and "
           "NQP(self) is not None and NQP(self) is not LOG(self) and "
           "NQP(self) is not RULES(self) and "
           "len(LOG(self)) >= 0 and "
           "forall(lambda k: implies(0 <= k and k < len(RULES(self)), "
           "at(RULES(self), k) is not None))")
    INV = [("iter", "_iter is RULES(self)"),
           ("log", "LOG(self) is not None and LOG(self) is not RULES(self) "
                   "and NQP(self) is not None and NQP(self) is not LOG(self) "
                   "and NQP(self) is not RULES(self) "
                   "and LOG(self) is entry(LOG(self)) "
                   "and NQP(self) is entry(NQP(self)) "
                   "and len(LOG(self)) == entry(len(LOG(self))) + _k and "
                   "forall(lambda k: implies(0 <= k and k < _k, "
                   "at(LOG(self), entry(len(LOG(self))) + k) is "
                   "KARGS(at(RULES(self), k)))) and "
                   "forall(lambda k: implies(0 <= k and "
                   "k < entry(len(LOG(self))), at(LOG(self), k) is "
                   "entry(at(LOG(self), k))))"),
           ("rules", "forall(lambda x: implies(x is not LOG(self) and x is not NQP(self), "
                     "select_list(x) == entry(select_list(x))), "
                     "'list[Obj]')")]
    cs = []
    for path, cls in ((STUB, "KernStubArgList"), (CALL, "KernCallArgList")):
        c = Contract(
            f"{path}:{cls}.quad_rule",
            params={"self": cls, "var_accesses": "Obj"},
            requires=[("log", PRE)],
            ensures=[("extends_by_the_rules_in_metadata_order", POST)],
            raises={"NotImplementedError": None, "InternalError": None},
            modifies=["$len", "$items.ref", "$items.str", "$dom.str",
                      "$map.str.int", "$card"],
            covers=[("two_rules", "len(RULES(self)) >= 2")])
        uni.contracts[f"{cls}.quad_rule:top"] = c
        uni.loopspecs[f"{cls}.quad_rule"] = {
            0: LoopSpec(invariants=list(INV),
                        modifies=["$len", "$items.ref", "$items.str",
                                  "$dom.str", "$map.str.int", "$card"]),
            1: LoopSpec(invariants=[
                ("quiet", "unchanged_since_head('$len', '$items.ref')")],
                modifies=[]),
        }
        cs.append(c)
    uni.note_assumption(
        "the ordered dict _kern.qr_rules is modelled as the list of its "
        "(shape, rule) items in metadata order; self.extend(list) is logged "
        "in a ghost list; append_integer_reference / append_array_reference "
        "(PSyIR side of the call list) are not modelled")
    return cs + build_mesh(uni)


def build_mesh(uni):
    """LFRicMeshProperties.kern_args (shared by the call list and the stub
    list): per adjacent_face property it passes the adjacency array and,
    before it, the number of horizontal faces nfaces_re_h exactly when the
    reference-element arguments (rule 5) do not already pass it, i.e. when
    neither normals_to_horizontal_faces nor
    outward_normals_to_horizontal_faces is requested (rule 6.1)."""
    DYN = "dynamo0p3.py"
    from pyvc.values import VTerm, VTuple, EnumDesc
    AL0 = z3.Const("H0_$alloc", z3.ArraySort(Ref, BOOL))
    uni.enums["MeshProperty"] = EnumDesc(
        "MeshProperty", ["ADJACENT_FACE", "NCELL_2D", "NCELL_2D_NO_HALOS"])
    uni.fields.update({"_properties": "list[enum:MeshProperty]",
                       "_kernel": "KernelOf", "$re_props": "list[int]",
                       "_symbol_table": "TableOf"})
    RE = ["NORMALS_TO_HORIZONTAL_FACES", "NORMALS_TO_VERTICAL_FACES",
          "NORMALS_TO_FACES", "OUTWARD_NORMALS_TO_HORIZONTAL_FACES",
          "OUTWARD_NORMALS_TO_VERTICAL_FACES", "OUTWARD_NORMALS_TO_FACES"]
    prev_class_attr = getattr(uni, "class_attr", None)

    def class_attr(it, cname, attr, st, fr):
        if (cname, attr) == ("RefElementMetaData", "Property"):
            return VTerm("ns", ["RefElementMetaData", "Property"])
        return prev_class_attr(it, cname, attr, st, fr) \
            if prev_class_attr else None
    uni.class_attr = class_attr

    def term_attr(it, obj, attr, st, fr):
        path = list(obj.args) + [attr]
        if path[:2] == ["RefElementMetaData", "Property"] and attr in RE:
            return VInt(z3.IntVal(RE.index(attr) + 1))
        return VTerm("ns", path)
    uni.term_attr = term_attr

    def sym(tag):
        return lambda it, s, a, k, st, fr: VRef(
            z3.Const("symbol_" + tag, Ref), "NamedSym")

    def field_hook(attr):
        def h(it, selfv, args, kw, st, fr):
            return it.getattr(VRef(selfv.e, "Obj"), attr, st, fr)
        return h

    def construct_hook(it, cname, args, kw, st, fr):
        if cname == "Signature":
            return VRef(z3.Const("a_signature", Ref), "Signature")
        return None
    uni.construct_hook = construct_hook
    uni.axioms.append(z3.Const("a_signature", Ref) != NULLC)
    for t in ("nfaces", "tag", "arr"):
        uni.axioms.append(z3.Const("symbol_" + t, Ref) != NULLC)
    uni.prop_hooks.update({
        "KernelOf.reference_element":
            lambda it, s, a, k, st, fr: VRef(s.e, "REOf"),
        "REOf.properties": field_hook("$re_props"),
        "KernelOf.name": lambda it, s, a, k, st, fr: VStr(fresh("kn", STR)),
        "NamedSym.name": lambda it, s, a, k, st, fr: VStr(
            fresh("symname", STR)),
    })
    uni.method_hooks.update({
        "KernelOf.is_coloured": lambda it, s, a, k, st, fr: VBool(
            fresh("coloured", BOOL)),
        "TableOf.find_or_create_integer_symbol": sym("nfaces"),
        "TableOf.find_or_create_tag": sym("tag"),
        "KernCallArgList.append_integer_reference": sym("nfaces"),
        "KernCallArgList.append_array_reference": sym("arr"),
        "KernCallArgList.cell_ref_name": lambda it, s, a, k, st, fr: VTuple(
            [VStr(fresh("cell", STR)), VStr(fresh("cell_ref", STR))]),
        "VariablesAccessInfo.add_access": lambda it, s, a, k, st, fr: NONE,
    })
    uni.consts.update({
        "REPROPS": VFunc("hook", fn=lambda it, a, k, st, fr: it.getattr(
            VRef(st.read("_kernel", a[0].e, "ref"), "Obj"), "$re_props", st,
            fr)),
        "PROPS": VFunc("hook", fn=lambda it, a, k, st, fr: it.getattr(
            VRef(a[0].e, "Obj"), "_properties", st, fr)),
    })
    uni.preds.update({
        "HORIZ": (["m"], "1 in REPROPS(m) or 4 in REPROPS(m)"),
    })
    c = Contract(
        f"{DYN}:LFRicMeshProperties.kern_args",
        params={"self": "LFRicMeshProperties", "stub": "bool",
                "var_accesses": "VariablesAccessInfo",
                "kern_call_arg_list": "KernCallArgList"},
        requires=[("kernel", "self._kernel is not None and "
                   "PROPS(self) is not None and REPROPS(self) is not None "
                   "and self._symbol_table is not None")],
        returns="list[str]",
        ensures=[
            ("nfaces_re_h_passed_only_if_rule_5_does_not_pass_it",
             "len(result) == len(PROPS(self)) * ite(HORIZ(self), 1, 2)"),
        ],
        raises={"InternalError": None},
        modifies=["$len", "$items.str", "$items.ref"],
        covers=[("two", "len(PROPS(self)) >= 2"),
                ("without", "len(PROPS(self)) >= 1 and not HORIZ(self)")])
    uni.contracts["LFRicMeshProperties.kern_args:top"] = c
    uni.loopspecs["LFRicMeshProperties.kern_args"] = {
        0: LoopSpec(invariants=[
            ("iter", "_iter is PROPS(self)"),
            ("count", "arg_list is not None and fresh(arg_list) and "
                      "len(arg_list) == _k * ite(HORIZ(self), 1, 2)"),
            ("frame", "forall(lambda x: implies(x is not arg_list and "
                      "not fresh(x), "
                      "select_list(x) == entry(select_list(x))), "
                      "'list[int]')")],
            modifies=["$len", "$items.str", "$items.ref"]),
    }
    uni.local_types["LFRicMeshProperties.kern_args"] = {
        "arg_list": "list[str]"}
    uni.note_assumption(
        "LFRicMeshProperties.kern_args: symbol creation and the PSyIR side "
        "(append_*_reference, cell_ref_name) return opaque named symbols; "
        "RefElementMetaData.Property members are the integers 1..6 in "
        "declaration order; rule 5 (DynReferenceElement passes nfaces_re_h "
        "exactly for the two horizontal-face properties) is taken from the "
        "user guide, DynReferenceElement itself is not under contract")
    return [c]


TRUSTED = [
    "pyvc VC generator and z3",
    "NOT under contract: every other hook of the ordering walker (fields, "
    "vectors, operators, stencils, basis / differential basis, mesh and "
    "reference-element properties, CMA, inter-grid), ArgOrdering.generate, "
    "declarations (type, kind, rank, intent) - only the bounded family "
    "exercises them",
]
EXPLANATION = (
    "Both quad_rule overrides extend the argument list by the kernel "
    "arguments of every quadrature rule in metadata order; the bounded part "
    "compares generated kernel call and generated stub position by position "
    "on 26 kernel metadata.")


def extra(uni, tier, seed):
    """BOUNDED stand-in, never counted as proved"""
    from pyvc.runner import Extra
    from realise import C21 as R
    out, n_ok, n_ref = [], 0, 0
    for cid, verdict, probs, meta in R.family(tier == "thorough"):
        if verdict == "ok":
            n_ok += 1
        elif verdict == "refused":
            n_ref += 1
        else:
            out.append(Extra(
                f"bounded#call-matches-stub[{cid}]", False,
                "; ".join(probs)[:400], bounded=True,
                kind="bounded run-time contract: generated kernel call vs "
                     "generated stub, position by position",
                replay={"confirmed": True, "input": {"metadata": meta},
                        "observed": probs[:6]}))
    out.append(Extra("bounded#call-matches-stub", n_ok >= 10,
                     f"{n_ok} kernel metadata agree ({n_ref} refused)",
                     kind="bounded run-time contract: 26 kernel metadata "
                          "(quick), 103 (thorough)",
                     count=n_ok, bounded=True, undecided=n_ok < 10))
    return out


def bounded(uni, tier, seed):
    from realise import C21 as R
    for cid, verdict, probs, meta in R.family():
        if verdict == "violated":
            return {"confirmed": True, "case": cid,
                    "input": {"metadata": meta}, "observed": probs[:6]}
    return {"confirmed": False}


def replay(name, ob, model, uni):
    return bounded(uni, "quick", 0)
