"""C04 — generated code declares every entity it uses, in a valid order.

Contract on the ordering loop of FortranWriter._gen_parameter_decls
(backend/fortran.py), verified on the mechanical statement range of the real
body that contains it (from `declared = set()` to the final return), for an
arbitrary list of local constants and an arbitrary dependency map:
  every constant that gets declared is declared exactly once and strictly
  after every constant named in its dependency set; on normal return the
  work list is empty; the loop terminates (variant: constants still to
  declare) and gives up with VisitorError only.  (That the emptied work list
  implies every original constant was declared needs a list-membership
  invariant that was not attempted; it is not claimed.)
Ghost clock: `Signature(name)` (the moment a name is entered into the
declared set) and `gen_vardecl(symbol)` are time-stamped events.
"""
import z3
from pyvc.interp import Contract, LoopSpec
from pyvc.values import (VRef, VFunc, VBool, VInt, VStr, NONE, Ref, STR)
from pyvc.state import fresh

ID = "C04"
LEVEL = "proof"
FW = "psyir/backend/fortran.py"
NULLC = z3.Const("null", Ref)
BOOL = z3.BoolSort()
INT = z3.IntSort()


def build(uni):
    uni.exact_fstrings = False
    uni.fields.update({"$name": "str"})
    uni.heap_extra = {"$clock": "int", "$sig_time": "int",
                      "$decl_time": "int"}
    WORLD = z3.Const("the_world", Ref)
    AL0 = z3.Const("H0_$alloc", z3.ArraySort(Ref, BOOL))
    SIG = z3.Function("signature_named", STR, Ref)
    INV = z3.Function("name_of_signature", Ref, STR)
    n1 = z3.Const("n1", STR)
    uni.axioms.append(z3.ForAll([n1], z3.And(
        SIG(n1) != NULLC, z3.Select(AL0, SIG(n1)), INV(SIG(n1)) == n1),
        patterns=[SIG(n1)]))
    uni.axioms.append(WORLD != NULLC)

    def tick(st):
        c = st.read("$clock", WORLD, "int") + 1
        st.write("$clock", WORLD, c, "int")
        return c

    def construct_hook(it, cname, args, kw, st, fr):
        if cname == "Signature":
            # Signature objects compare by value: one object per name
            s = SIG(it.to_z3(args[0]))
            st.assume(z3.And(s != NULLC, z3.Select(AL0, s)))
            st.write("$sig_time", s, tick(st), "int")
            return VRef(s, "Signature")
        return None
    uni.construct_hook = construct_hook

    def h_vardecl(it, selfv, args, kw, st, fr):
        # declared exactly once
        it.oblige(fr, st, "callpre", "gen_vardecl.not_declared_before",
                  st.read("$decl_time", args[0].e, "int") == 0)
        st.write("$decl_time", args[0].e, tick(st), "int")
        return VStr(fresh("decl_text", STR))

    def field_hook(attr):
        def h(it, selfv, args, kw, st, fr):
            return it.getattr(VRef(selfv.e, "Obj"), attr, st, fr)
        return h
    uni.method_hooks.update({
        "FortranWriter.gen_vardecl": h_vardecl,
        "Symbol.name": field_hook("$name"),
        "DataSymbol.name": field_hook("$name"),
    })
    uni.consts.update({
        "SIGOF": VFunc("hook", fn=lambda it, a, k, st, fr: VRef(
            SIG(st.read("$name", a[0].e, "str")), "Signature")),
        "SIGT": VFunc("hook", fn=lambda it, a, k, st, fr: VInt(st.read(
            "$sig_time", a[0].e, "int"))),
        "DECLT": VFunc("hook", fn=lambda it, a, k, st, fr: VInt(st.read(
            "$decl_time", a[0].e, "int"))),
        "clock": VFunc("hook", fn=lambda it, a, k, st, fr: VInt(st.read(
            "$clock", WORLD, "int"))),
    })
    uni.consts["getattr"] = VFunc("hook", fn=lambda it, a, k, st, fr: (
        it.from_field(it.concrete(a[1]), st.read(
            it.concrete(a[1]), a[0].e, uni.field_tag(it.concrete(a[1]))))))
    uni.consts["ALLOC0"] = VFunc("hook", fn=lambda it, a, k, st, fr: VBool(
        z3.Select(AL0, a[0].e)))
    uni.consts["NAMEOF"] = VFunc("hook", fn=lambda it, a, k, st, fr: VStr(
        st.read("$name", a[0].e, "str")))
    uni.preds.update({
        # the pending constants: all different, with different names, not
        # declared yet, each with a dependency set
        "PENDING": (["lc"], """
            lc is not None and decln_inputs is not None and len(lc) >= 0 and
            forall(lambda q: implies(0 <= q and q < len(lc),
                at(lc, q) is not None and
                NAMEOF(at(lc, q)) in decln_inputs and
                decln_inputs[NAMEOF(at(lc, q))] is not None and
                DECLT(at(lc, q)) == 0 and SIGT(SIGOF(at(lc, q))) == 0 and
                forall(lambda p: implies(0 <= p and p < q,
                    NAMEOF(at(lc, p)) != NAMEOF(at(lc, q)) and
                    at(lc, p) is not at(lc, q)))))
            """),
        # s has been declared, strictly after everything it depends on
        "ORDERED": (["s"], """
            SIGT(SIGOF(s)) > 0 and DECLT(s) == SIGT(SIGOF(s)) + 1 and
            NAMEOF(s) in decln_inputs and
            forall(lambda x: implies(
                x in decln_inputs[NAMEOF(s)],
                0 < SIGT(x) and SIGT(x) < SIGT(SIGOF(s))), 'Signature')
            """),
        "SAFE": ([], "forall(lambda s: implies(s is not None and "
                     "DECLT(s) > 0, ORDERED(s)), 'Symbol')"),
        "VIEW": (["d"], "d is not None and forall(lambda x: (x in d) == "
                        "(SIGT(x) > 0), 'Signature')"),
        "PAST": ([], "forall(lambda x: SIGT(x) <= clock() and SIGT(x) >= 0, "
                     "'Signature') and forall(lambda s: DECLT(s) <= clock() "
                     "and DECLT(s) >= 0, 'Symbol') and clock() >= 0"),
    })
    c = Contract(
        f"{FW}:FortranWriter._gen_parameter_decls",
        params={"self": "FortranWriter", "symbol_table": "Obj",
                "is_module_scope": "bool"},
        ghost={"local_constants": "list[Symbol]",
               "decln_inputs": "dict[str,set[Signature]]",
               "declarations": "str"},
        requires=[("start", "PENDING(local_constants) and clock() == 0 and "
                   "forall(lambda x: SIGT(x) == 0, 'Signature') and "
                   "forall(lambda s: DECLT(s) == 0, 'Symbol') and "
                   "forall(lambda n: implies(n in decln_inputs, "
                   "ALLOC0(decln_inputs[n])), 'str')")],
        ensures=[
            ("a_constant_is_declared_after_its_dependencies", "SAFE()"),
            ("nothing_left_to_declare", "len(local_constants) == 0"),
        ],
        raises={"VisitorError": None},
        modifies=list(uni.heap_extra) + ["$len", "$items.ref", "$set.ref",
                                         "$card"],
        covers=[("declares_some", "clock() >= 4")])
    c.stmt_range = ("declared = set()", "return declarations")
    c.range_frame = ()
    uni.contracts["FortranWriter._gen_parameter_decls:top"] = c
    DICT = ("unchanged_since_head('$dom.str', '$map.str.ref')")
    # loop specifications are keyed by the ordinal of the loop in the whole
    # function: the ordering loop is the (only) while loop, the scan over
    # the pending constants the for loop inside it
    import ast
    from pyvc.stmts import loop_ordinals
    fn, _ = uni.repo.function(c.func)
    ords = loop_ordinals(fn)
    whiles = [n for n in ast.walk(fn) if isinstance(n, ast.While)]
    W = ords[id(whiles[0])] if len(whiles) == 1 else 4
    uni.loopspecs["FortranWriter._gen_parameter_decls"] = {
        W: LoopSpec(invariants=[
            ("pending", "PENDING(local_constants)"),
            ("view", "VIEW(declared)"), ("past", "PAST()"),
            ("apart", "forall(lambda n: implies(n in decln_inputs, "
                      "decln_inputs[n] is not declared), 'str')"),
            ("safe", "SAFE()"),
            ("inputs", "forall(lambda o: implies(o is not declared, "
                       "select_set(o) == entry(select_set(o))), "
                       "'set[Signature]')"),
            ("dict", DICT)],
            modifies=list(uni.heap_extra) + ["$len", "$items.ref",
                                             "$set.ref", "$card"],
            decreases="len(local_constants)"),
        W + 1: LoopSpec(invariants=[
            ("copy", "len(_iter) == len(local_constants) and "
                     "_iter is not local_constants and "
                     "forall(lambda q: implies(0 <= q and q < len(_iter), "
                     "at(_iter, q) is at(local_constants, q)))"),
            ("pending", "PENDING(local_constants)"),
            ("view", "VIEW(declared)"), ("past", "PAST()"),
            ("apart", "forall(lambda n: implies(n in decln_inputs, "
                      "decln_inputs[n] is not declared), 'str')"),
            ("safe", "SAFE()"),
            ("quiet", "unchanged_since_head('$clock', '$sig_time', "
                      "'$decl_time', '$set.ref', '$card', '$len', "
                      "'$items.ref', '$dom.str', '$map.str.ref')")],
            modifies=[]),
    }
    uni.local_types["FortranWriter._gen_parameter_decls"] = {
        "declared": "set[Signature]"}
    uni.note_assumption(
        "ghost clock: Signature(name) (one object per name: signatures "
        "compare by value) and gen_vardecl(symbol) are time-stamped events; "
        "gen_vardecl returns an arbitrary string; the entry state of the "
        "statement range is an arbitrary list of distinct constants with "
        "distinct names and an arbitrary dependency map")
    return [c]


TRUSTED = [
    "pyvc VC generator and z3",
    "NOT under contract: the first half of _gen_parameter_decls (which "
    "symbols are local constants, how their dependency sets are collected "
    "from initial values, literal kinds, the datatype's kind and array "
    "bounds - only the bounded family of four dependency shapes exercises "
    "it), gen_decls (classification of symbols), gen_vardecl itself, "
    "'compiles with implicit none' end to end",
]
EXPLANATION = (
    "The ordering loop of _gen_parameter_decls declares every local "
    "constant exactly once and strictly after every constant in its "
    "dependency set, terminates, and otherwise refuses with VisitorError.")


def extra(uni, tier, seed):
    """BOUNDED stand-in (never counted as proved) for the dependency
    collection in the first half of _gen_parameter_decls: constants whose
    type uses another constant (kind parameter of a scalar / an array / a
    literal, array bound), held by the table in the opposite order"""
    from pyvc.runner import Extra
    from realise import C04 as R
    out, n_ok = [], 0
    for cid, ok, detail, src in R.kind_and_bound_cases():
        if ok:
            n_ok += 1
            continue
        out.append(Extra(
            f"bounded#parameter-order[{cid}]", False, detail[:300],
            bounded=True, kind="bounded run-time contract: order of the "
            "written parameter declarations",
            replay={"confirmed": True, "input": {"source": src},
                    "observed": detail}))
    out.append(Extra("bounded#parameter-order", True,
                     f"{n_ok} dependency shapes declared in a valid order",
                     kind="bounded run-time contract: 4 dependency shapes, "
                          "table in reverse order", count=n_ok, bounded=True))
    # BOUNDED: renaming a symbol that a code block refers to (every
    # capitalisation): refused, or the written routine compiles under
    # implicit none
    n_ok = 0
    for cid, ok, detail, src in R.rename_cases():
        if ok:
            n_ok += 1
            continue
        out.append(Extra(
            f"bounded#rename-with-code-block[{cid}]", False, detail[:300],
            bounded=True, kind="bounded run-time contract: written routine "
            "compiled with gfortran -fimplicit-none",
            replay={"confirmed": True, "input": {"source": src},
                    "observed": detail}))
    out.append(Extra("bounded#rename-with-code-block", True,
                     f"{n_ok} renamings refused or still compiling",
                     kind="bounded run-time contract: 9 capitalisation "
                          "combinations of declaration and code-block use",
                     count=n_ok, bounded=True))
    # chain: a renamed symbol stays declared under the name the code uses
    # only if SymbolTable.rename_symbol refuses names that code blocks use
    # and keeps the table's key/name invariant (contract of C16)
    from pyvc.chain import chain_extras
    from contracts import C16
    out += chain_extras(uni, C16, "SymbolTable.rename_symbol", C16.replay)
    return out


def replay(name, ob, model, uni):
    from realise import C04 as R
    return R.run(name)


def bounded(uni, tier, seed):
    from realise import C04 as R
    return R.run("")
