"""Realiser for C27: brute-force search over small dependency maps on the
real ModuleManager.sort_modules (used only to confirm counterexamples)."""
import itertools


def check_map(deps, ignore=()):
    """returns None if the property holds for this map, else text"""
    import copy
    from psyclone.parse import ModuleManager
    ModuleManager._instance = None
    mm = ModuleManager.get()
    for name in ignore:
        mm.add_ignore_module(name)
    before = copy.deepcopy(deps)
    import io
    import contextlib
    buf = io.StringIO()
    try:
        with contextlib.redirect_stdout(buf):
            res = mm.sort_modules(deps)
    except Exception as err:      # noqa
        return f"raised {type(err).__name__}: {err}"
    if deps != before:
        return f"input modified: {before} -> {deps}"
    if sorted(res) != sorted(deps.keys()):
        return f"result {res} is not a permutation of {sorted(deps)}"
    # acyclic (on known deps)?
    known = {m: {d for d in ds if d in deps} for m, ds in deps.items()}
    order, todo = [], dict(known)
    while todo:
        free = [m for m, ds in todo.items() if not (ds & set(todo))]
        if not free:
            return None        # cyclic: only completeness is required
        for m in free:
            del todo[m]
    pos = {m: i for i, m in enumerate(res)}
    for m, ds in known.items():
        for d in ds:
            if pos[d] > pos[m]:
                return f"{d} (needed by {m}) comes after it in {res}"
    return None


def search(max_modules=3):
    names = ["a", "b", "c", "d"][:max_modules]
    universe = names + ["zz_unknown"]
    for n in range(1, max_modules + 1):
        mods = names[:n]
        choices = []
        for m in mods:
            others = [x for x in universe[:n] + ["zz_unknown"] if x != m]
            subsets = []
            for r in range(len(others) + 1):
                subsets += [set(c) for c in itertools.combinations(others, r)]
            choices.append(subsets)
        for combo in itertools.product(*choices):
            deps = {m: set(ds) for m, ds in zip(mods, combo)}
            for ign in ([], ["zz_unknown"], [mods[-1]], [mods[0]]):
                bad = check_map({m: set(ds) for m, ds in deps.items()}, ign)
                if bad:
                    return {"confirmed": True,
                            "input": {"module_dependencies": {
                                m: sorted(ds) for m, ds in deps.items()},
                                "ignored_modules": ign},
                            "observed": bad}
    return {"confirmed": False}
