"""C11 — variable access information covers every actual read and write.

Contracts on the real bodies of the per-node collectors
  Call.reference_accesses           every by-reference argument gets an
                                    access record, every index expression of
                                    EVERY component is visited, expressions
                                    are visited
  IntrinsicCall.reference_accesses  every argument whose value is used is
                                    visited
  Assignment.reference_accesses     right-hand side first, target write last
over a ghost clock (visit / access / merge events), plus one obligation per
entry of the real intrinsic table: an intrinsic flagged 'inquiry' (first
argument not read) must be an inquiry function of Fortran 2008 s13.5.
"""
import z3
from pyvc.interp import Contract, LoopSpec
from pyvc.values import (VRef, VFunc, VBool, VInt, VStr, VTuple, NONE, Ref,
                         STR,
                         EnumDesc, VExc)
from pyvc.state import fresh, PyRaise

ID = "C11"
LEVEL = "proof"
CALL = "psyir/nodes/call.py"
ICALL = "psyir/nodes/intrinsic_call.py"
ASG = "psyir/nodes/assignment.py"
NULLC = z3.Const("null", Ref)
INT = z3.IntSort()

# Fortran 2008, 13.5 table 13.1, class I (inquiry functions) + the array
# inquiry functions of 13.7: their result does not depend on the VALUE of
# the (first) argument
F2008_INQUIRY = {
    "ALLOCATED", "ASSOCIATED", "BIT_SIZE", "DIGITS", "EPSILON",
    "EXTENDS_TYPE_OF", "HUGE", "IS_CONTIGUOUS", "KIND", "LBOUND", "LCOBOUND",
    "LEN", "MAXEXPONENT", "MINEXPONENT", "NEW_LINE", "PRECISION", "PRESENT",
    "RADIX", "RANGE", "RANK", "SAME_TYPE_AS", "SHAPE", "SIZE",
    "STORAGE_SIZE", "TINY", "UBOUND", "UCOBOUND", "COSHAPE", "IMAGE_INDEX",
}


def build(uni):
    info = uni.repo.cls("AccessType", "core/access_type.py")
    uni.enums["AccessType"] = EnumDesc("AccessType", list(info.consts))
    uni.fields.update({
        "_children": "list[Reference]", "$is_pure": "bool",
        "$is_inquiry": "bool",
        "$collect_shape_reads": "bool", "$name": "str",
    })
    uni.heap_extra = {"$clock": "int", "$visit_time": "int",
                      "$visit_into": "ref", "$access_time": "int",
                      "$access_type": "int", "$access_into": "ref",
                      "$merge_time": "int", "$merge_into": "ref",
                      "$written": "bool", "$options_src": "ref",
                      "$visited_by": "map[ref,set[ref]]",
                      "$accessed_by": "map[ref,set[ref]]"}
    WORLD = z3.Const("the_world", Ref)
    SIG = z3.Function("signature_of", Ref, Ref)
    IDX = z3.Function("index_lists_of", Ref, Ref)
    SVAI = z3.Function("var_info_of", Ref, Ref, Ref)
    AL0 = z3.Const("H0_$alloc", z3.ArraySort(Ref, z3.BoolSort()))
    x = z3.Const("ax", Ref)
    uni.axioms.append(z3.ForAll([x], z3.And(
        IDX(x) != NULLC, z3.Select(AL0, IDX(x))), patterns=[IDX(x)]))
    uni.axioms.append(WORLD != NULLC)
    y = z3.Const("ay", Ref)
    uni.axioms.append(z3.ForAll([x, y], z3.And(
        SVAI(x, y) != NULLC, z3.Select(AL0, SVAI(x, y))),
        patterns=[SVAI(x, y)]))
    uni.axioms.append(z3.ForAll([x], z3.And(
        SIG(x) != NULLC, z3.Select(AL0, SIG(x))), patterns=[SIG(x)]))

    def tick(st):
        c = st.read("$clock", WORLD, "int") + 1
        st.write("$clock", WORLD, c, "int")
        return c

    def h_visit(it, selfv, args, kw, st, fr):
        """child.reference_accesses(va): the child's own contract is the
        induction hypothesis; here only the event is recorded"""
        t = tick(st)
        st.write("$visit_time", selfv.e, t, "int")
        st.write("$visit_into", selfv.e, args[0].e, "ref")
        vb = st.read("$visited_by", WORLD, "map[ref,set[ref]]")
        st.write("$visited_by", WORLD, z3.Store(vb, selfv.e, z3.Store(
            z3.Select(vb, selfv.e), args[0].e, True)), "map[ref,set[ref]]")
        return NONE

    def h_add_access(it, selfv, args, kw, st, fr):
        t = tick(st)
        node = args[2]
        st.write("$access_time", node.e, t, "int")
        st.write("$access_type", node.e, args[1].e, "int")
        st.write("$access_into", node.e, selfv.e, "ref")
        ab = st.read("$accessed_by", WORLD, "map[ref,set[ref]]")
        st.write("$accessed_by", WORLD, z3.Store(ab, node.e, z3.Store(
            z3.Select(ab, node.e), selfv.e, True)), "map[ref,set[ref]]")
        return NONE

    def h_merge(it, selfv, args, kw, st, fr):
        t = tick(st)
        st.write("$merge_time", args[0].e, t, "int")
        st.write("$merge_into", args[0].e, selfv.e, "ref")
        return NONE

    def h_sig_idx(it, selfv, args, kw, st, fr):
        lists = VRef(IDX(selfv.e), "list", "list[Node]")
        st.assume(it.length(lists, st) >= 1)
        q = z3.Int("ilq")
        inner = z3.Select(it.list_items(lists, st), q)
        st.assume(z3.ForAll([q], z3.Implies(
            z3.And(0 <= q, q < it.length(lists, st)),
            z3.And(inner != NULLC, z3.Select(AL0, inner),
                   st.read("$len", inner, "int") >= 0))))
        return VTuple([VRef(SIG(selfv.e), "Signature"), lists])

    def h_arguments(it, selfv, args, kw, st, fr):
        ch = it.getattr(VRef(selfv.e, "Obj"), "_children", st, fr)
        return it.getslice(ch, VInt(1), None, st, fr)

    def field_hook(attr):
        def h(it, selfv, args, kw, st, fr):
            return it.getattr(VRef(selfv.e, "Obj"), attr, st, fr)
        return h

    OPTS = z3.Function("options_of", Ref, Ref)

    def construct_hook(it, cname, args, kw, st, fr):
        if cname == "VariablesAccessInfo":
            new = it.alloc(st, "VariablesAccessInfo", None, "accesses_left")
            src = kw.get("options")
            st.write("$options_src", new.e,
                     src.e if isinstance(src, VRef) else NULLC, "ref")
            return new
        return None
    uni.construct_hook = construct_hook

    def h_change(it, selfv, args, kw, st, fr):
        if it.dec.branch(st, fresh("raises_InternalError", z3.BoolSort())):
            raise PyRaise(VExc("InternalError"))
        st.write("$written", selfv.e, z3.BoolVal(True), "bool")
        return NONE
    uni.method_hooks.update({
        "Node.reference_accesses": h_visit,
        "VariablesAccessInfo.add_access": h_add_access,
        "VariablesAccessInfo.merge": h_merge,
        "VariablesAccessInfo.next_location":
            lambda it, s, a, k, st, fr: NONE,
        "VariablesAccessInfo.options": lambda it, s, a, k, st, fr: (
            it.getattr(VRef(s.e, "Obj"), "$collect_shape_reads", st, fr)
            if a else VRef(OPTS(s.e), "OptionsOf")),
        "VariablesAccessInfo.__getitem__": lambda it, s, a, k, st, fr: VRef(
            SVAI(s.e, a[0].e), "SingleVariableAccessInfo"),
        "SingleVariableAccessInfo.change_read_to_write": h_change,
        "Reference.get_signature_and_indices": h_sig_idx,
        "Call.arguments": h_arguments,
        "Call.is_pure": field_hook("$is_pure"),
        "IntrinsicCall.intrinsic":
            lambda it, s, a, k, st, fr: VRef(s.e, "IntrinsicOf"),
        "Assignment.lhs": lambda it, s, a, k, st, fr: it.getitem(
            it.getattr(VRef(s.e, "Obj"), "_children", st, fr), VInt(0), st,
            fr),
        "Assignment.rhs": lambda it, s, a, k, st, fr: it.getitem(
            it.getattr(VRef(s.e, "Obj"), "_children", st, fr), VInt(1), st,
            fr),
    })
    uni.prop_hooks["IntrinsicOf.is_inquiry"] = field_hook("$is_inquiry")
    uni.prop_hooks["Reference.name"] = field_hook("$name")
    for sub in uni.repo.subclasses("Node"):
        # every node class: child.reference_accesses is the recorded event
        uni.method_hooks.setdefault(f"{sub}.reference_accesses", h_visit)
    uni.note_assumption(
        "ghost event clock: child.reference_accesses(va) (induction "
        "hypothesis), va.add_access(sig, type, node) and va.merge(other) "
        "are recorded as time-stamped events; get_signature_and_indices "
        "returns a non-empty list of index lists that is a function of the "
        "reference; Call.is_pure / Intrinsic.is_inquiry are ghost booleans; "
        "change_read_to_write marks the variable written or raises")

    def g(field, tag):
        return VFunc("hook", fn=lambda it, a, k, st, fr: it.mkval(
            st.read(field, a[0].e, tag), tag if tag != "ref" else "Node"))
    def was(field):
        """event recorded during this call (set now, not set at entry)"""
        def h(it, a, k, st, fr):
            now = z3.Select(z3.Select(st.read(
                field, WORLD, "map[ref,set[ref]]"), a[0].e), a[1].e)
            return VBool(now)
        return VFunc("hook", fn=h)
    uni.consts["visited"] = was("$visited_by")
    uni.consts["vtime"] = g("$visit_time", "int")
    uni.consts["accessed"] = was("$accessed_by")
    uni.consts["atype"] = VFunc("hook", fn=lambda it, a, k, st, fr: VInt(
        st.read("$access_type", a[0].e, "int")))
    uni.consts["INDICES"] = VFunc("hook", fn=lambda it, a, k, st, fr: VRef(
        IDX(a[0].e), "list", "list[Node]"))
    uni.consts["enumidx"] = VFunc("hook", fn=lambda it, a, k, st, fr: VInt(
        a[0].e))
    uni.consts["getattr"] = VFunc("hook", fn=lambda it, a, k, st, fr: (
        it.from_field(it.concrete(a[1]), st.read(
            it.concrete(a[1]), a[0].e, uni.field_tag(it.concrete(a[1]))))))
    uni.preds.update({
        "CHWF": (["n"], "n._children is not None and "
                        "len(n._children) >= 1 and forall(lambda q: implies("
                        "0 <= q and q < len(n._children), "
                        "at(n._children, q) is not None and "
                        "forall(lambda p: implies(0 <= p and p < q, "
                        "at(n._children, p) is not at(n._children, q)))))"),
        "NOEVENTS": ([], "forall(lambda o, v: not visited(o, v) and "
                         "not accessed(o, v), 'Node')"),
        "ALLIDX": (["a", "va"], """
            forall(lambda c, i: implies(0 <= c and c < len(INDICES(a)) and
                0 <= i and i < len(at(INDICES(a), c)),
                visited(at(at(INDICES(a), c), i), va)))
            """),
    })
    cs = []
    # ---------------------------------------------------------------- Call
    c = Contract(
        f"{CALL}:Call.reference_accesses",
        params={"self": "Call", "var_accesses": "VariablesAccessInfo"},
        requires=[("tree", "CHWF(self) and var_accesses is not None"),
                  ("fresh_events", "NOEVENTS()"),
                  ("indices", "forall(lambda q, c, i: implies(1 <= q and "
                   "q < len(self._children) and 0 <= c and "
                   "c < len(INDICES(at(self._children, q))) and 0 <= i and "
                   "i < len(at(INDICES(at(self._children, q)), c)), "
                   "at(at(INDICES(at(self._children, q)), c), i) "
                   "is not None))")],
        ensures=[
            ("by_reference_arguments_recorded",
             "forall(lambda q: implies(1 <= q and q < len(self._children) "
             "and isinstance(at(self._children, q), Reference), "
             "accessed(at(self._children, q), var_accesses) and "
             "atype(at(self._children, q)) == ite(getattr(self, '$is_pure'), "
             "enumidx(AccessType.READ), enumidx(AccessType.READWRITE))))"),
            ("all_index_expressions_visited",
             "forall(lambda q: implies(1 <= q and q < len(self._children) "
             "and isinstance(at(self._children, q), Reference), "
             "ALLIDX(at(self._children, q), var_accesses)))"),
            ("expression_arguments_visited",
             "forall(lambda q: implies(1 <= q and q < len(self._children) "
             "and not isinstance(at(self._children, q), Reference), "
             "visited(at(self._children, q), var_accesses)))"),
        ],
        raises={}, modifies=list(uni.heap_extra) + ["$len", "$items.ref"],
        covers=[("some_args", "len(self._children) >= 3")])
    uni.contracts["Call.reference_accesses:top"] = c
    KEEP = ("forall(lambda o: implies(entry(vtime(o)) > old(clock()), "
            "vtime(o) == entry(vtime(o)) and visited(o, var_accesses) == "
            "entry(visited(o, var_accesses))), 'Node')")
    uni.consts["clock"] = VFunc("hook", fn=lambda it, a, k, st, fr: VInt(
        st.read("$clock", WORLD, "int")))
    MONO = ("mono", "forall(lambda o, v: implies(entry(visited(o, v)), "
                    "visited(o, v)) and implies(entry(accessed(o, v)), "
                    "accessed(o, v)), 'Node')")
    VISIT_ONLY = ["$clock", "$visit_time", "$visit_into", "$visited_by"]
    uni.loopspecs["Call.reference_accesses"] = {
        0: LoopSpec(invariants=[
            MONO,
            ("done", "forall(lambda q: implies(1 <= q and q < _k + 1, "
                     "ite(isinstance(at(self._children, q), Reference), "
                     "accessed(at(self._children, q), var_accesses) and "
                     "atype(at(self._children, q)) == "
                     "enumidx(default_access) and "
                     "ALLIDX(at(self._children, q), var_accesses), "
                     "visited(at(self._children, q), var_accesses))))"),
            ("iter", "len(_iter) == len(self._children) - 1 and "
                     "forall(lambda q: implies(0 <= q and q < len(_iter), "
                     "at(_iter, q) is at(self._children, q + 1)))")],
            modifies=list(uni.heap_extra)),
        1: LoopSpec(invariants=[
            MONO,
            ("done", "forall(lambda c, i: implies(0 <= c and c < _k and "
                     "0 <= i and i < len(at(_iter, c)), "
                     "visited(at(at(_iter, c), i), var_accesses)))"),
            ("iter", "_iter is INDICES(arg)")],
            modifies=VISIT_ONLY),
        2: LoopSpec(invariants=[
            MONO,
            ("done", "forall(lambda i: implies(0 <= i and i < _k, "
                     "visited(at(_iter, i), var_accesses)))")],
            modifies=VISIT_ONLY),
    }
    cs.append(c)
    # ---------------------------------------------------------- IntrinsicCall
    c = Contract(
        f"{ICALL}:IntrinsicCall.reference_accesses",
        params={"self": "IntrinsicCall",
                "var_accesses": "VariablesAccessInfo"},
        requires=[("tree", "CHWF(self) and var_accesses is not None"),
                  ("fresh_events", "NOEVENTS()")],
        ensures=[
            ("value_arguments_visited",
             "forall(lambda q: implies(ite(getattr(self, '$is_inquiry') and "
             "not getattr(var_accesses, '$collect_shape_reads'), 2, 1) <= q "
             "and q < len(self._children), "
             "visited(at(self._children, q), var_accesses)))"),
        ],
        raises={}, modifies=list(uni.heap_extra) + ["$len", "$items.ref"],
        covers=[("some_args", "len(self._children) >= 3")])
    uni.contracts["IntrinsicCall.reference_accesses:top"] = c
    uni.loopspecs["IntrinsicCall.reference_accesses"] = {
        o: LoopSpec(invariants=[
            MONO,
            ("done", f"forall(lambda q: implies({off} <= q and "
                     f"q < _k + {off}, "
                     "visited(at(self._children, q), var_accesses)))"),
            ("iterlen", f"len(_iter) == ite(len(self._children) >= {off}, "
                        f"len(self._children) - {off}, 0)"),
            ("iter", "forall(lambda q: implies(0 <= q and q < len(_iter), "
                     f"at(_iter, q) is at(self._children, q + {off})))")],
            modifies=list(uni.heap_extra)) for o, off in ((0, 2), (1, 1))}
    cs.append(c)
    # -------------------------------------------------------------- Assignment
    uni.consts["merged_after"] = VFunc(
        "hook", fn=lambda it, a, k, st, fr: VBool(z3.And(
            st.read("$merge_into", a[0].e, "ref") == a[1].e,
            st.read("$merge_time", a[0].e, "int") >
            st.read("$visit_time", a[2].e, "int"))))
    uni.consts["into"] = g("$visit_into", "ref")
    uni.consts["opts_src"] = g("$options_src", "ref")
    uni.consts["opts_of"] = VFunc("hook", fn=lambda it, a, k, st, fr: VRef(
        OPTS(a[0].e), "OptionsOf"))
    uni.axioms.append(z3.ForAll([x], OPTS(x) != NULLC, patterns=[OPTS(x)]))
    uni.consts["written"] = VFunc("hook", fn=lambda it, a, k, st, fr: VBool(
        st.read("$written", SVAI(a[0].e, SIG(a[1].e)), "bool")))
    c = Contract(
        f"{ASG}:Assignment.reference_accesses",
        params={"self": "Assignment", "var_accesses": "VariablesAccessInfo"},
        requires=[("tree", "CHWF(self) and len(self._children) == 2 and "
                           "var_accesses is not None"),
                  ("fresh_events", "NOEVENTS()")],
        ensures=[
            ("rhs_reads_collected",
             "visited(at(self._children, 1), var_accesses)"),
            ("target_collected_separately_and_marked_written",
             "fresh(into(at(self._children, 0))) and "
             "vtime(at(self._children, 0)) > old(clock()) and "
             "written(into(at(self._children, 0)), at(self._children, 0))"),
            ("target_collector_uses_the_callers_options",
             "opts_src(into(at(self._children, 0))) is "
             "opts_of(var_accesses)"),
            ("target_write_ordered_after_rhs_reads",
             "merged_after(into(at(self._children, 0)), var_accesses, "
             "at(self._children, 1))"),
        ],
        raises={"NotImplementedError": None},
        modifies=list(uni.heap_extra) + ["$len", "$items.ref"],
        covers=[("ok", "True")])
    uni.contracts["Assignment.reference_accesses:top"] = c
    cs.append(c)
    # -------------------------------------------------------------------- Loop
    LOOP = "psyir/nodes/loop.py"
    REF = "psyir/nodes/reference.py"
    BODYL = z3.Function("loop_body_of", Ref, Ref)
    BOUNDL = z3.Function("loop_bound_expr", Ref, INT, Ref)
    LVAR = z3.Function("loop_variable_of", Ref, Ref)      # may be null
    uni.fields.update({"_variable": "DataSymbol"})

    def lbound(k):
        def h(it, s, a, kw, st, fr):
            r = BOUNDL(s.e, z3.IntVal(k))
            st.assume(z3.And(r != NULLC, z3.Select(AL0, r)))
            return VRef(r, "Reference")
        return h

    def h_loop_body(it, s, a, kw, st, fr):
        r = BODYL(s.e)
        st.assume(z3.And(r != NULLC, z3.Select(AL0, r)))
        return VRef(r, "BodyOf")
    uni.method_hooks.update({
        "Loop.start_expr": lbound(0), "Loop.stop_expr": lbound(1),
        "Loop.step_expr": lbound(2), "Loop.loop_body": h_loop_body,
        "Loop.variable": lambda it, s, a, k, st, fr: it.getattr(
            VRef(s.e, "Obj"), "_variable", st, fr),
        "DataSymbol.name": lambda it, s, a, k, st, fr: VStr(
            fresh("varname", STR)),
        "Symbol.name": lambda it, s, a, k, st, fr: VStr(
            fresh("varname", STR)),
    })
    uni.prop_hooks["BodyOf.children"] = lambda it, s, a, k, st, fr: \
        it.getattr(VRef(s.e, "Obj"), "_children", st, fr)
    prev_construct = uni.construct_hook

    def construct2(it, cname, args, kw, st, fr):
        if cname == "Signature":
            return VRef(fresh("signature", Ref), "Signature")
        return prev_construct(it, cname, args, kw, st, fr)
    uni.construct_hook = construct2
    uni.consts.update({
        "LBOUND": VFunc("hook", fn=lambda it, a, k, st, fr: VRef(
            BOUNDL(a[0].e, it.as_int(a[1])), "Reference")),
        "LBODY": VFunc("hook", fn=lambda it, a, k, st, fr: it.getattr(
            VRef(BODYL(a[0].e), "Obj"), "_children", st, fr)),
    })
    c = Contract(
        f"{LOOP}:Loop.reference_accesses",
        params={"self": "Loop", "var_accesses": "VariablesAccessInfo"},
        requires=[("tree", "var_accesses is not None and "
                   "LBODY(self) is not None and forall(lambda q: implies("
                   "0 <= q and q < len(LBODY(self)), "
                   "at(LBODY(self), q) is not None))"),
                  ("fresh_events", "NOEVENTS()")],
        ensures=[
            ("loop_variable_and_bounds_collected",
             "implies(self._variable is not None, "
             "accessed(self, var_accesses) and "
             "visited(LBOUND(self, 0), var_accesses) and "
             "visited(LBOUND(self, 1), var_accesses) and "
             "visited(LBOUND(self, 2), var_accesses))"),
            ("every_statement_of_the_body_visited",
             "forall(lambda q: implies(0 <= q and q < len(LBODY(self)), "
             "visited(at(LBODY(self), q), var_accesses)))"),
        ],
        raises={}, modifies=list(uni.heap_extra) + ["$len", "$items.ref"],
        covers=[("with_variable", "self._variable is not None and "
                                  "len(LBODY(self)) >= 2")])
    uni.contracts["Loop.reference_accesses:top"] = c
    uni.loopspecs["Loop.reference_accesses"] = {
        0: LoopSpec(invariants=[
            MONO,
            ("iter", "_iter is LBODY(self)"),
            ("done", "forall(lambda q: implies(0 <= q and q < _k, "
                     "visited(at(LBODY(self), q), var_accesses)))")],
            modifies=list(uni.heap_extra))}
    cs.append(c)
    # --------------------------------------------------------------- Reference
    uni.fields.update({"_symbol": "SymbolOf"})
    uni.prop_hooks.update({
        "SymbolOf.is_import": lambda it, s, a, k, st, fr: VBool(
            fresh("is_import", z3.BoolSort())),
        "SymbolOf.interface": lambda it, s, a, k, st, fr: VRef(
            s.e, "IfaceOf"),
        "IfaceOf.orig_name": lambda it, s, a, k, st, fr: VStr(
            fresh("orig_name", STR)),
    })
    uni.method_hooks.update({
        "Reference.symbol": lambda it, s, a, k, st, fr: it.getattr(
            VRef(s.e, "Obj"), "_symbol", st, fr),
        "Signature.__getitem__": lambda it, s, a, k, st, fr: VRef(
            fresh("sig_tail", Ref), "Signature"),
    })
    c = Contract(
        f"{REF}:Reference.reference_accesses",
        params={"self": "Reference", "var_accesses": "VariablesAccessInfo"},
        requires=[("tree", "var_accesses is not None and "
                           "self._symbol is not None"),
                  ("fresh_events", "NOEVENTS()"),
                  ("indices", "forall(lambda c, i: implies(0 <= c and "
                   "c < len(INDICES(self)) and 0 <= i and "
                   "i < len(at(INDICES(self), c)), "
                   "at(at(INDICES(self), c), i) is not None))")],
        ensures=[
            ("read_access_recorded",
             "accessed(self, var_accesses) and "
             "atype(self) == enumidx(AccessType.READ)"),
            ("all_index_expressions_visited",
             "ALLIDX(self, var_accesses)"),
        ],
        raises={}, modifies=list(uni.heap_extra) + ["$len", "$items.ref"],
        covers=[("ok", "True")])
    uni.contracts["Reference.reference_accesses:top"] = c
    uni.loopspecs["Reference.reference_accesses"] = {
        0: LoopSpec(invariants=[
            MONO,
            ("done", "forall(lambda c, i: implies(0 <= c and c < _k and "
                     "0 <= i and i < len(at(_iter, c)), "
                     "visited(at(at(_iter, c), i), var_accesses)))"),
            ("iter", "_iter is INDICES(self)")],
            modifies=VISIT_ONLY),
        1: LoopSpec(invariants=[
            MONO,
            ("done", "forall(lambda i: implies(0 <= i and i < _k, "
                     "visited(at(_iter, i), var_accesses)))")],
            modifies=VISIT_ONLY),
    }
    cs.append(c)
    # ------------------------------------------- IfBlock, WhileLoop, Node
    PARTN = z3.Function("part_of_statement", Ref, INT, Ref)   # may be null

    def partn(k, nullable=False):
        def h(it, s, a, kw, st, fr):
            r = PARTN(s.e, z3.IntVal(k))
            if not nullable:
                st.assume(r != NULLC)
            st.assume(z3.Select(AL0, r))
            return VRef(r, "Reference")
        return h
    uni.method_hooks.update({
        "IfBlock.condition": partn(0), "IfBlock.if_body": partn(1),
        "IfBlock.else_body": partn(2, nullable=True),
        "WhileLoop.condition": partn(0), "WhileLoop.loop_body": partn(1),
    })
    uni.consts["PARTN"] = VFunc("hook", fn=lambda it, a, k, st, fr: VRef(
        PARTN(a[0].e, it.as_int(a[1])), "Reference"))
    for path, cls, parts, opt in (
            ("psyir/nodes/if_block.py", "IfBlock", (0, 1), 2),
            ("psyir/nodes/while_loop.py", "WhileLoop", (0, 1), None)):
        ens = " and ".join(f"visited(PARTN(self, {k}), var_accesses)"
                           for k in parts)
        if opt is not None:
            ens += (f" and implies(PARTN(self, {opt}) is not None, "
                    f"visited(PARTN(self, {opt}), var_accesses))")
        c = Contract(
            f"{path}:{cls}.reference_accesses",
            params={"self": cls, "var_accesses": "VariablesAccessInfo"},
            requires=[("tree", "var_accesses is not None"),
                      ("fresh_events", "NOEVENTS()")],
            ensures=[("condition_and_every_body_visited", ens)],
            raises={}, modifies=list(uni.heap_extra),
            covers=[("ok", "True")])
        uni.contracts[f"{cls}.reference_accesses:top"] = c
        cs.append(c)
    c = Contract(
        "psyir/nodes/node.py:Node.reference_accesses",
        params={"self": "Node", "var_accesses": "VariablesAccessInfo"},
        requires=[("tree", "var_accesses is not None and "
                   "self._children is not None and forall(lambda q: "
                   "implies(0 <= q and q < len(self._children), "
                   "at(self._children, q) is not None))"),
                  ("fresh_events", "NOEVENTS()")],
        ensures=[("every_child_visited",
                  "forall(lambda q: implies(0 <= q and "
                  "q < len(self._children), "
                  "visited(at(self._children, q), var_accesses)))")],
        raises={}, modifies=list(uni.heap_extra),
        covers=[("two", "len(self._children) >= 2")])
    uni.contracts["Node.reference_accesses:top"] = c
    uni.loopspecs["Node.reference_accesses"] = {
        0: LoopSpec(invariants=[
            MONO,
            ("iter", "_iter is self._children"),
            ("done", "forall(lambda q: implies(0 <= q and q < _k, "
                     "visited(at(self._children, q), var_accesses)))")],
            modifies=list(uni.heap_extra))}
    cs.append(c)
    return cs


def table_obligations():
    from psyclone.psyir.nodes import IntrinsicCall
    out = []
    for intr in IntrinsicCall.Intrinsic:
        name = intr.name
        if intr.is_inquiry:
            ok = name in F2008_INQUIRY
            out.append((f"intrinsic[{name}]#inquiry-flag", ok,
                        "" if ok else f"{name} is flagged is_inquiry (its "
                        "first argument is then not reported as read) but "
                        "it is not an inquiry function of Fortran 2008 "
                        "s13.5: its result depends on the argument's value"))
        else:
            out.append((f"intrinsic[{name}]#inquiry-flag", True, ""))
    return out


TRUSTED = [
    "pyvc VC generator and z3",
    "child.reference_accesses(va) as induction hypothesis (recorded event); "
    "the list of Fortran 2008 inquiry functions (hand-transcribed)",
    "NOT under contract: Reference / ArrayMixin / Loop / IfBlock collectors, "
    "VariablesAccessInfo.add_access / merge / SingleVariableAccessInfo "
    "internals, the per-intrinsic argument intents (which arguments an "
    "intrinsic subroutine writes), option forwarding to the left-hand-side "
    "collector (seeded change C12b)",
]
EXPLANATION = (
    "Call.reference_accesses records an access of the right type for every "
    "by-reference argument, visits every index expression of every "
    "component of such an argument and visits every expression argument; "
    "IntrinsicCall.reference_accesses visits every argument except the "
    "first of an inquiry intrinsic; Assignment.reference_accesses collects "
    "the right-hand side first and merges the target (marked written) "
    "afterwards; every intrinsic flagged as inquiry is an inquiry function "
    "of the standard.")


def extra(uni, tier, seed):
    from pyvc.runner import Extra
    res = table_obligations()
    bad = [r for r in res if not r[1]]
    out = [Extra("table#" + n, False, d, kind="intrinsic table entry vs "
                 "Fortran 2008 s13.5",
                 replay={"confirmed": True, "entry": n, "detail": d})
           for n, ok, d in bad]
    out.append(Extra("table#all-intrinsics", True,
                     f"{len(res) - len(bad)} of {len(res)} entries "
                     "consistent", kind="intrinsic table obligations",
                     count=len(res) - len(bad),
                     samples=[r[0] for r in res[:4]]))
    return out


def replay(name, ob, model, uni):
    from realise import C11 as R
    return R.run(name)
