"""Realiser for C14: turns an abstract counter-model (method, index, list
length) into real PSyIR trees and runs the *real* ChildrenList / Node method
under a run-time version of the same contract (well-formedness afterwards,
unchanged on exception).  Used only to confirm counterexamples."""
import itertools


def _nodes():
    from psyclone.psyir.nodes import (Loop, IfBlock, Assignment, Schedule,
                                      Call, BinaryOperation, Literal,
                                      Reference, Return, Routine,
                                      OMPParallelDirective, OMPPrivateClause,
                                      OMPDefaultClause)
    from psyclone.psyir.symbols import (DataSymbol, INTEGER_TYPE,
                                        RoutineSymbol, REAL_TYPE)
    return locals()


def catalogue():
    """name -> zero-argument builder of a fresh (parent, spare_nodes) pair"""
    n = _nodes()
    I = n["INTEGER_TYPE"]

    def lit(v="1"):
        return n["Literal"](v, I)

    def ref(name="a"):
        return n["Reference"](n["DataSymbol"](name, I))

    def assign(name="a"):
        return n["Assignment"].create(ref(name), lit())

    def loop():
        return n["Loop"].create(n["DataSymbol"]("i", I), lit("1"), lit("9"),
                                lit("1"), [assign()])

    def ifblock():
        return n["IfBlock"].create(
            n["BinaryOperation"].create(n["BinaryOperation"].Operator.GT,
                                        ref(), lit()), [assign()], [assign()])

    def schedule(k=3):
        s = n["Schedule"]()
        for _ in range(k):
            s.addchild(assign())
        return s

    def same_statements():
        s = n["Schedule"]()
        sym = n["DataSymbol"]("a", I)
        for _ in range(3):
            s.addchild(n["Assignment"].create(n["Reference"](sym), lit()))
        return s

    def call():
        return n["Call"].create(n["RoutineSymbol"]("sub"),
                                [ref("x"), ref("y"), lit("3")])

    def binop():
        return n["BinaryOperation"].create(
            n["BinaryOperation"].Operator.ADD, ref(), lit())

    def omp():
        d = n["OMPParallelDirective"].create(children=[assign()])
        return d

    return {"loop": loop, "ifblock": ifblock, "schedule": schedule,
            "same_statements": same_statements, "call": call,
            "binop": binop, "assignment": assign, "omp_parallel": omp,
            "empty_schedule": lambda: n["Schedule"]()}


def spare_nodes():
    n = _nodes()
    I = n["INTEGER_TYPE"]
    return {
        "literal": lambda: n["Literal"]("7", I),
        "reference": lambda: n["Reference"](n["DataSymbol"]("z", I)),
        "schedule": lambda: n["Schedule"](),
        "return": lambda: n["Return"](),
        "assignment": lambda: n["Assignment"].create(
            n["Reference"](n["DataSymbol"]("w", I)), n["Literal"]("2", I)),
        "private_clause": lambda: n["OMPPrivateClause"](),
        # a node that already has a parent elsewhere (not an orphan)
        "attached_assignment": lambda: _attached(n),
    }


def _attached(n):
    s = n["Schedule"]()
    a = n["Assignment"].create(
        n["Reference"](n["DataSymbol"]("q", n["INTEGER_TYPE"])),
        n["Literal"]("5", n["INTEGER_TYPE"]))
    s.addchild(a)
    return a


def all_nodes(roots):
    seen, out, todo = set(), [], list(roots)
    while todo:
        x = todo.pop()
        if id(x) in seen:
            continue
        seen.add(id(x))
        out.append(x)
        todo.extend(list.__iter__(x.children))
        if x.parent is not None:
            todo.append(x.parent)
    return out


def snapshot(roots):
    return sorted((id(x), id(x._parent) if x._parent is not None else 0,
                   x._has_constructor_parent,
                   tuple(id(c) for c in list.__iter__(x._children)))
                  for x in all_nodes(roots))


def wf_errors(roots):
    """run-time version of WF/OWN over everything reachable"""
    errs = []
    for x in all_nodes(roots):
        kids = list(list.__iter__(x._children))
        if len(set(map(id, kids))) != len(kids):
            errs.append(f"{type(x).__name__} lists a child twice")
        for i, c in enumerate(kids):
            if c._parent is not x:
                errs.append(f"child {i} ({type(c).__name__}) of "
                            f"{type(x).__name__} has parent "
                            f"{type(c._parent).__name__}")
            if not x._validate_child(i, c):
                errs.append(f"{type(c).__name__} is not valid at position "
                            f"{i} of {type(x).__name__}")
        p = x._parent
        if p is not None and not x._has_constructor_parent:
            cnt = sum(1 for c in list.__iter__(p._children) if c is x)
            if cnt != 1:
                errs.append(f"{type(x).__name__} names {type(p).__name__} "
                            f"as parent but is listed {cnt} times")
    return errs


def run_case(parent_name, op, index, spare_name):
    """returns None if the contract held, else a description."""
    cat, spares = catalogue(), spare_nodes()
    parent = cat[parent_name]()
    spare = spares[spare_name]() if spare_name else None
    roots = [parent] + ([spare] if spare is not None else [])
    if spare is not None and spare.parent is not None:
        roots.append(spare.parent)
    roots += list(list.__iter__(parent._children))
    before = snapshot(roots)
    ch = parent.children
    try:
        if op == "pop":
            ch.pop(index)
        elif op == "__delitem__":
            del ch[index]
        elif op == "insert":
            ch.insert(index, spare)
        elif op == "__setitem__":
            ch[index] = spare
        elif op == "append":
            ch.append(spare)
        elif op == "extend":
            ch.extend([spare, spare] if index % 2 else [spare])
        elif op == "__iadd__":
            ch += [spare]
        elif op == "__imul__":
            ch *= 2
        elif op == "remove":
            ch.remove(list.__getitem__(ch, index))
        elif op == "reverse":
            ch.reverse()
        elif op == "clear":
            ch.clear()
        elif op == "addchild":
            parent.addchild(spare, index)
        elif op == "setter":
            parent.children = [spare] if index % 2 else \
                [spare, spares["literal"]()]
        elif op == "detach":
            list.__getitem__(ch, index).detach()
        elif op == "replace_with":
            list.__getitem__(ch, index).replace_with(spare)
        elif op == "pop_all_children":
            parent.pop_all_children()
        else:
            return None
    except Exception as err:     # noqa
        after = snapshot(roots)
        if after != before:
            return (f"{parent_name}.children.{op}({index}, {spare_name}) "
                    f"raised {type(err).__name__} but the tree changed")
        return None
    errs = wf_errors(roots)
    if errs:
        return (f"{parent_name}.children.{op}({index}, {spare_name}) "
                f"was accepted and left: {errs[0]}")
    return None


def search(op, index_hint=None, length_hint=None):
    idxs = []
    if index_hint is not None:
        idxs += [index_hint, index_hint - 1, index_hint + 1]
    idxs += [-1, -2, -3, -4, 0, 1, 2, 3, 4, 5]
    seen = set()
    order = []
    for i in idxs:
        if i not in seen and -8 <= i <= 8:
            seen.add(i)
            order.append(i)
    needs_spare = op in ("insert", "__setitem__", "append", "extend",
                         "__iadd__", "addchild", "setter", "replace_with")
    spares = list(spare_nodes()) if needs_spare else [None]
    for parent_name, idx, sp in itertools.product(catalogue(), order, spares):
        if op in ("remove", "detach", "replace_with"):
            try:
                p = catalogue()[parent_name]()
                if not -len(p.children) <= idx < len(p.children):
                    continue
            except Exception:     # noqa
                continue
        try:
            bad = run_case(parent_name, op, idx, sp)
        except Exception as err:     # noqa
            bad = None
        if bad:
            return {"confirmed": True, "input": {
                "parent": parent_name, "op": op, "index": idx, "spare": sp},
                "observed": bad}
    return {"confirmed": False, "searched": len(order) * len(spares) *
            len(catalogue())}
