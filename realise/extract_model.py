"""Replay model for C12 (bounded part): the real CallTreeUtils reports the
inputs and outputs of a region; the region is then executed (evaluator of
realise/omp_model.py) once on the full state and once on a state in which
ONLY the reported inputs are defined - every reported output must come out
the same, and every variable the region modifies must be a reported
output."""

N = 6
HEAD = """subroutine s(a, b, c, d, n)
  integer, intent(in) :: n
  real, intent(inout) :: a(6), b(6), c(6), d(6)
  real :: t, u
  integer :: i
"""

REGIONS = {
    "write-then-read":
        "  do i = 1, 6\n    a(i) = c(i) * 2.0\n  end do\n"
        "  do i = 1, 6\n    b(i) = a(i) + d(i)\n  end do\n",
    "read-modify-write": "  do i = 1, 6\n    a(i) = a(i) + c(i)\n  end do\n",
    "scalar-in-and-out": "  u = t * 2.0\n  t = u + 1.0\n"
                         "  do i = 1, 6\n    a(i) = u\n  end do\n",
    "loop-bound-input": "  do i = 1, n\n    b(i) = c(i)\n  end do\n",
    "partial-first-write": "  a(1) = 0.0\n  do i = 1, 6\n    b(i) = a(i)\n"
                           "  end do\n",
    "conditional-first-write":
        "  if (c(1) > 5.0) then\n    t = 1.0\n  end if\n  b(1) = t\n",
    "conditional-array-write":
        "  do i = 1, 6\n    if (c(i) > 2.0) then\n      a(i) = d(i)\n"
        "    end if\n  end do\n  b(2) = a(2)\n",
}


def run_case(cid):
    """(verdict, detail, source): equal / differs"""
    from psyclone.psyir.frontend.fortran import FortranReader
    from psyclone.psyir.nodes import Routine
    from psyclone.psyir.tools import CallTreeUtils
    from realise import omp_model as M
    M.QUIET = True
    src = HEAD + REGIONS[cid] + "end subroutine s\n"
    rt = FortranReader().psyir_from_source(src).walk(Routine)[0]
    info = CallTreeUtils().get_in_out_parameters(rt.children)
    ins = {str(sig).lower() for sig in info.signatures_read}
    outs = {str(sig).lower() for sig in info.signatures_written}

    def full():
        vec = lambda f: M.array((N,), f)      # noqa: E731
        return dict(a=vec(lambda i: 10.0 + i), b=vec(lambda i: 20.0 + i),
                    c=vec(lambda i: float(i)), d=vec(lambda i: 0.5 * i),
                    n=N, t=-1.0, u=-2.0, i=0)
    before = full()
    want = M.run_serial(rt, full())
    start = {}
    for name, val in full().items():
        if name in ins:
            start[name] = val
        else:
            start[name] = {} if isinstance(val, dict) else M.UNDEF
    try:
        got = M.run_serial(rt, start)
    except RuntimeError as err:
        return "differs", (f"the region cannot be replayed from the "
                           f"reported inputs {sorted(ins)}: {err}"), src
    changed = {k for k in want if k != "i" and want[k] != before[k]}
    if not changed <= outs:
        return "differs", (f"{sorted(changed - outs)} are modified by the "
                           f"region but not reported as outputs "
                           f"{sorted(outs)}"), src
    for name in sorted(outs):
        g = got.get(name)
        w = want.get(name)
        if isinstance(w, dict):
            # elements the replay did not define keep the recorded value
            bad = [idx for idx in w if idx in g and g[idx] != w[idx]]
        else:
            bad = [] if g == w else [name]
        if bad:
            return "differs", (f"replaying from the reported inputs "
                               f"{sorted(ins)} gives a different '{name}' "
                               f"(outputs {sorted(outs)})"), src
    return "equal", f"inputs {sorted(ins)} outputs {sorted(outs)}", src


def cases():
    return [(cid,) + run_case(cid) for cid in REGIONS]
