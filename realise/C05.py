"""Realiser for C05: the real transformations on small loop nests; the
original and the transformed routine are both executed by the serial
evaluator of realise/omp_model.py and every variable is compared."""
import copy
import itertools

HEAD = """subroutine s(a, b, n)
  real, intent(inout) :: a(8,8), b(8)
  integer, intent(in) :: n
  integer :: i, j, k, t
"""


def _run(body, apply, n=8):
    """(refused | equal | differs, source)"""
    from realise import omp_model as M
    M.QUIET = True
    from psyclone.psyir.frontend.fortran import FortranReader
    from psyclone.psyir.nodes import Routine
    from psyclone.psyir.transformations import TransformationError
    src = HEAD + body + "end subroutine s\n"
    psy = FortranReader().psyir_from_source(src)
    rt = psy.walk(Routine)[0]
    mat = M.array((8, 8), lambda p, q: float(10 * q + p))
    vec = M.array((8,), lambda p: float(p))

    def inputs():
        return dict(a=dict(mat), b=dict(vec), n=n, i=0, j=0, k=-7, t=-9)
    before = M.run_serial(rt, inputs())
    try:
        apply(psy)
    except TransformationError:
        return "refused", src
    try:
        after = M.run_serial(psy.walk(Routine)[0], inputs())
    except (ValueError, RuntimeError, KeyError) as err:
        return f"differs: the transformed routine cannot be executed " \
            f"({err})", src
    loopvars = {"i", "j"}
    bad = [v for v in before if v not in loopvars and before[v] != after[v]]
    return ("differs: " + ",".join(sorted(bad)) if bad else "equal"), src


def swap_cases(offsets=((-1, 1), (1, -1), (-1, -1), (0, 1), (1, 0))):
    from psyclone.psyir.transformations import LoopSwapTrans
    from psyclone.psyir.nodes import Loop

    def sub(v, o):
        return v if o == 0 else f"{v}{'+' if o > 0 else '-'}{abs(o)}"
    for p, q in offsets:
        body = ("  do j = 2, 7\n    do i = 2, 7\n"
                f"      a(i,j) = a({sub('i', p)},{sub('j', q)}) + 1.0\n"
                "    end do\n  end do\n")
        res, src = _run(body, lambda psy: LoopSwapTrans().apply(
            psy.walk(Loop)[0]))
        if res.startswith("differs"):
            return {"confirmed": True, "input": {"source": src},
                    "observed": "LoopSwapTrans accepted the nest; executing "
                    "the original and the interchanged routine gives "
                    "different values (" + res + ")"}
    return {"confirmed": False}


def swap_bound_cases():
    """nests whose bounds use the other loop's variable must be refused"""
    from psyclone.psyir.transformations import LoopSwapTrans
    from psyclone.psyir.nodes import Loop
    bodies = []
    for which in ("start", "stop", "step"):
        inner = {"start": "do i = j, 7", "stop": "do i = 2, j",
                 "step": "do i = 1, 8, j"}[which]
        bodies.append(f"  do j = 2, 7\n    {inner}\n      a(i,j) = "
                      "a(i,j) + 1.0\n    end do\n  end do\n")
    for body in bodies:
        res, src = _run(body, lambda psy: LoopSwapTrans().apply(
            psy.walk(Loop)[0]))
        if res != "refused":
            return {"confirmed": True, "input": {"source": src},
                    "observed": "LoopSwapTrans accepted a nest whose inner "
                    "bounds depend on the outer variable (" + res + ")"}
    return {"confirmed": False}


def induction_cases():
    from psyclone.psyir.transformations import ReplaceInductionVariablesTrans
    from psyclone.psyir.nodes import Loop
    from psyclone.psyir.frontend.fortran import FortranReader
    from psyclone.psyir.backend.fortran import FortranWriter

    def apply(psy):
        ReplaceInductionVariablesTrans().apply(psy.walk(Loop)[0])
    bodies = [
        "  do i = 1, 8\n    k = i + 1\n    b(i) = k * 1.0\n  end do\n",
        # the candidate is assigned a second time / read before
        "  do i = 1, 8\n    k = i + 1\n    b(i) = k * 1.0\n    k = k + 1\n"
        "    a(i,1) = k * 1.0\n  end do\n",
        "  do i = 1, 8\n    b(i) = k * 1.0\n    k = i + 1\n  end do\n",
    ]
    for body in bodies:
        res, src = _run(body, apply)
        if res.startswith("differs"):
            return {"confirmed": True, "input": {"source": src},
                    "observed": "ReplaceInductionVariablesTrans changed the "
                    "values computed (" + res + ")"}
    # the candidate is passed to a call (READWRITE) between the assignment
    # and a use: the evaluator has no calls, the text is inspected
    src = HEAD + ("  do i = 1, 8\n    k = i + 1\n    call bump(k)\n"
                  "    b(i) = k * 1.0\n  end do\n") + "end subroutine s\n"
    psy = FortranReader().psyir_from_source(src)
    apply(psy)
    out = FortranWriter()(psy)
    if "b(i) = (i + 1) * 1.0" in out:
        return {"confirmed": True, "input": {"source": src},
                "observed": "the induction variable k is replaced in "
                "'b(i) = k * 1.0' although it is passed to a call (which "
                "may modify it) in between:\n" + out}
    return {"confirmed": False}


def run(name=""):
    if "LoopSwapTrans" in name:
        rp = swap_bound_cases()
        return rp if rp["confirmed"] else {"confirmed": False}
    if "_is_induction_variable" in name:
        return induction_cases()
    return {"confirmed": False}


def known(kid):
    if kid == "swap-no-dependence-check":
        return bool(swap_cases().get("confirmed"))
    want = {"induction-variable-zero-trip":
            "ReplaceInductionVariablesTrans.apply[n=0]",
            "hoist-zero-trip": "HoistTrans.apply[n=0]",
            "fuse-forward-dependence":
            "LoopFuseTrans.apply(forward-dependence)[n=8]"}.get(kid)
    return any(n == want and not ok for n, ok, _, _ in bounded_cases())


def bounded_cases(thorough=False):
    """bounded stand-in for the apply() bodies that are not under contract:
    original vs transformed routine under the serial evaluator for trip
    counts n in {0, 1, 3, 8}.  [(name, ok, detail, source)]"""
    from psyclone.psyir.transformations import (
        ReplaceInductionVariablesTrans, LoopSwapTrans, ChunkLoopTrans,
        HoistTrans, LoopFuseTrans, LoopTiling2DTrans,
        HoistLoopBoundExprTrans)
    from psyclone.psyir.nodes import Loop, Assignment
    fam = {
        "ReplaceInductionVariablesTrans.apply": (
            "  do i = 1, n\n    k = i + 1\n    b(i) = k * 1.0\n  end do\n",
            lambda psy: ReplaceInductionVariablesTrans().apply(
                psy.walk(Loop)[0])),
        "LoopSwapTrans.apply": (
            "  do j = 1, n\n    do i = 1, 8\n      a(i,j) = a(i,j) + i\n"
            "    end do\n  end do\n",
            lambda psy: LoopSwapTrans().apply(psy.walk(Loop)[0])),
        "ChunkLoopTrans.apply": (
            "  do i = 1, n\n    b(i) = b(i) + i\n  end do\n",
            lambda psy: ChunkLoopTrans().apply(psy.walk(Loop)[0],
                                               {"chunksize": 3})),
        "HoistTrans.apply": (
            "  do i = 1, n\n    t = 5\n    b(i) = b(i) + t\n  end do\n",
            lambda psy: HoistTrans().apply(psy.walk(Assignment)[0])),
        "LoopFuseTrans.apply(forward-dependence)": (
            "  do i = 1, 7\n    b(i) = b(i) + 1.0\n  end do\n"
            "  do i = 1, 7\n    a(i,1) = b(i + 1)\n  end do\n",
            lambda psy: LoopFuseTrans().apply(psy.walk(Loop)[0],
                                              psy.walk(Loop)[1])),
        "LoopFuseTrans.apply(same-index)": (
            "  do i = 1, n\n    b(i) = b(i) + 1.0\n  end do\n"
            "  do i = 1, n\n    a(i,1) = b(i)\n  end do\n",
            lambda psy: LoopFuseTrans().apply(psy.walk(Loop)[0],
                                              psy.walk(Loop)[1])),
    }
    if thorough:
        fam.update({
            "LoopFuseTrans.apply(backward-dependence)": (
                "  do i = 2, 8\n    b(i) = b(i) + 1.0\n  end do\n"
                "  do i = 2, 8\n    a(i,1) = b(i - 1)\n  end do\n",
                lambda psy: LoopFuseTrans().apply(psy.walk(Loop)[0],
                                                  psy.walk(Loop)[1])),
            "LoopFuseTrans.apply(scalar)": (
                "  do i = 1, 8\n    t = b(i)\n  end do\n"
                "  do i = 1, 8\n    a(i,1) = t\n  end do\n",
                lambda psy: LoopFuseTrans().apply(psy.walk(Loop)[0],
                                                  psy.walk(Loop)[1])),
            "ChunkLoopTrans.apply(negative-step)": (
                "  do i = n, 1, -1\n    b(i) = b(i) + i\n  end do\n",
                lambda psy: ChunkLoopTrans().apply(psy.walk(Loop)[0],
                                                   {"chunksize": 3})),
            "LoopTiling2DTrans.apply": (
                "  do j = 1, n\n    do i = 1, n\n      a(i,j) = a(i,j) + i "
                "- j\n    end do\n  end do\n",
                lambda psy: LoopTiling2DTrans().apply(psy.walk(Loop)[0],
                                                      {"tilesize": 3})),
            "HoistLoopBoundExprTrans.apply": (
                "  do i = 1, n - 1\n    b(i) = b(i) + 2.0\n  end do\n",
                lambda psy: HoistLoopBoundExprTrans().apply(
                    psy.walk(Loop)[0])),
        })
    out = []
    for name, (body, apply) in fam.items():
        # loops with literal bounds do not depend on n: one run
        for n in ((0, 1, 3, 8) if " n" in body or ",n" in body else (8,)):
            res, src = _run(body, apply, n=n)
            out.append((f"{name}[n={n}]", not res.startswith("differs"),
                        res, src))
    return out
