"""C10 — directive trees produced by accepted transformations are valid.

Contracts on the real bodies of the code-generation-time validators
(validate_global_constraints) of the OpenMP / OpenACC directive nodes:
returning normally implies the structural rule of the standard they guard
(OpenMP 5.0 s2.20 nesting, s2.9.2 collapse; OpenACC 3.0 s2.9 loop).
"""
import z3
from pyvc.interp import Contract, LoopSpec
from pyvc.values import (VRef, VFunc, VBool, VInt, VClass, VTuple, NONE, Ref,
                         VExc)
from pyvc.state import fresh, PyRaise, Unsupported

ID = "C10"
LEVEL = "proof"
OMP = "psyir/nodes/omp_directives.py"
ACC = "psyir/nodes/acc_directives.py"
NULLC = z3.Const("null", Ref)
INT = z3.IntSort()


def build(uni):
    uni.repo.prefer = [OMP, ACC, "psyir/nodes/directive.py"]
    uni.fields.update({
        "_children": "list[Loop]", "_parent": "Loop", "_collapse": "int",
    })
    keys = {}

    def clskey(v):
        names = tuple(sorted(x.name for x in v.items)) \
            if isinstance(v, VTuple) else (v.name,)
        return keys.setdefault(names, len(keys) + 1)
    ANCF = z3.Function("ancestor_of", Ref, INT, INT, Ref, Ref)
    WALKF = z3.Function("walk_of", Ref, INT, Ref)
    BODY = z3.Function("dir_body_of", Ref, Ref)
    LBODY = z3.Function("loop_body_of", Ref, Ref)
    ROOT = z3.Function("root_of", Ref, Ref)
    CUR = z3.Function("nest_cursor", Ref, INT, Ref)
    AL0 = z3.Const("H0_$alloc", z3.ArraySort(Ref, z3.BoolSort()))
    x = z3.Const("ax", Ref)
    k = z3.Int("ak")
    for f in (BODY, LBODY):
        uni.axioms.append(z3.ForAll([x], z3.And(
            f(x) != NULLC, z3.Select(AL0, f(x))), patterns=[f(x)]))
    uni.axioms.append(z3.ForAll([x, k], z3.Select(AL0, WALKF(x, k)),
                                patterns=[WALKF(x, k)]))

    def anc(it, node, cls, excl=None, limit=None):
        ck = clskey(cls)
        ek = clskey(excl) if excl is not None and not \
            isinstance(excl, type(NONE)) else 0
        lim = limit.e if isinstance(limit, VRef) else NULLC
        return ANCF(node, ck, ek, lim)

    def h_ancestor(it, selfv, args, kw, st, fr):
        excl = kw.get("excluding", args[1] if len(args) > 1 else None)
        limit = kw.get("limit")
        r = anc(it, selfv.e, args[0], excl, limit)
        cname = args[0].name if isinstance(args[0], VClass) else "Node"
        return VRef(r, cname)

    def h_walk(it, selfv, args, kw, st, fr):
        r = WALKF(selfv.e, clskey(args[0]))
        lst = VRef(r, "list", "Node")
        st.assume(z3.And(r != NULLC, it.length(lst, st) >= 0))
        return lst

    def children_of(it, ref, st, fr):
        lst = it.getattr(VRef(ref, "Obj"), "_children", st, fr)
        st.assume(z3.And(lst.e != NULLC, it.length(lst, st) >= 0))
        # well-formed tree (C14): children are nodes whose parent is the
        # owner of the list
        q = z3.Int("chq")
        items = it.list_items(lst, st)
        par = st.field("_parent", "ref")
        st.assume(z3.ForAll([q], z3.Implies(
            z3.And(0 <= q, q < it.length(lst, st)),
            z3.And(z3.Select(items, q) != NULLC,
                   z3.Select(par, z3.Select(items, q)) == ref)),
            patterns=[z3.Select(items, q)]))
        return lst

    def h_children(it, selfv, args, kw, st, fr):
        return children_of(it, selfv.e, st, fr)

    def h_dir_body(it, selfv, args, kw, st, fr):
        return VRef(BODY(selfv.e), "Schedule")

    def h_loop_body(it, selfv, args, kw, st, fr):
        return VRef(LBODY(selfv.e), "Schedule")

    def h_sched_getitem(it, selfv, args, kw, st, fr):
        return it.getitem(children_of(it, selfv.e, st, fr), args[0], st, fr)

    def h_parent(it, selfv, args, kw, st, fr):
        return it.getattr(VRef(selfv.e, "Obj"), "_parent", st, fr)
    uni.method_hooks.update({
        "Node.ancestor": h_ancestor, "Node.walk": h_walk,
        "Node.children": h_children, "Node.parent": h_parent,
        "RegionDirective.dir_body": h_dir_body,
        "Loop.loop_body": h_loop_body,
        "Schedule.__getitem__": h_sched_getitem,
        "Node.root": lambda it, s, a, kw, st, fr: VRef(ROOT(s.e), "Node"),
        "Node.validate_global_constraints":
            lambda it, s, a, kw, st, fr: NONE,
    })
    uni.note_assumption(
        "assumed models (engine hooks): Node.ancestor(classes, excluding, "
        "limit), Node.walk(classes), dir_body, loop_body, root are functions "
        "of their arguments; children/parent return the stored attributes; "
        "the base Node.validate_global_constraints does nothing")

    def cur_of(it, selfref, kk, st, fr):
        """CUR(self,k): k-th loop of the nest under the directive; its
        defining facts are instantiated at the index at hand"""
        def first(sched):
            lst = children_of(it, sched, st, fr)
            return z3.Select(it.list_items(lst, st), 0)
        st.assume(CUR(selfref, 0) == first(BODY(selfref)))
        st.assume(z3.Implies(kk >= 1, CUR(selfref, kk) ==
                             first(LBODY(CUR(selfref, kk - 1)))))
        return CUR(selfref, kk)
    uni.consts["CUR"] = VFunc("hook", fn=lambda it, a, kw, st, fr: VRef(
        cur_of(it, a[0].e, it.as_int(a[1]), st, fr), "Loop"))
    uni.consts["BODY"] = VFunc("hook", fn=lambda it, a, kw, st, fr: VRef(
        BODY(a[0].e), "Schedule"))

    def spec_anc(classes, excl=None, limit=None):
        def h(it, a, kw, st, fr):
            cls = VTuple([VClass(c) for c in classes]) if len(classes) > 1 \
                else VClass(classes[0])
            ex = VClass(excl) if excl else None
            lim = None
            if limit == "routine":
                lim = VRef(ANCF(a[0].e, clskey(VClass("Routine")), 0, NULLC),
                           "Routine")
            return VBool(anc(it, a[0].e, cls, ex, lim) != NULLC)
        return VFunc("hook", fn=h)
    uni.consts["in_any_parallel"] = spec_anc(["OMPParallelDirective"])
    uni.consts["in_parallel_region"] = spec_anc(
        ["OMPParallelDirective"], excl="OMPParallelDoDirective")
    uni.consts["in_serial"] = spec_anc(["OMPSerialDirective"])
    uni.consts["in_target_or_parallel"] = spec_anc(
        ["OMPTargetDirective", "OMPParallelDirective"])
    uni.consts["in_acc_compute"] = spec_anc(
        ["ACCParallelDirective", "ACCKernelsDirective"], limit="routine")
    uni.consts["routine_of"] = VFunc("hook", fn=lambda it, a, kw, st, fr: VRef(
        ANCF(a[0].e, clskey(VClass("Routine")), 0, NULLC), "Routine"))
    uni.consts["acc_routine_marks"] = VFunc(
        "hook", fn=lambda it, a, kw, st, fr: VRef(
            WALKF(a[0].e, clskey(VClass("ACCRoutineDirective"))), "list",
            "Node"))
    uni.consts["data_or_codeblocks"] = VFunc(
        "hook", fn=lambda it, a, kw, st, fr: VRef(
            WALKF(a[0].e, clskey(VTuple([VClass("PSyDataNode"),
                                         VClass("CodeBlock")]))), "list",
            "Node"))
    uni.preds.update({
        "SINGLE_LOOP": (["d"], "len(BODY(d)._children) == 1 and "
                               "isinstance(at(BODY(d)._children, 0), Loop)"),
        "NESTOK": (["c"], "c is not None and isinstance(c, Loop) and "
                          "c._parent is not None and "
                          "len(c._parent._children) == 1"),
        "PERFECT_NEST": (["d"], "forall(lambda j: implies(0 <= j and "
                                "j < d._collapse, NESTOK(CUR(d, j))))"),
        "LOOPS_NEST": (["d"], "forall(lambda j: implies(0 <= j and "
                              "j < d._collapse, CUR(d, j) is not None and "
                              "isinstance(CUR(d, j), Loop)))"),
        "TREEWF": ([], "forall(lambda n: implies(n is not None, "
                       "n._children is not None and len(n._children) >= 0 "
                       "and forall(lambda q: implies(0 <= q and "
                       "q < len(n._children), at(n._children, q) is not None "
                       "and at(n._children, q)._parent is n))), 'Node')"),
    })
    cs = []

    def add(path, cls, ensures, covers=(), loops=None, extra_raises=None):
        raises = {"GenerationError": None}
        raises.update(extra_raises or {})
        c = Contract(f"{path}:{cls}.validate_global_constraints",
                     params={"self": cls},
                     requires=[("collapse", "self._collapse >= 0 and "
                                            "self._children is not None")],
                     ensures=ensures, raises=raises, modifies=[],
                     covers=[("accepted", "True"),
                             ("refused", "raise:GenerationError")] +
                     list(covers))
        uni.contracts[f"{cls}.validate_global_constraints"] = c
        if loops:
            uni.loopspecs[f"{cls}.validate_global_constraints"] = loops
        cs.append(c)
        return c
    uni.consts["LBODY"] = VFunc("hook", fn=lambda it, a, kw, st, fr: VRef(
        LBODY(a[0].e), "Schedule"))
    NONEMPTY = ("nonempty", "forall(lambda j: implies(1 <= j and j <= _k, "
                            "len(LBODY(CUR(self, j - 1))._children) >= 1))")
    NEST_INV = LoopSpec(invariants=[
        NONEMPTY,
        ("cursor", "cursor is CUR(self, _k)"),
        ("checked", "forall(lambda j: implies(0 <= j and j < _k, "
                    "NESTOK(CUR(self, j))))")], modifies=[])
    add(OMP, "OMPParallelDirective",
        [("not_nested", "not in_any_parallel(self)")])
    add(OMP, "OMPDoDirective",
        [("inside_parallel", "in_parallel_region(self)"),
         ("single_loop", "SINGLE_LOOP(self)"),
         ("collapse_matches_perfect_nest", "PERFECT_NEST(self)")],
        covers=[("collapse", "self._collapse >= 2")])
    uni.loopspecs["OMPDoDirective._validate_collapse_value"] = {0: NEST_INV}
    add(OMP, "OMPParallelDoDirective",
        [("not_nested", "not in_any_parallel(self)"),
         ("single_loop", "SINGLE_LOOP(self)"),
         ("collapse_matches_perfect_nest", "PERFECT_NEST(self)")])
    add(OMP, "OMPSerialDirective",
        [("inside_parallel", "in_parallel_region(self)"),
         ("not_in_serial", "not in_serial(self)")])
    add(OMP, "OMPTaskloopDirective",
        [("inside_serial", "in_serial(self)")])
    add(OMP, "OMPLoopDirective",
        [("inside_target_or_parallel", "in_target_or_parallel(self)"),
         ("single_loop", "SINGLE_LOOP(self)"),
         ("collapse_loops", "LOOPS_NEST(self)"),
         ("collapse_matches_perfect_nest", "PERFECT_NEST(self)")],
        loops={0: LoopSpec(invariants=[
            NONEMPTY,
            ("cursor", "cursor is CUR(self, _k)"),
            ("checked", "forall(lambda j: implies(0 <= j and j < _k, "
                        "CUR(self, j) is not None and "
                        "isinstance(CUR(self, j), Loop)))")], modifies=[])})
    add(ACC, "ACCLoopDirective",
        [("in_compute_region_or_acc_routine",
          "in_acc_compute(self) or (routine_of(self) is not None and "
          "len(acc_routine_marks(routine_of(self))) > 0)"),
         ("no_psydata_or_codeblock", "len(data_or_codeblocks(self)) == 0")])
    return cs


TRUSTED = [
    "pyvc VC generator and z3",
    "tree queries (ancestor/walk/dir_body/loop_body/root) as uninterpreted "
    "functions of their arguments; OpenMP 5.0 / OpenACC 3.0 nesting rules "
    "as transcribed in the postconditions",
    "NOT under contract: the transformations' own validate methods "
    "(ParallelRegionTrans, ParallelLoopTrans collapse counting), nested "
    "'omp do' / nested 'acc parallel' (no validator looks for them), "
    "acceptance by a compiler",
]
EXPLANATION = (
    "Each validator returns normally only if its structural rule holds: "
    "parallel regions are not nested, do/single/master sit inside a "
    "parallel region (single/master not inside another serial region), "
    "taskloop inside a serial region, omp loop inside target or parallel, "
    "each applied to a single loop with collapse(n) over n perfectly "
    "nested loops, acc loop inside a compute region of its routine or in a "
    "routine that carries 'acc routine' and without PSyData/CodeBlock "
    "nodes.")


def replay(name, ob, model, uni):
    from realise import C10 as R
    return R.run(name)


def replay_known(k, uni):
    from realise import C10 as R
    return R.known(k.get("id"))
