"""C12 — extraction regions record every input and output they need.

Contracts on the real bodies of CallTreeUtils.get_input_parameters and
get_output_parameters (with SingleVariableAccessInfo.is_written_first /
is_written and VariablesAccessInfo.is_written inlined), stated over an
abstract access view: each access record has its real access type plus two
ghost attributes the property speaks about -- whether the access covers the
whole variable and whether it is executed unconditionally.
"""
import z3
from pyvc.interp import Contract, LoopSpec
from pyvc.values import VRef, VFunc, VBool, NONE, Ref, EnumDesc

ID = "C12"
LEVEL = "proof"
CT = "psyir/tools/call_tree_utils.py"
NULLC = z3.Const("null", Ref)


def build(uni):
    info = uni.repo.cls("AccessType", "core/access_type.py")
    uni.enums["AccessType"] = EnumDesc("AccessType", list(info.consts))
    uni.fields.update({
        "_accesses": "list[AccessInfo]", "_access_type": "enum:AccessType",
        # ghost attributes of an access record (not stored by the code)
        "$full": "bool", "$uncond": "bool",
    })
    uni.heap_extra = {"$readset": "set[ref]", "$writeset": "set[ref]"}
    SIGS = z3.Function("all_signatures_of", Ref, Ref)
    SVAI = z3.Function("var_info_of", Ref, Ref, Ref)
    AL0 = z3.Const("H0_$alloc", z3.ArraySort(Ref, z3.BoolSort()))

    def h_sigs(it, selfv, args, kw, st, fr):
        st.assume(z3.Select(AL0, SIGS(selfv.e)))
        return VRef(SIGS(selfv.e), "list", "Signature")

    def h_getitem(it, selfv, args, kw, st, fr):
        return VRef(SVAI(selfv.e, args[0].e), "SingleVariableAccessInfo")

    def h_access_type(it, selfv, args, kw, st, fr):
        return it.getattr(VRef(selfv.e, "AccessObj"), "_access_type", st, fr)

    def adder(field):
        def h(it, selfv, args, kw, st, fr):
            cur = st.read(field, selfv.e, "set[ref]")
            st.write(field, selfv.e, z3.Store(cur, args[0].e, True),
                     "set[ref]")
            return NONE
        return h
    uni.method_hooks.update({
        "VariablesAccessInfo.all_signatures": h_sigs,
        "VariablesAccessInfo.__getitem__": h_getitem,
        "AccessInfo.access_type": h_access_type,
        "ReadWriteInfo.add_read": adder("$readset"),
        "ReadWriteInfo.add_write": adder("$writeset"),
    })
    uni.note_assumption(
        "assumed models (engine hooks): VariablesAccessInfo.all_signatures "
        "is a list that is a function of the object, variables_info[sig] a "
        "function of (object, signature); ReadWriteInfo.add_read/add_write "
        "insert the signature into the ghost read/write sets (container "
        "names and ordering dropped); AccessInfo.access_type returns the "
        "stored attribute")
    uni.note_assumption(
        "link assumed from C11: the access records are what "
        "reference_accesses returns for the region; the ghost attributes "
        "'covers the whole variable' and 'unconditional' are arbitrary")
    uni.consts["SIGS"] = VFunc("hook", fn=lambda it, a, k, st, fr: (
        st.assume(z3.Select(AL0, SIGS(a[0].e))),
        VRef(SIGS(a[0].e), "list", "Signature"))[1])
    uni.consts["ACC"] = VFunc("hook", fn=lambda it, a, k, st, fr: it.getattr(
        VRef(SVAI(a[0].e, a[1].e), "SVAIObj"), "_accesses", st, fr))
    uni.consts["inreads"] = VFunc("hook", fn=lambda it, a, k, st, fr: VBool(
        z3.Select(st.read("$readset", a[0].e, "set[ref]"), a[1].e)))
    uni.consts["inwrites"] = VFunc("hook", fn=lambda it, a, k, st, fr: VBool(
        z3.Select(st.read("$writeset", a[0].e, "set[ref]"), a[1].e)))
    uni.preds.update({
        # definitions from the property text / Fortran semantics
        "READS": (["a"], "a._access_type == AccessType.READ or "
                         "a._access_type == AccessType.READWRITE or "
                         "a._access_type == AccessType.INC or "
                         "a._access_type == AccessType.READINC or "
                         "a._access_type == AccessType.SUM"),
        "WRITES": (["a"], "a._access_type == AccessType.WRITE or "
                          "a._access_type == AccessType.READWRITE or "
                          "a._access_type == AccessType.INC or "
                          "a._access_type == AccessType.READINC or "
                          "a._access_type == AccessType.SUM"),
        "KILLS": (["a"], "a._access_type == AccessType.WRITE and "
                         "getattr(a, '$full') and getattr(a, '$uncond')"),
        # the incoming value of the variable can be read in the region
        "EXPOSED": (["vi", "s"], """
            exists(lambda i: 0 <= i and i < len(ACC(vi, s)) and
                READS(at(ACC(vi, s), i)) and
                forall(lambda j: implies(0 <= j and j < i,
                                         not KILLS(at(ACC(vi, s), j)))))
            """),
        "MODIFIED": (["vi", "s"], "exists(lambda i: 0 <= i and "
                                  "i < len(ACC(vi, s)) and "
                                  "WRITES(at(ACC(vi, s), i)))"),
        # recorded known finding: first access is a partial or conditional
        # write (the code takes any first WRITE as killing the input)
        "KFCLASS": (["vi", "s"], "len(ACC(vi, s)) > 0 and "
                    "at(ACC(vi, s), 0)._access_type == AccessType.WRITE and "
                    "not KILLS(at(ACC(vi, s), 0))"),
        "VWF": (["vi"], """
            vi is not None and SIGS(vi) is not None and len(SIGS(vi)) >= 0
            and forall(lambda p: implies(0 <= p and p < len(SIGS(vi)),
                at(SIGS(vi), p) is not None and
                var_info(vi, at(SIGS(vi), p)) is not None and
                ACC(vi, at(SIGS(vi), p)) is not None and
                len(ACC(vi, at(SIGS(vi), p))) >= 0 and
                forall(lambda q: implies(0 <= q and
                    q < len(ACC(vi, at(SIGS(vi), p))),
                    at(ACC(vi, at(SIGS(vi), p)), q) is not None))))
            """),
    })
    uni.consts["var_info"] = VFunc("hook", fn=lambda it, a, k, st, fr: VRef(
        SVAI(a[0].e, a[1].e), "SingleVariableAccessInfo"))
    uni.consts["getattr"] = VFunc("hook", fn=lambda it, a, k, st, fr: (
        it.from_field(it.concrete(a[1]), st.read(
            it.concrete(a[1]), a[0].e, uni.field_tag(it.concrete(a[1]))))))
    cs = []
    common = dict(
        params={"self": "CallTreeUtils", "read_write_info": "ReadWriteInfo",
                "node_list": "none",
                "variables_info": "VariablesAccessInfo", "options": "none"},
        requires=[("wf", "VWF(variables_info) and "
                         "read_write_info is not None")])
    c = Contract(
        f"{CT}:CallTreeUtils.get_input_parameters", **common,
        ensures=[
            ("inputs_complete_outside_known_class",
             "forall(lambda p: implies(0 <= p and "
             "p < len(SIGS(variables_info)) and "
             "EXPOSED(variables_info, at(SIGS(variables_info), p)) and "
             "not KFCLASS(variables_info, at(SIGS(variables_info), p)), "
             "inreads(read_write_info, at(SIGS(variables_info), p))))"),
            ("inputs_complete",
             "forall(lambda p: implies(0 <= p and "
             "p < len(SIGS(variables_info)) and "
             "EXPOSED(variables_info, at(SIGS(variables_info), p)), "
             "inreads(read_write_info, at(SIGS(variables_info), p))))"),
            ("monotone", "forall(lambda x: implies(old(inreads("
                         "read_write_info, x)), inreads(read_write_info, x)),"
                         " 'ref')"),
            ("outputs_untouched", "unchanged('$writeset')"),
        ],
        raises={}, modifies=["$readset"],
        covers=[("adds", "exists(lambda p: 0 <= p and "
                         "p < len(SIGS(variables_info)) and "
                         "inreads(read_write_info, "
                         "at(SIGS(variables_info), p)) and not old(inreads("
                         "read_write_info, at(SIGS(variables_info), p))))"),
                ("skips", "exists(lambda p: 0 <= p and "
                          "p < len(SIGS(variables_info)) and "
                          "not inreads(read_write_info, "
                          "at(SIGS(variables_info), p)))")])
    uni.contracts["CallTreeUtils.get_input_parameters"] = c
    uni.loopspecs["CallTreeUtils.get_input_parameters"] = {0: LoopSpec(
        invariants=[
            ("done", "forall(lambda p: implies(0 <= p and p < _k and "
                     "EXPOSED(variables_info, at(_iter, p)) and "
                     "not KFCLASS(variables_info, at(_iter, p)), "
                     "inreads(read_write_info, at(_iter, p))))"),
            ("done_strict", "forall(lambda p: implies(0 <= p and p < _k and "
                            "EXPOSED(variables_info, at(_iter, p)), "
                            "inreads(read_write_info, at(_iter, p))))"),
            ("monotone", "forall(lambda x: implies(old(inreads("
                         "read_write_info, x)), inreads(read_write_info, x)),"
                         " 'ref')"),
            ("iter", "_iter is SIGS(variables_info)"),
            ("writes", "unchanged('$writeset')")],
        modifies=["$readset"])}
    cs.append(c)

    c = Contract(
        f"{CT}:CallTreeUtils.get_output_parameters", **common,
        ensures=[
            ("outputs_complete",
             "forall(lambda p: implies(0 <= p and "
             "p < len(SIGS(variables_info)) and "
             "MODIFIED(variables_info, at(SIGS(variables_info), p)), "
             "inwrites(read_write_info, at(SIGS(variables_info), p))))"),
            ("monotone", "forall(lambda x: implies(old(inwrites("
                         "read_write_info, x)), inwrites(read_write_info, x))"
                         ", 'ref')"),
            ("inputs_untouched", "unchanged('$readset')"),
        ],
        raises={}, modifies=["$writeset"],
        covers=[("adds", "exists(lambda p: 0 <= p and "
                         "p < len(SIGS(variables_info)) and "
                         "inwrites(read_write_info, "
                         "at(SIGS(variables_info), p)) and not old(inwrites("
                         "read_write_info, at(SIGS(variables_info), p))))")])
    uni.contracts["CallTreeUtils.get_output_parameters"] = c
    uni.loopspecs["CallTreeUtils.get_output_parameters"] = {0: LoopSpec(
        invariants=[
            ("done", "forall(lambda p: implies(0 <= p and p < _k and "
                     "MODIFIED(variables_info, at(_iter, p)), "
                     "inwrites(read_write_info, at(_iter, p))))"),
            ("monotone", "forall(lambda x: implies(old(inwrites("
                         "read_write_info, x)), inwrites(read_write_info, x))"
                         ", 'ref')"),
            ("iter", "_iter is SIGS(variables_info)"),
            ("reads", "unchanged('$readset')")],
        modifies=["$writeset"])}
    cs.append(c)
    return cs


TRUSTED = [
    "pyvc VC generator and z3",
    "the abstract access view (C11 link assumed); accessor hooks",
    "NOT under contract: CallTreeUtils._resolve_calls_and_unknowns / "
    "get_non_local_read_write_info (call-tree following for non-local "
    "symbols), ExtractNode / ExtractTrans plumbing",
]
EXPLANATION = (
    "For every list of signatures and every access sequence per signature "
    "(any access types, any whole/partial and conditional/unconditional "
    "ghost attributes): get_input_parameters records every variable whose "
    "incoming value can be read (a read not preceded by an unconditional "
    "whole-variable write) -- outside the recorded known class 'first "
    "access is a partial or conditional write' -- and get_output_parameters "
    "records every variable with a writing access; neither removes entries "
    "nor touches the other list.")


def replay(name, ob, model, uni):
    from realise import C12 as R
    # inputs of the recorded known class only count for its own obligation
    if name.endswith("done_strict") or name.endswith(":inputs_complete"):
        return R.run()
    return R.run("other")


def replay_known(k, uni):
    from realise import C12 as R
    kid = k.get("id", "")
    if kid == "partial-first-write":
        return R.partial_first_write()
    if kid.startswith("replay-"):
        from realise import extract_model as E
        return E.run_case(kid[len("replay-"):])[0] == "differs"
    return None


def extra(uni, tier, seed):
    """BOUNDED stand-in (never counted as proved): for seven regions the
    real CallTreeUtils reports inputs and outputs; the region is executed
    on the full state and on a state in which only the reported inputs are
    defined (realise/extract_model.py): every reported output must agree
    and every modified variable must be a reported output"""
    from pyvc.runner import Extra
    from realise import extract_model as E
    out, n_ok = [], 0
    for cid, verdict, detail, src in E.cases():
        if verdict == "differs":
            out.append(Extra(
                f"bounded#replay-from-inputs[{cid}]", False, detail[:300],
                bounded=True, kind="bounded run-time contract: region "
                "replayed from the reported inputs",
                replay={"confirmed": True, "case": cid,
                        "input": {"source": src}, "observed": detail}))
        else:
            n_ok += 1
    out.append(Extra("bounded#replay-from-inputs", True,
                     f"{n_ok} regions reproduce their outputs from the "
                     "reported inputs", kind="bounded run-time contract: 7 "
                     "regions on the serial evaluator", count=n_ok,
                     bounded=True))
    return out
