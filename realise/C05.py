"""Realiser for C05: the real transformations on small loop nests; the
original and the transformed routine are both executed by the serial
evaluator of realise/omp_model.py and every variable is compared."""
import copy
import itertools

HEAD = """subroutine s(a, b, n)
  real, intent(inout) :: a(8,8), b(8)
  integer, intent(in) :: n
  integer :: i, j, k, t
"""


def _run(body, apply, n=8):
    """(refused | equal | differs, source)"""
    from realise import omp_model as M
    M.QUIET = True
    from psyclone.psyir.frontend.fortran import FortranReader
    from psyclone.psyir.nodes import Routine
    from psyclone.psyir.transformations import TransformationError
    src = HEAD + body + "end subroutine s\n"
    psy = FortranReader().psyir_from_source(src)
    rt = psy.walk(Routine)[0]
    mat = M.array((8, 8), lambda p, q: float(10 * q + p))
    vec = M.array((8,), lambda p: float(p))

    def inputs():
        return dict(a=dict(mat), b=dict(vec), n=n, i=0, j=0, k=-7, t=-9)
    before = M.run_serial(rt, inputs())
    try:
        apply(psy)
    except TransformationError:
        return "refused", src
    try:
        after = M.run_serial(psy.walk(Routine)[0], inputs())
    except (ValueError, RuntimeError, KeyError) as err:
        return f"differs: the transformed routine cannot be executed " \
            f"({err})", src
    loopvars = {"i", "j"}
    bad = [v for v in before if v not in loopvars and before[v] != after[v]]
    return ("differs: " + ",".join(sorted(bad)) if bad else "equal"), src


def swap_cases(offsets=((-1, 1), (1, -1), (-1, -1), (0, 1), (1, 0))):
    from psyclone.psyir.transformations import LoopSwapTrans
    from psyclone.psyir.nodes import Loop

    def sub(v, o):
        return v if o == 0 else f"{v}{'+' if o > 0 else '-'}{abs(o)}"
    for p, q in offsets:
        body = ("  do j = 2, 7\n    do i = 2, 7\n"
                f"      a(i,j) = a({sub('i', p)},{sub('j', q)}) + 1.0\n"
                "    end do\n  end do\n")
        res, src = _run(body, lambda psy: LoopSwapTrans().apply(
            psy.walk(Loop)[0]))
        if res.startswith("differs"):
            return {"confirmed": True, "input": {"source": src},
                    "observed": "LoopSwapTrans accepted the nest; executing "
                    "the original and the interchanged routine gives "
                    "different values (" + res + ")"}
    return {"confirmed": False}


def swap_bound_cases():
    """nests whose bounds use the other loop's variable must be refused"""
    from psyclone.psyir.transformations import LoopSwapTrans
    from psyclone.psyir.nodes import Loop
    bodies = []
    for which in ("start", "stop", "step"):
        inner = {"start": "do i = j, 7", "stop": "do i = 2, j",
                 "step": "do i = 1, 8, j"}[which]
        bodies.append(f"  do j = 2, 7\n    {inner}\n      a(i,j) = "
                      "a(i,j) + 1.0\n    end do\n  end do\n")
    for body in bodies:
        res, src = _run(body, lambda psy: LoopSwapTrans().apply(
            psy.walk(Loop)[0]))
        if res != "refused":
            return {"confirmed": True, "input": {"source": src},
                    "observed": "LoopSwapTrans accepted a nest whose inner "
                    "bounds depend on the outer variable (" + res + ")"}
    return {"confirmed": False}


def induction_cases():
    from psyclone.psyir.transformations import ReplaceInductionVariablesTrans
    from psyclone.psyir.nodes import Loop
    from psyclone.psyir.frontend.fortran import FortranReader
    from psyclone.psyir.backend.fortran import FortranWriter

    def apply(psy):
        ReplaceInductionVariablesTrans().apply(psy.walk(Loop)[0])
    bodies = [
        "  do i = 1, 8\n    k = i + 1\n    b(i) = k * 1.0\n  end do\n",
        # the candidate is assigned a second time / read before
        "  do i = 1, 8\n    k = i + 1\n    b(i) = k * 1.0\n    k = k + 1\n"
        "    a(i,1) = k * 1.0\n  end do\n",
        "  do i = 1, 8\n    b(i) = k * 1.0\n    k = i + 1\n  end do\n",
    ]
    for body in bodies:
        res, src = _run(body, apply)
        if res.startswith("differs"):
            return {"confirmed": True, "input": {"source": src},
                    "observed": "ReplaceInductionVariablesTrans changed the "
                    "values computed (" + res + ")"}
    # the candidate is passed to a call (READWRITE) between the assignment
    # and a use: the evaluator has no calls, the text is inspected
    src = HEAD + ("  do i = 1, 8\n    k = i + 1\n    call bump(k)\n"
                  "    b(i) = k * 1.0\n  end do\n") + "end subroutine s\n"
    psy = FortranReader().psyir_from_source(src)
    apply(psy)
    out = FortranWriter()(psy)
    if "b(i) = (i + 1) * 1.0" in out:
        return {"confirmed": True, "input": {"source": src},
                "observed": "the induction variable k is replaced in "
                "'b(i) = k * 1.0' although it is passed to a call (which "
                "may modify it) in between:\n" + out}
    return {"confirmed": False}


def run(name=""):
    if "LoopSwapTrans" in name:
        rp = swap_bound_cases()
        return rp if rp["confirmed"] else {"confirmed": False}
    if "_is_induction_variable" in name:
        return induction_cases()
    return {"confirmed": False}


def known(kid):
    if kid == "swap-no-dependence-check":
        return bool(swap_cases().get("confirmed"))
    want = {"induction-variable-zero-trip":
            "ReplaceInductionVariablesTrans.apply[n=0]",
            "hoist-zero-trip": "HoistTrans.apply[n=0]",
            "fuse-forward-dependence":
            "LoopFuseTrans.apply(forward-dependence)[n=8]"}.get(kid)
    return any(n == want and not ok for n, ok, _, _ in bounded_cases())


def bounded_cases(thorough=False):
    """bounded stand-in for the apply() bodies that are not under contract:
    original vs transformed routine under the serial evaluator for trip
    counts n in {0, 1, 3, 8}.  [(name, ok, detail, source)]"""
    from psyclone.psyir.transformations import (
        ReplaceInductionVariablesTrans, LoopSwapTrans, ChunkLoopTrans,
        HoistTrans, LoopFuseTrans, LoopTiling2DTrans,
        HoistLoopBoundExprTrans)
    from psyclone.psyir.nodes import Loop, Assignment
    fam = {
        "ReplaceInductionVariablesTrans.apply": (
            "  do i = 1, n\n    k = i + 1\n    b(i) = k * 1.0\n  end do\n",
            lambda psy: ReplaceInductionVariablesTrans().apply(
                psy.walk(Loop)[0])),
        "LoopSwapTrans.apply": (
            "  do j = 1, n\n    do i = 1, 8\n      a(i,j) = a(i,j) + i\n"
            "    end do\n  end do\n",
            lambda psy: LoopSwapTrans().apply(psy.walk(Loop)[0])),
        "ChunkLoopTrans.apply": (
            "  do i = 1, n\n    b(i) = b(i) + i\n  end do\n",
            lambda psy: ChunkLoopTrans().apply(psy.walk(Loop)[0],
                                               {"chunksize": 3})),
        "HoistTrans.apply": (
            "  do i = 1, n\n    t = 5\n    b(i) = b(i) + t\n  end do\n",
            lambda psy: HoistTrans().apply(psy.walk(Assignment)[0])),
        "LoopFuseTrans.apply(forward-dependence)": (
            "  do i = 1, 7\n    b(i) = b(i) + 1.0\n  end do\n"
            "  do i = 1, 7\n    a(i,1) = b(i + 1)\n  end do\n",
            lambda psy: LoopFuseTrans().apply(psy.walk(Loop)[0],
                                              psy.walk(Loop)[1])),
        "LoopFuseTrans.apply(same-index)": (
            "  do i = 1, n\n    b(i) = b(i) + 1.0\n  end do\n"
            "  do i = 1, n\n    a(i,1) = b(i)\n  end do\n",
            lambda psy: LoopFuseTrans().apply(psy.walk(Loop)[0],
                                              psy.walk(Loop)[1])),
    }
    if thorough:
        fam.update({
            "LoopFuseTrans.apply(backward-dependence)": (
                "  do i = 2, 8\n    b(i) = b(i) + 1.0\n  end do\n"
                "  do i = 2, 8\n    a(i,1) = b(i - 1)\n  end do\n",
                lambda psy: LoopFuseTrans().apply(psy.walk(Loop)[0],
                                                  psy.walk(Loop)[1])),
            "LoopFuseTrans.apply(scalar)": (
                "  do i = 1, 8\n    t = b(i)\n  end do\n"
                "  do i = 1, 8\n    a(i,1) = t\n  end do\n",
                lambda psy: LoopFuseTrans().apply(psy.walk(Loop)[0],
                                                  psy.walk(Loop)[1])),
            "ChunkLoopTrans.apply(negative-step)": (
                "  do i = n, 1, -1\n    b(i) = b(i) + i\n  end do\n",
                lambda psy: ChunkLoopTrans().apply(psy.walk(Loop)[0],
                                                   {"chunksize": 3})),
            "LoopTiling2DTrans.apply": (
                "  do j = 1, n\n    do i = 1, n\n      a(i,j) = a(i,j) + i "
                "- j\n    end do\n  end do\n",
                lambda psy: LoopTiling2DTrans().apply(psy.walk(Loop)[0],
                                                      {"tilesize": 3})),
            "HoistLoopBoundExprTrans.apply": (
                "  do i = 1, n - 1\n    b(i) = b(i) + 2.0\n  end do\n",
                lambda psy: HoistLoopBoundExprTrans().apply(
                    psy.walk(Loop)[0])),
        })
    out = []
    for name, (body, apply) in fam.items():
        # loops with literal bounds do not depend on n: one run
        for n in ((0, 1, 3, 8) if " n" in body or ",n" in body else (8,)):
            res, src = _run(body, apply, n=n)
            out.append((f"{name}[n={n}]", not res.startswith("differs"),
                        res, src))
    return out


def chunk_obligations(timeout_ms=20000):
    """PF: for every combination of bound shapes, literal positive step and
    chunk size the real ChunkLoopTrans is applied, the written loop nest is
    translated to z3 integer terms and it is proved, for ALL integer values
    of the variables, that the nest enumerates exactly the original
    iterations in the original order:
      sound     every (chunk k, inner j) iteration is an original iteration
      complete  every original iteration t is iteration j of chunk k(t)
      ordered   a chunk ends before the next one starts
    [(name, verdict, detail)], verdict in unsat / sat / unknown / refused"""
    import itertools
    import z3
    from psyclone.psyir.frontend.fortran import FortranReader
    from psyclone.psyir.nodes import Loop, Assignment, IntrinsicCall
    from psyclone.psyir.transformations import (ChunkLoopTrans,
                                                TransformationError)
    from realise.C19 import _z3_expr

    def zexpr(node, env):
        if isinstance(node, IntrinsicCall) and \
                node.routine.name.upper() in ("MIN", "MAX"):
            a, b = (zexpr(c, env) for c in node.arguments)
            if node.routine.name.upper() == "MIN":
                return z3.If(a <= b, a, b)
            return z3.If(a >= b, a, b)
        return _z3_expr(node, env)
    out = []
    shapes = itertools.product(("lo", "n + 1"), ("hi", "m - 1"),
                               (1, 2, 3), (1, 2, 3, 4, 6, 32))
    for lo, hi, st, chunk in shapes:
        name = f"ChunkLoopTrans[do i = {lo}, {hi}, {st}; chunksize={chunk}]"
        src = (f"subroutine s(a, lo, hi, n, m)\n  integer :: lo, hi, n, m, i\n"
               f"  real :: a(100)\n  do i = {lo}, {hi}, {st}\n"
               f"    a(i) = 1.0\n  end do\nend subroutine s\n")
        psy = FortranReader().psyir_from_source(src)
        orig = psy.walk(Loop)[0]
        env = {}
        o = [zexpr(x, env) for x in (orig.start_expr, orig.stop_expr,
                                     orig.step_expr)]
        try:
            ChunkLoopTrans().apply(orig, {"chunksize": chunk})
        except TransformationError:
            out.append((name, "refused", ""))
            continue
        outer, inner = psy.walk(Loop)[:2]
        ovar = outer.variable.name.lower()
        # the inner stop is a scalar assigned at the top of the outer body
        asg = [a for a in outer.loop_body.walk(Assignment)
               if a.lhs.symbol.name.lower() in
               [r.symbol.name.lower() for r in
                inner.stop_expr.walk(type(a.lhs))]]
        k, j, t = z3.Int("k"), z3.Int("j"), z3.Int("t")
        olo, ohi, ost = (zexpr(x, env) for x in (
            outer.start_expr, outer.stop_expr, outer.step_expr))
        io = olo + k * ost

        def inner_terms(io_val):
            env2 = dict(env)
            env2[ovar] = io_val
            if asg:
                env2[asg[0].lhs.symbol.name.lower()] = zexpr(asg[0].rhs,
                                                             env2)
            return [zexpr(x, env2) for x in (inner.start_expr,
                                             inner.stop_expr,
                                             inner.step_expr)]
        ilo, ihi, ist = inner_terms(io)
        e = ilo + j * ist
        in_orig = lambda v: z3.And(o[0] <= v, v <= o[1],   # noqa: E731
                                   (v - o[0]) % o[2] == 0)
        goals = {
            "sound": z3.Implies(z3.And(k >= 0, j >= 0, io <= ohi, e <= ihi),
                                in_orig(e)),
            "ordered": z3.Implies(z3.And(k >= 0, io <= ohi),
                                  z3.And(ihi < io + ost, ilo == io)),
        }
        v = o[0] + t * o[2]
        kk = (v - olo) / ost          # z3 integer division (floor, ost > 0)
        ilo2, ihi2, ist2 = inner_terms(olo + kk * ost)
        goals["complete"] = z3.Implies(
            z3.And(t >= 0, v <= o[1]),
            z3.And(kk >= 0, olo + kk * ost <= ohi, ilo2 <= v, v <= ihi2,
                   (v - ilo2) % ist2 == 0))
        for part, goal in goals.items():
            s = z3.Solver()
            s.set("timeout", timeout_ms)
            s.add(z3.Not(goal))
            res = s.check()
            detail = ""
            if res == z3.sat:
                m = s.model()
                detail = "counterexample " + ", ".join(
                    f"{d.name()}={m[d]}" for d in m.decls()
                    if d.arity() == 0) + "; written nest: do " + \
                    f"{ovar} = {outer.start_expr.debug_string()}, " \
                    f"{outer.stop_expr.debug_string()}, " \
                    f"{outer.step_expr.debug_string()} / do i = " \
                    f"{inner.start_expr.debug_string()}, " \
                    f"{(asg[0].rhs if asg else inner.stop_expr).debug_string()}" \
                    f", {inner.step_expr.debug_string()}"
            out.append((name + ":" + part, str(res), detail))
    return out
